(** C05  Each valid input record is counted once, in the pixel that contains it.
    Only statements, each closed by [exact] of a lemma proved in Proofs/IngestProofs.v. *)
From Cooler Require Import Model.Ingest Proofs.BinsProofs Proofs.ExtentProofs Proofs.IngestProofs.

(** an anchor inside its chromosome is assigned a bin of that chromosome that contains it
    (both paths: division by the reported bin size / searchsorted on the absolute bin starts) *)
Theorem C05_assign_contains : forall blocks i blk p,
  ValidBlocks blocks -> nth_error blocks i = Some blk -> 0 <= p < chrom_len blk ->
  exists x, nth_error (table blocks) (Z.to_nat (assign blocks (Z.of_nat i) p)) = Some x /\
            bchrom x = Z.of_nat i /\ bstart x <= p < bend x /\
            chrom_offset blocks i <= assign blocks (Z.of_nat i) p < chrom_offset blocks (S i).
Proof. exact assign_contains. Qed.
Print Assumptions C05_assign_contains.

(** _sanitize_records (five whole-chunk phases) is a per-record map/filter: the chunk fails iff some
    record is an error on its own, otherwise the output is the concatenation of the per-record outputs *)
Theorem C05_sanitize_is_map_filter : forall blocks one_based validate ta chunk,
  sanitize_records blocks one_based validate ta chunk =
  collect (map (sanitize1 blocks one_based validate ta) chunk).
Proof. exact sanitize_is_map_filter. Qed.
Print Assumptions C05_sanitize_is_map_filter.
