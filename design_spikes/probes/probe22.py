import warnings; warnings.filterwarnings("ignore")
import numpy as np, pandas as pd, cooler, collections, itertools
from cooler.create import sanitize_records, sanitize_pixels, aggregate_records, BadInputError
rng=np.random.default_rng(12)
print(cooler.__file__)
bad=0;tot=0
def mk_tables():
    yield cooler.binnify(pd.Series({"a":30,"b":25,"c":7}),10)
    yield pd.DataFrame([("a",0,4),("a",4,9),("a",9,30),("b",0,25),("c",0,3),("c",3,7)],columns=["chrom","start","end"])
    yield pd.DataFrame([("a",0,10),("a",10,20),("a",20,35),("b",0,10)],columns=["chrom","start","end"])  # longer last
for bins in mk_tables():
    cs=bins.groupby("chrom",sort=False)["end"].max(); names=list(cs.index)
    for one_based in (False,True):
      for tril in ("reflect","drop",None):
        for trial in range(60):
            m=int(rng.integers(1,12)); recs=[]
            for _ in range(m):
                c1=names[int(rng.integers(0,len(names)))] if rng.random()<0.9 else "zz"; c2=names[int(rng.integers(0,len(names)))] if rng.random()<0.9 else "zz"
                def pos(c):
                    L=int(cs.get(c,10)); cand=[0,L-1]+list(bins[bins.chrom==c].start)+list(bins[bins.chrom==c].end-1)+[int(rng.integers(0,L))]
                    p=int(cand[int(rng.integers(0,len(cand)))]); return p+1 if one_based else p
                recs.append((c1,pos(c1),c2,pos(c2),float(rng.integers(0,5))))
            df=pd.DataFrame(recs,columns=["chrom1","pos1","chrom2","pos2","v"]); df["s1"]=["x"]*m; df["s2"]=["y"]*m
            san=sanitize_records(bins,schema="pairs",is_one_based=one_based,tril_action=tril,sort=True,validate=True,sided_fields=("chrom","pos","s"))
            tot+=1
            try: out=san(df.copy())
            except Exception as e: bad+=1; print("EXC",type(e).__name__,str(e)[:60]); continue
            # reference
            exp=collections.Counter()
            for c1,p1,c2,p2,v in recs:
                if c1 not in names or c2 not in names: continue
                if one_based: p1-=1;p2-=1
                k1=(names.index(c1),p1); k2=(names.index(c2),p2); swapped=False
                if tril is not None and k1>k2:
                    if tril=="drop": continue
                    k1,k2=k2,k1; swapped=True
                def binof(k):
                    sub=bins[(bins.chrom==names[k[0]])]; idx=sub.index[(sub.start<=k[1])&(k[1]<sub.end)]; return int(idx[0])
                exp[(binof(k1),binof(k2),"y" if swapped else "x")]+=1
            got=collections.Counter((int(a),int(b),s) for a,b,s in zip(out.bin1_id,out.bin2_id,out.s1))
            if got!=exp: bad+=1; print("C05 MISMATCH",one_based,tril,list(bins.itertuples(index=False))[:3],recs[:3],got-exp,exp-got)
print("C05 tot",tot,"bad",bad)
