import warnings; warnings.filterwarnings("ignore")
import patch_gb
import numpy as np, pandas as pd, cooler, h5py, os, sys, itertools
rng=np.random.default_rng(5)
def mk(path,bins,M,symm=True):
    if symm: M=np.triu(M)
    i,j=np.nonzero(M); px=pd.DataFrame({"bin1_id":i,"bin2_id":j,"count":M[i,j]})
    cooler.create_cooler(path,bins,px,symmetric_upper=symm)
bad=0;tot=0
for trial in range(40):
    nchr=rng.integers(1,4); lens=rng.integers(1,8,nchr)*10+rng.integers(0,10,nchr)
    cs=pd.Series({f"c{k}":int(l) for k,l in enumerate(lens)})
    var = trial%2==1
    if var:
        rows=[]
        for ch,l in cs.items():
            cuts=sorted(set([0,l]+list(rng.integers(1,l,rng.integers(0,6))))) if l>1 else [0,l]
            rows+= [(ch,a,b) for a,b in zip(cuts[:-1],cuts[1:])]
        bins=pd.DataFrame(rows,columns=["chrom","start","end"])
    else: bins=cooler.binnify(cs,10)
    n=len(bins); symm=bool(rng.integers(0,2))
    M=(rng.random((n,n))<0.5)*rng.integers(1,9,(n,n))
    mk("in.cool",bins,M,symm); Mst=np.triu(M) if symm else M
    for k in (2,3,5):
      for chunk in (1,2,7,1000):
        tot+=1
        try:
            cooler.coarsen_cooler("in.cool","out.cool",k,chunksize=chunk)
        except Exception as e:
            bad+=1; print("coarsen EXC",type(e).__name__,e,"var",var,"k",k,"chunk",chunk, bins.values.tolist()); continue
        c=cooler.Cooler("out.cool"); nb=c.bins()[:]
        # expected grouping by index
        chrom_codes=pd.Categorical(bins.chrom,categories=list(cs.index)).codes
        grp=np.zeros(n,int); g=-1
        for ch in range(len(cs)):
            idx=np.where(chrom_codes==ch)[0]
            for m,o in enumerate(idx):
                if m%k==0: g+=1
                grp[o]=g
        N=g+1; E=np.zeros((N,N),int)
        for a,b in zip(*np.nonzero(Mst)): E[grp[a],grp[b]]+=Mst[a,b]
        if symm: E=np.triu(E)+np.tril(E,-1).T
        got=np.zeros((N,N),int); p=c.pixels()[:]
        if len(nb)!=N: bad+=1; print("nbins mismatch",var,k); continue
        np.add.at(got,(p.bin1_id.values,p.bin2_id.values),p["count"].values)
        srt = p[["bin1_id","bin2_id"]].apply(tuple,axis=1).tolist()
        if not np.array_equal(got,E) or srt!=sorted(set(srt)):
            bad+=1; print("coarsen MISMATCH var",var,"k",k,"chunk",chunk,"symm",symm, "binsize_in",cooler.Cooler("in.cool").binsize,"binsize_out",c.binsize, bins.values.tolist()[:12])
print("coarsen tot",tot,"bad",bad)
