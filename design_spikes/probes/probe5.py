import warnings; warnings.filterwarnings("ignore")
import numpy as np, pandas as pd, cooler, h5py, os, itertools
from cooler.create import BadInputError
chromsizes=pd.Series({"a":30,"b":20}); bins=cooler.binnify(chromsizes,10)
good=pd.DataFrame({"bin1_id":[0,0,1,3],"bin2_id":[0,2,4,4],"count":[1,2,3,4]})
cooler.create_cooler("f.cool::/x",bins,good)
def chunks(fail_at, kind):
    for k in range(3):
        if k==fail_at:
            if kind=="exc": raise RuntimeError("boom")
            if kind=="oob": yield pd.DataFrame({"bin1_id":[k],"bin2_id":[9],"count":[1]}); continue
            if kind=="tril": yield pd.DataFrame({"bin1_id":[k+1],"bin2_id":[k],"count":[1]}); continue
            if kind=="dup": yield pd.DataFrame({"bin1_id":[k,k],"bin2_id":[k,k],"count":[1,1]}); continue
        yield pd.DataFrame({"bin1_id":[k],"bin2_id":[k+1],"count":[1]})
for kind in ("exc","oob","tril","dup"):
  for fail_at in range(0,4):
    for dest in ("f.cool::/y","g.cool","f.cool::/deep/z"):
        if os.path.exists("g.cool"): os.remove("g.cool")
        try:
            cooler.create_cooler(dest,bins,chunks(fail_at,kind),ordered=True,mode="a")
            ok=True
        except Exception as e: ok=False; en=type(e).__name__
        fp=dest.split("::")[0]
        isc = cooler.fileops.is_cooler(dest) if (os.path.exists(fp)) else False
        lst = cooler.fileops.list_coolers(fp) if os.path.exists(fp) and h5py.is_hdf5(fp) else None
        x_ok = cooler.Cooler("f.cool::/x").pixels()[:].equals(good.astype({"count":"int32"}))
        if (not ok and isc) or not x_ok or (fail_at==3 and not ok):
            print("ANOMALY",kind,fail_at,dest,ok,isc,lst,x_ok)
        # cleanup y
        with h5py.File("f.cool","r+") as f:
            for g in ("y","deep"):
                if g in f: del f[g]
print("C13 probe done")
# unordered producer failing
def uchunks(fail_at):
    for k in range(3):
        if k==fail_at: raise RuntimeError("boom")
        yield pd.DataFrame({"bin1_id":[2-k],"bin2_id":[4],"count":[1]})
before=set(os.listdir("."))
for fa in range(4):
    try: cooler.create_cooler("f.cool::/u",bins,uchunks(fa),ordered=False,mode="a"); ok=True
    except Exception as e: ok=False
    print("unordered fail_at",fa,"ok",ok,"is_cooler", "u" in h5py.File("f.cool","r") and cooler.fileops.is_cooler("f.cool::/u"), "tempfiles left:",set(os.listdir("."))-before)
