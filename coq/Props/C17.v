(** C17  Every cell of a single-cell file reads back as the matrix given for it.  (statements follow) *)
From Cooler Require Import Model.Scool.
