(** HDF5 file as an object store, the h5py primitives cooler's file-level
    operations call, and on top of them cooler.fileops._copy / cp / mv / ln,
    is_cooler, list_coolers (custom visititems / TreeNode traversal) and
    create (modes a / w at a group path).        No proofs here.

    An HDF5 file is a list of objects; an object id is its position; id 0 is the
    root group.  Objects are never removed (unlinking only removes the link, the
    unreachable object stays as garbage, which no observable depends on).
    Two files FA, FB form a world (external links name the other file). *)
From Cooler Require Export Model.Base.
From Coq Require Strings.String Strings.Ascii.
Export Coq.Strings.String.StringSyntax.
Notation string := Coq.Strings.String.string.
Delimit Scope string_scope with string.

Definition path := list string.          (* absolute group path, split at '/' *)
Inductive fid := FA | FB.
Definition fid_eqb (a b : fid) : bool :=
  match a, b with FA, FA => true | FB, FB => true | _, _ => false end.

Inductive link := Hard (o : nat) | Soft (p : path) | Ext (f : fid) (p : path).
Inductive aval := AStr (s : string) | AInt (z : Z).
Inductive payload :=
  | PInts (l : list Z)
  | PStrs (l : list string)
  | PEnum (names : list string) (codes : list Z).   (* h5py enum dtype: name->code map + stored codes *)
Inductive obj :=
  | Group (attrs : list (string * aval)) (links : list (string * link))
  | Dataset (d : payload).
Definition store := list obj.
Record world := mkW { wA : option store; wB : option store }.   (* None = file does not exist *)

Definition get_store (w : world) (f : fid) : option store :=
  match f with FA => wA w | FB => wB w end.
Definition set_store (w : world) (f : fid) (s : option store) : world :=
  match f with FA => mkW s (wB w) | FB => mkW (wA w) s end.
Definition empty_store : store := [Group [] []].
Definition file_exists (w : world) (f : fid) : bool :=
  match get_store w f with Some _ => true | None => false end.

(** association lists keyed by strings; links and attributes are kept in strcmp order
    (HDF5 iterates a group by its name index) *)
Fixpoint assoc {X} (n : string) (l : list (string * X)) : option X :=
  match l with
  | [] => None
  | (m, x) :: r => if String.eqb n m then Some x else assoc n r
  end.
Fixpoint remove_key {X} (n : string) (l : list (string * X)) : list (string * X) :=
  match l with
  | [] => []
  | (m, x) :: r => if String.eqb n m then remove_key n r else (m, x) :: remove_key n r
  end.
Fixpoint ins_sorted {X} (n : string) (x : X) (l : list (string * X)) : list (string * X) :=
  match l with
  | [] => [(n, x)]
  | (m, y) :: r =>
      if String.eqb n m then (n, x) :: r
      else if String.ltb n m then (n, x) :: (m, y) :: r
      else (m, y) :: ins_sorted n x r
  end.
Fixpoint upd {X} (k : nat) (x : X) (l : list X) : list X :=
  match l, k with
  | [], _ => []
  | _ :: r, O => x :: r
  | y :: r, S k' => y :: upd k' x r
  end.

Definition obj_at (w : world) (f : fid) (o : nat) : option obj :=
  match get_store w f with Some st => nth_error st o | None => None end.
Definition set_obj (w : world) (f : fid) (o : nat) (x : obj) : world :=
  match get_store w f with Some st => set_store w f (Some (upd o x st)) | None => w end.
Definition alloc (w : world) (f : fid) (x : obj) : world * nat :=
  match get_store w f with
  | Some st => (set_store w f (Some (st ++ [x])), length st)
  | None => (w, O)
  end.
Definition lookup_link (w : world) (f : fid) (o : nat) (n : string) : option link :=
  match obj_at w f o with Some (Group _ ls) => assoc n ls | _ => None end.

(** ---- path resolution (h5py  f[path]) on explicit fuel.
    Every step (one component, one link) costs one unit; [Loop] = budget exhausted
    (HDF5: "too many links").  FUEL is far above any legitimate traversal of the
    explored histories and below nothing a soft-link loop could satisfy. *)
Inductive res :=
  | Found (f : fid) (o : nat)
  | Missing (hard : bool)     (* hard = true: a component before the last one of the traversal could not be
                                 crossed and no external link was crossed (H5Oexists_by_name fails instead of
                                 answering "no"); f[path] raises KeyError in either case *)
  | Loop.
Definition FUEL : nat := 64.
Definition is_nil {X} (l : list X) : bool := match l with [] => true | _ => false end.

(** x = an external link has been crossed *)
Fixpoint walk (fuel : nat) (w : world) (x : bool) (f : fid) (o : nat) (p : path) : res :=
  match fuel with
  | O => Loop
  | S k =>
    match p with
    | [] => Found f o
    | n :: rest =>
      match obj_at w f o with
      | Some (Group _ ls) =>
        match assoc n ls with
        | None => Missing (negb x && negb (is_nil rest))
        | Some (Hard o') => walk k w x f o' rest
        | Some (Soft q) => walk k w x f O (q ++ rest)
        | Some (Ext f' q) => if file_exists w f' then walk k w true f' O (q ++ rest) else Missing false
        end
      | _ => Missing (negb x)
      end
    end
  end.
Definition resolve (w : world) (f : fid) (p : path) : res := walk FUEL w false f O p.

(** open the object a single link denotes (h5py  group[name]  for one component) *)
Definition follow (w : world) (f : fid) (l : link) : res :=
  match l with
  | Hard o => Found f o
  | Soft q => walk FUEL w false f O q
  | Ext f' q => if file_exists w f' then walk FUEL w true f' O q else Missing false
  end.
Definition is_ext (l : link) : bool := match l with Ext _ _ => true | _ => false end.
Definition is_sym (l : link) : bool := match l with Hard _ => false | _ => true end.

Fixpoint split_last (p : path) : option (path * string) :=
  match p with
  | [] => None
  | c :: r => match split_last r with
              | None => Some ([], c)
              | Some (q, n) => Some (c :: q, n)
              end
  end.

Inductive outcome := Ok | EKey | EOS | ERuntime | EValue | ERecursion | EAttr.
Inductive tri := TTrue | TFalse | TRaise (e : outcome).
Definition is_group (w : world) (f : fid) (o : nat) : bool :=
  match obj_at w f o with Some (Group _ _) => true | _ => false end.

(** h5py  path in f  (h5g._path_valid): component by component; a link of that name must exist;
    all but the last must denote a group (H5Oexists_by_name, then open); the last link may dangle *)
Fixpoint contains_gen (fol : world -> fid -> link -> res) (w : world) (f : fid) (o : nat) (p : path) : tri :=
  match p with
  | [] => TTrue
  | n :: rest =>
      match lookup_link w f o n with
      | None => TFalse
      | Some l =>
          match rest with
          | [] => TTrue
          | _ => match fol w f l with
                 | Found f1 o1 => if is_group w f1 o1 then contains_gen fol w f1 o1 rest else TFalse
                 | Missing hard => if hard then TRaise ERuntime else TFalse
                 | Loop => TRaise ERuntime
                 end
          end
      end
  end.
Definition contains (w : world) (f : fid) (p : path) : tri := contains_gen follow w f O p.
Definition contains_b (w : world) (f : fid) (p : path) : bool :=
  match contains w f p with TTrue => true | _ => false end.

(** ---- link creation with HDF5's create-intermediate-groups property list.
    [ensure] walks the parent components from object (f,o), creating the missing groups. *)
Fixpoint ensure_gen (fol : world -> fid -> link -> res)
         (w : world) (xs xe : bool) (f : fid) (o : nat) (comps : path)
  : option (world * (bool * bool) * fid * nat) :=
  match comps with
  | [] => Some (w, (xs, xe), f, o)
  | c :: rest =>
      match obj_at w f o with
      | Some (Group a ls) =>
          match assoc c ls with
          | None =>
              let '(w1, g) := alloc w f (Group [] []) in
              let w2 := set_obj w1 f o (Group a (ins_sorted c (Hard g) ls)) in
              ensure_gen fol w2 xs xe f g rest
          | Some l =>
              match fol w f l with
              | Found f' o' => ensure_gen fol w (xs || is_sym l) (xe || is_ext l) f' o' rest
              | _ => None
              end
          end
      | _ => None
      end
  end.

(* (the fixpoints of this file take the fuel-bounded functions they call as parameters, so that
   the termination check never has to unfold a [walk FUEL]) *)
Definition ensure (w : world) (f : fid) (o : nat) (comps : path) := ensure_gen follow w false false f o comps.

(** the exception class when the final name is already bound: HDF5 follows the existing link,
    a soft-link loop there surfaces as RuntimeError instead of "name already exists" *)
Definition exists_err (w : world) (f : fid) (g : nat) (n : string) (eexist : outcome) : outcome :=
  match lookup_link w f g n with
  | Some l => match follow w f l with Loop => ERuntime | _ => eexist end
  | None => eexist
  end.

(** bind name n in group (f,g) to link l (no overwrite) *)
Definition bind (w : world) (f : fid) (g : nat) (n : string) (l : link) : option world :=
  match obj_at w f g with
  | Some (Group a ls) =>
      match assoc n ls with
      | Some _ => None
      | None => Some (set_obj w f g (Group a (ins_sorted n l ls)))
      end
  | _ => None
  end.

(** dst[path] = <link>;  lf = the file the target object of a hard link lives in;
    eexist / eother = the exception classes h5py raises for this kind of link *)
Definition add_link (w : world) (f : fid) (p : path) (l : link) (lf : fid)
           (eexist eother : outcome) : outcome * world :=
  match split_last p with
  | None => (eexist, w)
  | Some (par, n) =>
      match ensure w f O par with
      | None => (eother, w)
      | Some (w1, (_, xe), f1, g) =>
          match l with
          | Hard _ => if fid_eqb f1 lf then
                        match bind w1 f1 g n l with Some w2 => (Ok, w2) | None => (exists_err w1 f1 g n eexist, w) end
                      else (EOS, w1)          (* interfile hard link: the intermediate groups stay *)
          | Soft _ => match bind w1 f1 g n l with Some w2 => (Ok, w2) | None => (exists_err w1 f1 g n eexist, w) end
          | Ext _ _ => if xe then (ERuntime, w)   (* the file behind the crossed link is open read-only *)
                       else match bind w1 f1 g n l with Some w2 => (Ok, w2) | None => (exists_err w1 f1 g n eexist, w) end
          end
      end
  end.

(** del f[path] : unlink (the parent is resolved through links, the last link is not followed) *)
Definition del_link (w : world) (f : fid) (p : path) : outcome * world :=
  match split_last p with
  | None => (EKey, w)
  | Some (par, n) =>
      match resolve w f par with
      | Found f1 g =>
          match obj_at w f1 g with
          | Some (Group a ls) =>
              match assoc n ls with
              | Some _ => (Ok, set_obj w f1 g (Group a (remove_key n ls)))
              | None => (EKey, w)
              end
          | _ => (EKey, w)
          end
      | Loop => (ERuntime, w)
      | Missing _ => (EKey, w)
      end
  end.

(** ---- H5Ocopy.  The whole source store is appended to the destination store with every
    hard link shifted, and the destination name is bound to the shifted source id: sharing,
    cycles, soft and external links inside the copied hierarchy are preserved verbatim
    (objects of the appended block not reachable from the copy are garbage). The snapshot
    of the source is taken before the intermediate groups of the destination are created. *)
Definition shift_link (k : nat) (l : link) : link :=
  match l with Hard o => Hard (o + k) | _ => l end.
Definition shift_obj (k : nat) (x : obj) : obj :=
  match x with
  | Group a ls => Group a (map (fun nl => (fst nl, shift_link k (snd nl))) ls)
  | Dataset d => Dataset d
  end.

Definition h5copy (w : world) (sf : fid) (so : nat) (df : fid) (dg : nat) (dp : path)
  : outcome * world :=
  match split_last dp with
  | None => (ERuntime, w)
  | Some (par, n) =>
      match get_store w sf with
      | None => (ERuntime, w)
      | Some src0 =>
          match ensure w df dg par with
          | None => (ERuntime, w)
          | Some (w1, (xs, _), f1, g) =>
              if xs || negb (fid_eqb f1 df) then (ERuntime, w) else   (* H5Ocopy refuses a destination behind a soft or external link *)
              match get_store w1 f1 with
              | Some st1 =>
                  match nth_error st1 g with
                  | Some (Group a ls) =>
                      match assoc n ls with
                      | None =>
                          let k := List.length st1 in
                          (Ok, set_store w1 f1
                                 (Some (upd g (Group a (ins_sorted n (Hard (so + k)) ls)) st1
                                        ++ map (shift_obj k) src0)))
                      | Some _ => (ERuntime, w)
                      end
                  | _ => (ERuntime, w)
                  end
              | None => (ERuntime, w)
              end
          end
      end
  end.

(** attrs.update *)
Definition upd_attrs (a b : list (string * aval)) : list (string * aval) :=
  fold_left (fun acc kv => ins_sorted (fst kv) (snd kv) acc) b a.
Definition attrs_of (x : obj) : list (string * aval) :=
  match x with Group a _ => a | Dataset _ => [] end.
Definition set_attrs (w : world) (f : fid) (o : nat) (b : list (string * aval)) : world :=
  match obj_at w f o with
  | Some (Group a ls) => set_obj w f o (Group (upd_attrs a b) ls)
  | _ => w
  end.

(** ---- cooler.fileops._copy (fileops.py:284-330) *)
Definition res_err (r : res) : outcome :=
  match r with Found _ _ => Ok | Missing _ => EKey | Loop => ERuntime end.

Fixpoint copy_children_gen (fol : world -> fid -> link -> res)
         (cpy : world -> fid -> nat -> fid -> nat -> path -> outcome * world)
         (w : world) (sf : fid) (so : nat) (names : list (string * link))
         (df : fid) : outcome * world :=
  match names with
  | [] => (Ok, w)
  | (n, l) :: rest =>
      (* src.copy(src_group + "/" + subgrp, dst, subgrp) : the source is resolved by HDF5 *)
      match fol w sf l with
      | Found f1 o1 =>
          match cpy w f1 o1 df O [n] with
          | (Ok, w1) => copy_children_gen fol cpy w1 sf so rest df
          | e => e
          end
      | _ => (ERuntime, w)
      end
  end.
Definition copy_children := copy_children_gen follow h5copy.

Definition _copy (w : world) (sf : fid) (sp : path) (df : fid) (dp : path)
           (overwrite link rename soft_link : bool) : outcome * world :=
  if (Nat.ltb 1 ((if link then 1 else 0) + (if rename then 1 else 0) + (if soft_link then 1 else 0))%nat)
  then (EValue, w) else
  let same := fid_eqb sf df in
  if negb (file_exists w sf) then (EOS, w) else            (* h5py.File(src_path, "r"/"r+") *)
  let trunc := negb (file_exists w df) || overwrite in     (* dst_write_mode = "w" *)
  if same && trunc then (EOS, w) else                      (* cannot truncate a file that is open *)
  let w1 := if trunc then set_store w df (Some empty_store) else w in
  if same then
    if link || rename then
      match resolve w1 sf sp with                          (* src[src_group] *)
      | Found f o =>
          match add_link w1 sf dp (Hard o) f EOS EOS with  (* src[dst_group] = obj *)
          | (Ok, w2) => if rename then del_link w2 sf sp else (Ok, w2)
          | e => e
          end
      | r => (res_err r, w1)
      end
    else if soft_link then add_link w1 sf dp (Soft sp) sf EOS EOS
    else
      match resolve w1 sf sp with
      | Found f o => h5copy w1 f o sf O dp                 (* src.copy(src_group, dst_group) *)
      | _ => (ERuntime, w1)
      end
  else
    if link then (EOS, w1)
    else if soft_link then add_link w1 df dp (Ext sf sp) df ERuntime ERuntime
    else
      match dp with
      | [] =>
          match resolve w1 sf sp with                      (* src[src_group].keys() *)
          | Found f o =>
              match obj_at w1 f o with
              | Some (Group a ls) =>
                  match copy_children w1 f o ls df with
                  | (Ok, w2) => (Ok, set_attrs w2 df O a)  (* dst["/"].attrs.update(src[src_group].attrs) *)
                  | e => e
                  end
              | _ => (EAttr, w1)
              end
          | r => (res_err r, w1)
          end
      | _ =>
          match resolve w1 sf sp with
          | Found f o => h5copy w1 f o df O dp             (* src.copy(src_group, dst, dst_group) *)
          | _ => (ERuntime, w1)
          end
      end.

Definition cp w sf sp df dp (overwrite : bool) := _copy w sf sp df dp overwrite false false false.
Definition mv w sf sp df dp (overwrite : bool) := _copy w sf sp df dp overwrite false true false.
Definition ln w sf sp df dp (soft overwrite : bool) := _copy w sf sp df dp overwrite (negb soft) false soft.

(** ---- recognition *)
Definition MAGIC : string := "HDF5::Cooler"%string.
Definition aval_eqb (a b : aval) : bool :=
  match a, b with
  | AStr x, AStr y => String.eqb x y
  | AInt x, AInt y => Z.eqb x y
  | _, _ => false
  end.
Definition is_cooler_obj (x : obj) : bool :=
  match assoc "format"%string (attrs_of x) with
  | Some v => aval_eqb v (AStr MAGIC)
  | None => false
  end.
(** fileops.is_cooler after the D5 and D25 repairs:  not is_hdf5 -> False;  grouppath not in f -> False
    f[grouppath] or the membership test raising KeyError/RuntimeError -> False;
    else _is_cooler(f[grouppath]) *)
Definition is_cooler (w : world) (f : fid) (p : path) : tri :=
  if negb (file_exists w f) then TFalse
  else match contains w f p with
       | TFalse => TFalse
       | TRaise _ => TFalse
       | TTrue =>
           match resolve w f p with
           | Found f1 o => match obj_at w f1 o with
                           | Some x => if is_cooler_obj x then TTrue else TFalse
                           | None => TFalse
                           end
           | _ => TFalse
           end
       end.

(** ---- list_coolers: custom visititems over TreeNode.get_children().
    A node is (file, object, name); the name of a child is what h5py reports as obj.name:
    parent name + "/" + key for hard and soft links, the stored target path for an external
    link (the object lives in the other file and is named there).
    Group.values() opens every child first (a link that cannot be opened for a reason other
    than KeyError raises at once; a KeyError gives the child None), then the children are
    visited in order; a None child raises AttributeError at child.obj.name. *)
Definition child_name (name : path) (k : string) (l : link) : path :=
  match l with Ext _ q => q | _ => name ++ [k] end.

Fixpoint open_children_gen (fol : world -> fid -> link -> res)
         (w : world) (f : fid) (name : path) (ls : list (string * link))
  : option (list (path * res)) :=
  match ls with
  | [] => Some []
  | (k, l) :: r =>
      match fol w f l with
      | Loop => None                                        (* RuntimeError out of Group.get *)
      | x => match open_children_gen fol w f name r with
             | Some t => Some ((child_name name k l, x) :: t)
             | None => None
             end
      end
  end.

Definition open_children := open_children_gen follow.

Definition visit_result := (outcome * list (path * fid * nat))%type.

Fixpoint visit_gen (opn : world -> fid -> path -> list (string * link) -> option (list (path * res)))
         (fuel : nat) (w : world) (f : fid) (o : nat) (name : path) : visit_result :=
  match fuel with
  | O => (ERecursion, [])
  | S k =>
      match obj_at w f o with
      | Some (Group _ ls) =>
          match opn w f name ls with
          | None => (ERuntime, [])
          | Some cs =>
              (fix go (cs : list (path * res)) : visit_result :=
                 match cs with
                 | [] => (Ok, [])
                 | (nm, Found f1 o1) :: r =>
                     match visit_gen opn k w f1 o1 nm with
                     | (Ok, sub) =>
                         match go r with
                         | (Ok, t) => (Ok, (nm, f1, o1) :: sub ++ t)
                         | e => e
                         end
                     | e => e
                     end
                 | (_, _) :: _ => (EAttr, [])
                 end) cs
          end
      | _ => (Ok, [])                                       (* datasets have no children *)
      end
  end.

Definition visit := visit_gen open_children.

Definition VISIT_FUEL : nat := 40.

Definition is_cooler_at (w : world) (f : fid) (o : nat) : bool :=
  match obj_at w f o with Some x => is_cooler_obj x | None => false end.

(** list_coolers: the unsorted listing (natsorted afterwards by the caller); None file -> OSError *)
Definition list_coolers (w : world) (f : fid) : outcome * list path :=
  if negb (file_exists w f) then (EOS, []) else
  match visit VISIT_FUEL w f O [] with
  | (Ok, nodes) =>
      (Ok, (if is_cooler_at w f O then [[]] else []) ++
           map (fun n => fst (fst n)) (filter (fun n => is_cooler_at w (snd (fst n)) (snd n)) nodes))
  | (e, _) => (e, [])
  end.

(** ---- creation of a collection.  A table group is a list of columns, each a fresh dataset
    or (single-cell files) a hard link to an existing dataset. *)
Inductive colsrc := Fresh (d : payload) | Share (o : nat).
Inductive tblsrc := Table (cols : list (string * colsrc)) | ShareGroup (o : nat).
Record cspec := mkSpec {
  cs_tables : list (string * tblsrc);        (* chroms, bins, pixels, indexes *)
  cs_attrs : list (string * aval)
}.

Fixpoint write_cols (w : world) (f : fid) (g : nat) (cols : list (string * colsrc)) : option world :=
  match cols with
  | [] => Some w
  | (n, Fresh d) :: r =>
      let '(w1, o) := alloc w f (Dataset d) in
      match bind w1 f g n (Hard o) with Some w2 => write_cols w2 f g r | None => None end
  | (n, Share o) :: r =>
      match bind w f g n (Hard o) with Some w2 => write_cols w2 f g r | None => None end
  end.

Fixpoint write_tables (w : world) (f : fid) (g : nat) (ts : list (string * tblsrc)) : option world :=
  match ts with
  | [] => Some w
  | (n, Table cols) :: r =>
      let '(w1, t) := alloc w f (Group [] []) in
      match bind w1 f g n (Hard t) with
      | Some w2 => match write_cols w2 f t cols with
                   | Some w3 => write_tables w3 f g r
                   | None => None
                   end
      | None => None
      end
  | (n, ShareGroup o) :: r =>
      match bind w f g n (Hard o) with Some w2 => write_tables w2 f g r | None => None end
  end.

(** f.create_group(path): ValueError when the name exists or a component cannot be traversed;
    on success also the new group (file, object id) *)
Definition create_group (w : world) (f : fid) (p : path) : outcome * world * (fid * nat) :=
  match split_last p with
  | None => (EValue, w, (f, O))
  | Some (par, n) =>
      match ensure w f O par with
      | None => (EValue, w, (f, O))
      | Some (w1, _, f1, g) =>
          match lookup_link w1 f1 g n with
          | Some _ => (exists_err w1 f1 g n EValue, w, (f, O))
          | None =>
              let '(w2, o) := alloc w1 f1 (Group [] []) in
              match bind w2 f1 g n (Hard o) with
              | Some w3 => (Ok, w3, (f1, o))
              | None => (EValue, w, (f, O))
              end
          end
      end
  end.

Fixpoint del_if_present_gen (cont : world -> fid -> path -> bool) (del : world -> fid -> path -> outcome * world)
         (w : world) (f : fid) (names : list string) : world :=
  match names with
  | [] => w
  | n :: r => let w1 := if cont w f [n] then snd (del w f [n]) else w in
              del_if_present_gen cont del w1 f r
  end.
Definition del_if_present := del_if_present_gen contains_b del_link.

(** create(cool_uri, ..., mode): h5py.File(file, mode); at "/" the four table groups are
    unlinked if present, elsewhere the target group is created (an existing one is unlinked
    first); then the tables and the info attributes are written into the target group *)
Definition create (w : world) (f : fid) (p : path) (mode_w : bool) (spec : cspec) : outcome * world :=
  let w0 := if mode_w || negb (file_exists w f) then set_store w f (Some empty_store) else w in
  let prep :=
    match p with
    | [] => (Ok, del_if_present w0 f ["chroms"; "bins"; "pixels"; "indexes"]%string, (f, O))
    | _ => match create_group w0 f p with
           | (Ok, w1, tgt) => (Ok, w1, tgt)
           | (EValue, _, _) => match del_link w0 f p with          (* except ValueError: del f[path]; create again *)
                               | (Ok, w1) => create_group w1 f p
                               | (e, w1) => (e, w1, (f, O))
                               end
           | (e, _, _) => (e, w0, (f, O))
           end
    end in
  match prep with
  | (Ok, w1, (f1, g)) =>                                      (* h5 = f[group_path] : the group just made *)
      match write_tables w1 f1 g (cs_tables spec) with
      | Some w2 => (Ok, set_attrs w2 f1 g (cs_attrs spec))
      | None => (EValue, w1)
      end
  | (e, w1, _) => (e, w1)
  end.

(** ---- histories *)
Inductive op :=
  | OCreate (f : fid) (p : path) (mode_w : bool) (spec : cspec)
  | OCopy (sf : fid) (sp : path) (df : fid) (dp : path) (overwrite link rename soft_link : bool)
  | OSetAttr (f : fid) (p : path) (k : string) (v : aval).      (* raw h5py, not cooler: an unrelated attribute *)

Definition step (w : world) (o : op) : outcome * world :=
  match o with
  | OCreate f p m s => create w f p m s
  | OCopy sf sp df dp ow l r s => _copy w sf sp df dp ow l r s
  | OSetAttr f p k v =>
      match resolve w f p with
      | Found f1 o1 => (Ok, set_attrs w f1 o1 [(k, v)])
      | r => (res_err r, w)
      end
  end.

Definition run (w : world) (ops : list op) : world :=
  fold_left (fun acc o => snd (step acc o)) ops w.

Definition world0 : world := mkW None None.

(** ---- observables used by the correspondence run *)
Inductive dentry :=
  | DG (o : nat) (attrs : list (string * aval))
  | DD (o : nat) (d : payload)
  | DS (p : path)
  | DE (f : fid) (p : path)
  | DX.                                   (* hard link to nothing: never produced by the operations *)

Fixpoint dump (depth : nat) (w : world) (f : fid) (o : nat) (pre : path) : list (path * dentry) :=
  match depth with
  | O => []
  | S d =>
      match obj_at w f o with
      | Some (Group _ ls) =>
          flat_map (fun nl =>
            let p := pre ++ [fst nl] in
            match snd nl with
            | Hard o' =>
                match obj_at w f o' with
                | Some (Group a _) => (p, DG o' a) :: dump d w f o' p
                | Some (Dataset x) => [(p, DD o' x)]
                | None => [(p, DX)]
                end
            | Soft q => [(p, DS q)]
            | Ext f' q => [(p, DE f' q)]
            end) ls
      | _ => []
      end
  end.

Definition dump_file (depth : nat) (w : world) (f : fid) : option (list (path * dentry)) :=
  match obj_at w f O with
  | Some (Group a _) => Some (([], DG O a) :: dump depth w f O [])
  | _ => None
  end.

(** light form of a dump: kinds, identities and the format attribute only *)
Definition light_entry (e : dentry) : dentry :=
  match e with
  | DG o a => DG o (filter (fun kv => Coq.Strings.String.eqb (fst kv) "format"%string) a)
  | DD o _ => DD o (PInts [])
  | x => x
  end.
Definition light (d : option (list (path * dentry))) : option (list (path * dentry)) :=
  match d with
  | Some l => Some (map (fun pe => (fst pe, light_entry (snd pe))) l)
  | None => None
  end.

(** one observation of a world: for each file the raw tree, the listing, and is_cooler on the probes *)
Definition observe (probes : list path) (w : world) :=
  map (fun f => (light (dump_file 3 w f), list_coolers w f, map (is_cooler w f) probes)) [FA; FB].

(** run a history, observing after every step; the full dump of both files at the end *)
Fixpoint trace_steps_gen {O} (stp : world -> op -> outcome * world) (obs : world -> O)
         (w : world) (ops : list op) : list (outcome * O) :=
  match ops with
  | [] => []
  | o :: r => let '(e, w1) := stp w o in (e, obs w1) :: trace_steps_gen stp obs w1 r
  end.
Definition trace_steps (probes : list path) := trace_steps_gen step (observe probes).
Definition trace (probes : list path) (ops : list op) :=
  (trace_steps probes world0 ops,
   map (fun f => dump_file 5 (run world0 ops) f) [FA; FB]).

Definition SLASH : Coq.Strings.Ascii.ascii := Coq.Strings.Ascii.Ascii true true true true false true false false.  (* '/' = 47 *)

(** ---- group paths as written in URIs: components between slashes; HDF5 ignores repeated and
    trailing slashes; parse_cooler_uri prepends "/" when the group part does not start with one *)
Fixpoint split_slash (s : string) (cur : string) : path :=
  match s with
  | Coq.Strings.String.EmptyString =>
      match cur with Coq.Strings.String.EmptyString => [] | _ => [cur] end
  | Coq.Strings.String.String c r =>
      if Coq.Strings.Ascii.eqb c SLASH then
        match cur with
        | Coq.Strings.String.EmptyString => split_slash r ""%string
        | _ => cur :: split_slash r ""%string
        end
      else split_slash r (Coq.Strings.String.append cur (Coq.Strings.String.String c Coq.Strings.String.EmptyString))
  end.
Definition path_of_string (s : string) : path := split_slash s ""%string.
Definition uri_group (g : string) : string :=       (* util.parse_cooler_uri, the group part *)
  match g with
  | Coq.Strings.String.String c _ =>
      if Coq.Strings.Ascii.eqb c SLASH then g else Coq.Strings.String.String SLASH g
  | Coq.Strings.String.EmptyString => Coq.Strings.String.String SLASH g
  end.
