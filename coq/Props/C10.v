(** C10  Balancing weights flatten the marginals of the filtered matrix; NaN exactly on the filtered bins.
    Only statements; proofs are in Proofs/BalanceProofs.v.  Model: Model/Balance.v over exact rationals Q
    (floating point is not modelled; no square roots: the rescaled weights are "any w >= 0 with w_i^2 * scale = b_i^2").
    Notation: F = Fmat fs px is the dense symmetric completion of the filtered upper-triangular pixel table
    (diagonal once); rowsum F n b i = b_i * sum_j F_ij b_j is the i-th row sum of diag(b) F diag(b). *)
From Cooler Require Import Model.Query Model.Balanced Proofs.QueryProofs Proofs.QueryMain Proofs.BalancedProofs.
From Cooler Require Import Model.Balance Proofs.BalanceProofs Proofs.BalanceIntegration.
Open Scope Z_scope.

(** C10.1  sparse marginal = dense row sum (true only because a diagonal pixel is counted once, repair D11) *)
Theorem C10_marg_is_rowsum : forall n b (l : list wpx) i,
  UpperIn n l -> 0 <= i < Z.of_nat n ->
  (marg_at i (map (f_times b) l) == rowsum (dense l) n b i)%Q.
Proof. exact marg_is_rowsum. Qed.
Print Assumptions C10_marg_is_rowsum.

Theorem C10_sweep_marginal_is_rowsum : forall n chunk fs (px : list pixel) b i,
  chunk_ok chunk -> Forall keyfix fs -> upper_b px = true -> inrange_b (Z.of_nat n) px = true ->
  0 <= i < Z.of_nat n ->
  (qnth (margf_gw n (balance_spans (zlen px) chunk) fs px b) i == rowsum (Fmat fs px) n b i)%Q.
Proof. exact margf_gw_is_rowsum. Qed.
Print Assumptions C10_sweep_marginal_is_rowsum.

(** C10.2  one sweep: a zero weight stays zero, a positive weight stays positive *)
Theorem C10_zero_stays_zero : forall (m b b' : list Q) (var mu : Q) (i : Z),
  ic_update m b = Some (b', var, mu) -> length m = length b ->
  (qnth b i == 0)%Q -> (qnth b' i == 0)%Q.
Proof. exact zero_stays_zero. Qed.
Print Assumptions C10_zero_stays_zero.

Theorem C10_positive_stays_positive : forall (F : Z -> Z -> Q) (n : nat),
  (forall i j, (0 <= F i j)%Q) ->
  forall (m b b' : list Q) (var mu : Q) (i : Z),
  MargOf F n m b -> NonNeg b -> length b = n ->
  ic_update m b = Some (b', var, mu) -> InR n i ->
  (0 < qnth b i)%Q -> (0 < qnth b' i)%Q.
Proof. exact positive_stays_positive. Qed.
Print Assumptions C10_positive_stays_positive.

(** C10.2  NaN-set characterisation for the whole loop (any iteration budget), genome-wide mode of the model:
    a bin is NaN iff its entering weight is 0 (= masked by a bin filter, see C10_mask_rules) or no bin of the
    problem has a non-zero marginal; every other bin carries a positive weight *)
Theorem C10_gw_nan_set : forall (n : nat) (chunk : option Z) (fs : list (wpx -> wpx)) (px : list pixel),
  chunk_ok chunk -> good_px n px = true -> Forall keyfix fs -> Forall datnn fs ->
  forall tol fuel b bb s v k i,
  length b = n -> NonNeg b ->
  ic_loop (margf_gw n (balance_spans (zlen px) chunk) fs px) tol fuel b = Some (bb, s, v, k) -> InR n i ->
  (onth (mark_nan s bb) i = None <-> AllZero (Fmat fs px) n b \/ (qnth b i == 0)%Q) /\
  (forall x, onth (mark_nan s bb) i = Some x -> (0 < x)%Q /\ x = qnth bb i).
Proof. exact gw_nan_set. Qed.
Print Assumptions C10_gw_nan_set.

Theorem C10_trans_nan_set : forall (n : nat) (chunk : option Z) (fs : list (wpx -> wpx)) (chroms offsets : list Z) (px : list pixel),
  chunk_ok chunk -> good_px n px = true -> Forall keyfix fs -> Forall datnn fs ->
  length (cweights n offsets) = n -> (forall i, (0 <= qnth (cweights n offsets) i)%Q) ->
  forall tol fuel b bb s v k i,
  length b = n -> NonNeg b ->
  ic_loop (margf_trans n (balance_spans (zlen px) chunk) fs chroms offsets px) tol fuel b = Some (bb, s, v, k) -> InR n i ->
  (onth (mark_nan s bb) i = None <->
     AllZero (Gmat (cweights n offsets) (Fmat (fs ++ [f_zero_cis chroms]) px)) n b \/ (qnth b i == 0)%Q) /\
  (forall x, onth (mark_nan s bb) i = Some x -> (0 < x)%Q /\ x = qnth bb i).
Proof. exact trans_nan_set. Qed.
Print Assumptions C10_trans_nan_set.

(** the same for any matrix and any marginal function that agrees with its row sums (used per chromosome) *)
Theorem C10_nan_set : forall (F : Z -> Z -> Q) (n : nat),
  (forall i j, (0 <= F i j)%Q) ->
  forall margf : list Q -> list Q,
  (forall b, length b = n -> MargOf F n (margf b) b) ->
  forall tol fuel b bb s v k i,
  length b = n -> NonNeg b -> ic_loop margf tol fuel b = Some (bb, s, v, k) -> InR n i ->
  (onth (mark_nan s bb) i = None <-> AllZero F n b \/ (qnth b i == 0)%Q) /\
  (forall x, onth (mark_nan s bb) i = Some x -> (0 < x)%Q /\ x = qnth bb i).
Proof. exact nan_set. Qed.
Print Assumptions C10_nan_set.

(** C10.3  mask rules: a bin enters the loop with weight 0 iff its initial weight is zero/NaN, or
    min_nnz > 0 and its number of non-zero filtered entries is < min_nnz, or min_count <> 0 and its filtered
    marginal is < min_count, or mad_max > 0 and its per-chromosome-normalised marginal is below the MAD cutoff
    (exact multiplicative 4th-power form), or it is blacklisted *)
Theorem C10_mask_rules : forall (o : opts) (n : nat) (chroms offsets : list Z) (px : list pixel),
  length (x0_bias n (o_x0 o)) = n ->
  length (norm_marg (marg_of n (balance_spans (zlen px) (o_chunk o)) (base_filters o chroms) px) offsets) = n ->
  forall i, InR n i ->
  ((qnth (initial_bias o n chroms offsets px) i == 0)%Q <->
     (qnth (x0_bias n (o_x0 o)) i == 0)%Q \/ masked_nnz o n chroms px i \/ masked_count o n chroms px i \/
     masked_mad o n chroms offsets px i \/ In i (o_black o)).
Proof. exact mask_rules. Qed.
Print Assumptions C10_mask_rules.

(** the whole genome-wide run of the model (masks, loop with any iteration budget, NaN marking): a bin is NaN
    iff it is excluded by one of the documented filters or the matrix has no remaining data; all others positive *)
Theorem C10_balance_gw_nan_set : forall o n chroms offsets px rs,
  o_cis o = false -> o_trans o = false -> chunk_ok (o_chunk o) -> good_px n px = true ->
  length (x0_bias n (o_x0 o)) = n -> NonNeg (x0_bias n (o_x0 o)) ->
  Chain 0 (combine (removelast offsets) (tl offsets)) (Z.of_nat n) ->
  balance o n chroms offsets px = Some rs ->
  exists r, rs = [r] /\
    forall i, InR n i ->
      (onth (c_bias r) i = None <->
         AllZero (Fmat (base_filters o chroms) px) n (initial_bias o n chroms offsets px) \/
         (qnth (x0_bias n (o_x0 o)) i == 0)%Q \/ masked_nnz o n chroms px i \/
         masked_count o n chroms px i \/ masked_mad o n chroms offsets px i \/ In i (o_black o)) /\
      (forall x, onth (c_bias r) i = Some x -> (0 < x)%Q).
Proof. exact balance_gw_nan_set. Qed.
Print Assumptions C10_balance_gw_nan_set.

(** C10.4  flatness bound, one sweep: if the sweep on marginals m (mean mu over the N non-zero ones) passes
    var < tol, then for every eps in [0,1) with N*tol <= eps^2*mu^2 the RETURNED weights b' (one update ahead)
    give row sums in [mu/(1+eps), mu/(1-eps)] on every bin with a non-zero marginal *)
Theorem C10_flatness_bound : forall (F : Z -> Z -> Q) (n : nat),
  (forall i j, (F i j == F j i)%Q) -> (forall i j, (0 <= F i j)%Q) ->
  forall (m b b' : list Q) (var mu tol eps : Q) (i : Z),
  MargOf F n m b -> NonNeg b -> length b = n ->
  ic_update m b = Some (b', var, mu) ->
  (var < tol)%Q -> (0 <= eps)%Q -> (eps < 1)%Q ->
  (qlen (nzs m) * tol <= eps * eps * mu * mu)%Q ->
  InR n i -> ~ (qnth m i == 0)%Q ->
  (mu / (1 + eps) <= rowsum F n b' i /\ rowsum F n b' i <= mu / (1 - eps))%Q.
Proof. exact flatness_bound. Qed.
Print Assumptions C10_flatness_bound.

(** ... for the loop of the model in genome-wide mode (N = number of retained bins with data, a function of the
    entering weights b), unrescaled and rescaled *)
Theorem C10_gw_flatness : forall (n : nat) (chunk : option Z) (fs : list (wpx -> wpx)) (px : list pixel),
  chunk_ok chunk -> good_px n px = true -> Forall keyfix fs -> Forall datnn fs ->
  forall tol fuel b bb mu v k eps i,
  length b = n -> NonNeg b ->
  ic_loop (margf_gw n (balance_spans (zlen px) chunk) fs px) tol fuel b = Some (bb, Some mu, v, k) ->
  (v < tol)%Q -> (0 <= eps)%Q -> (eps < 1)%Q ->
  (nnz_rows (Fmat fs px) n b * tol <= eps * eps * mu * mu)%Q ->
  InR n i -> ~ (rowsum (Fmat fs px) n b i == 0)%Q ->
  (mu / (1 + eps) <= rowsum (Fmat fs px) n bb i /\ rowsum (Fmat fs px) n bb i <= mu / (1 - eps))%Q.
Proof. exact gw_flatness. Qed.
Print Assumptions C10_gw_flatness.

Theorem C10_gw_flatness_rescaled : forall (n : nat) (chunk : option Z) (fs : list (wpx -> wpx)) (px : list pixel),
  chunk_ok chunk -> good_px n px = true -> Forall keyfix fs -> Forall datnn fs ->
  forall tol fuel b bb mu v k eps i (w : list Q),
  length b = n -> NonNeg b ->
  ic_loop (margf_gw n (balance_spans (zlen px) chunk) fs px) tol fuel b = Some (bb, Some mu, v, k) ->
  (v < tol)%Q -> (0 <= eps)%Q -> (eps < 1)%Q ->
  (nnz_rows (Fmat fs px) n b * tol <= eps * eps * mu * mu)%Q ->
  (forall j, (0 <= qnth w j)%Q /\ (qnth w j * qnth w j * mu == qnth bb j * qnth bb j)%Q) ->
  InR n i -> ~ (rowsum (Fmat fs px) n b i == 0)%Q ->
  (1 / (1 + eps) <= rowsum (Fmat fs px) n w i /\ rowsum (Fmat fs px) n w i <= 1 / (1 - eps))%Q.
Proof. exact gw_flatness_rescaled. Qed.
Print Assumptions C10_gw_flatness_rescaled.

(** ... for any matrix / marginal function (per chromosome in cis-only mode) *)
Theorem C10_loop_flatness : forall (F : Z -> Z -> Q) (n : nat),
  (forall i j, (F i j == F j i)%Q) -> (forall i j, (0 <= F i j)%Q) ->
  forall margf : list Q -> list Q,
  (forall b, length b = n -> MargOf F n (margf b) b) ->
  forall tol fuel b bb mu v k eps i,
  length b = n -> NonNeg b ->
  ic_loop margf tol fuel b = Some (bb, Some mu, v, k) -> (v < tol)%Q ->
  (0 <= eps)%Q -> (eps < 1)%Q -> (nnz_rows F n b * tol <= eps * eps * mu * mu)%Q ->
  InR n i -> ~ (rowsum F n b i == 0)%Q ->
  (mu / (1 + eps) <= rowsum F n bb i /\ rowsum F n bb i <= mu / (1 - eps))%Q.
Proof. exact loop_flatness. Qed.
Print Assumptions C10_loop_flatness.

(** cis-only mode, one chromosome [lo, hi) (BlockSep: the bins of [lo,hi) share no chromosome id with any other bin;
    rows_sorted: pixels sorted by bin1, as in every cooler): the marginal function of the model, which reads only the
    pixel range [bin1_offset lo, bin1_offset hi) in chunks of c, agrees with the row sums of the chromosome's own
    sub-matrix Fc(a,b) = F(lo+a, lo+b), whatever the weights of the other chromosomes are *)
Theorem C10_cis_margof : forall o chroms (n : nat) c lo hi (px : list pixel) (full : list Q),
  o_cis o = true -> 1 <= c -> BlockSep chroms n lo hi -> good_px n px = true -> rows_sorted px ->
  0 <= lo -> lo <= hi -> hi <= Z.of_nat n -> length full = n ->
  forall seg, length seg = Z.to_nat (hi - lo) ->
    MargOf (fun a b => Fmat (base_filters o chroms) px (lo + a) (lo + b)) (Z.to_nat (hi - lo))
           (margf_cis n c (base_filters o chroms) px full lo hi seg) seg.
Proof. exact cis_margof. Qed.
Print Assumptions C10_cis_margof.

(** ... hence NaN set and flatness hold per chromosome on intra-chromosomal data *)
Theorem C10_cis_nan_set : forall (o : opts) (chroms : list Z) (n : nat) (c lo hi : Z) (px : list pixel),
  o_cis o = true -> 1 <= c -> BlockSep chroms n lo hi -> good_px n px = true -> rows_sorted px ->
  0 <= lo -> lo <= hi -> hi <= Z.of_nat n ->
  forall full tol fuel seg bb s v k i,
  length full = n -> length seg = Z.to_nat (hi - lo) -> NonNeg seg ->
  ic_loop (margf_cis n c (base_filters o chroms) px full lo hi) tol fuel seg = Some (bb, s, v, k) ->
  InR (Z.to_nat (hi - lo)) i ->
  (onth (mark_nan s bb) i = None <->
     AllZero (fun a b => Fmat (base_filters o chroms) px (lo + a) (lo + b)) (Z.to_nat (hi - lo)) seg \/ (qnth seg i == 0)%Q) /\
  (forall x, onth (mark_nan s bb) i = Some x -> (0 < x)%Q /\ x = qnth bb i).
Proof. exact cis_nan_set. Qed.
Print Assumptions C10_cis_nan_set.

Theorem C10_cis_flatness : forall (o : opts) (chroms : list Z) (n : nat) (c lo hi : Z) (px : list pixel),
  o_cis o = true -> 1 <= c -> BlockSep chroms n lo hi -> good_px n px = true -> rows_sorted px ->
  0 <= lo -> lo <= hi -> hi <= Z.of_nat n ->
  forall full tol fuel seg bb mu v k eps i,
  length full = n -> length seg = Z.to_nat (hi - lo) -> NonNeg seg ->
  ic_loop (margf_cis n c (base_filters o chroms) px full lo hi) tol fuel seg = Some (bb, Some mu, v, k) ->
  (v < tol)%Q -> (0 <= eps)%Q -> (eps < 1)%Q ->
  (nnz_rows (fun a b => Fmat (base_filters o chroms) px (lo + a) (lo + b)) (Z.to_nat (hi - lo)) seg * tol <= eps * eps * mu * mu)%Q ->
  InR (Z.to_nat (hi - lo)) i ->
  ~ (rowsum (fun a b => Fmat (base_filters o chroms) px (lo + a) (lo + b)) (Z.to_nat (hi - lo)) seg i == 0)%Q ->
  (mu / (1 + eps) <= rowsum (fun a b => Fmat (base_filters o chroms) px (lo + a) (lo + b)) (Z.to_nat (hi - lo)) bb i /\
   rowsum (fun a b => Fmat (base_filters o chroms) px (lo + a) (lo + b)) (Z.to_nat (hi - lo)) bb i <= mu / (1 - eps))%Q.
Proof. exact cis_flatness. Qed.
Print Assumptions C10_cis_flatness.

Theorem C10_cis_flatness_rescaled : forall (o : opts) (chroms : list Z) (n : nat) (c lo hi : Z) (px : list pixel),
  o_cis o = true -> 1 <= c -> BlockSep chroms n lo hi -> good_px n px = true -> rows_sorted px ->
  0 <= lo -> lo <= hi -> hi <= Z.of_nat n ->
  forall full tol fuel seg bb mu v k eps i (w : list Q),
  length full = n -> length seg = Z.to_nat (hi - lo) -> NonNeg seg ->
  ic_loop (margf_cis n c (base_filters o chroms) px full lo hi) tol fuel seg = Some (bb, Some mu, v, k) ->
  (v < tol)%Q -> (0 <= eps)%Q -> (eps < 1)%Q ->
  (nnz_rows (fun a b => Fmat (base_filters o chroms) px (lo + a) (lo + b)) (Z.to_nat (hi - lo)) seg * tol <= eps * eps * mu * mu)%Q ->
  (forall j, (0 <= qnth w j)%Q /\ (qnth w j * qnth w j * mu == qnth bb j * qnth bb j)%Q) ->
  InR (Z.to_nat (hi - lo)) i ->
  ~ (rowsum (fun a b => Fmat (base_filters o chroms) px (lo + a) (lo + b)) (Z.to_nat (hi - lo)) seg i == 0)%Q ->
  (1 / (1 + eps) <= rowsum (fun a b => Fmat (base_filters o chroms) px (lo + a) (lo + b)) (Z.to_nat (hi - lo)) w i /\
   rowsum (fun a b => Fmat (base_filters o chroms) px (lo + a) (lo + b)) (Z.to_nat (hi - lo)) w i <= 1 / (1 - eps))%Q.
Proof. exact cis_flatness_rescaled. Qed.
Print Assumptions C10_cis_flatness_rescaled.

(** the sequential cis driver: each reported chromosome is the outcome of that chromosome's loop *)
Theorem C10_cis_loop_spec : forall o (n : nat) c bf px ranges full rs,
  length full = n ->
  Forall (fun lohi => 0 <= fst lohi /\ fst lohi <= snd lohi /\ snd lohi <= Z.of_nat n) ranges ->
  (forall lo hi full' seg, length full' = n -> length seg = Z.to_nat (hi - lo) -> In (lo, hi) ranges ->
      length (margf_cis n c bf px full' lo hi seg) = Z.to_nat (hi - lo)) ->
  cis_loop o n c bf px full ranges = Some rs ->
  Forall2 (fun lohi r => exists full' bb s v k,
             length full' = n /\
             ic_loop (margf_cis n c bf px full' (fst lohi) (snd lohi)) (o_tol o) (o_iters o)
                     (slice full' (fst lohi) (snd lohi)) = Some (bb, s, v, k) /\
             c_bias r = mark_nan s bb /\ c_scale r = s /\ c_var r = v /\ c_iters r = k) ranges rs.
Proof. exact cis_loop_spec. Qed.
Print Assumptions C10_cis_loop_spec.

(** C10.5  trans-only: the bound holds for the weights b_i * cweight_i on the cis-zeroed matrix T ... *)
Theorem C10_trans_flatness : forall (n : nat) (chunk : option Z) (fs : list (wpx -> wpx)) (chroms offsets : list Z) (px : list pixel),
  chunk_ok chunk -> good_px n px = true -> Forall keyfix fs -> Forall datnn fs ->
  length (cweights n offsets) = n -> (forall i, (0 <= qnth (cweights n offsets) i)%Q) ->
  forall tol fuel b bb mu v k eps i,
  length b = n -> NonNeg b ->
  ic_loop (margf_trans n (balance_spans (zlen px) chunk) fs chroms offsets px) tol fuel b = Some (bb, Some mu, v, k) ->
  (v < tol)%Q -> (0 <= eps)%Q -> (eps < 1)%Q ->
  (nnz_rows (Gmat (cweights n offsets) (Fmat (fs ++ [f_zero_cis chroms]) px)) n b * tol <= eps * eps * mu * mu)%Q ->
  InR n i -> ~ (rowsum (Gmat (cweights n offsets) (Fmat (fs ++ [f_zero_cis chroms]) px)) n b i == 0)%Q ->
  (mu / (1 + eps) <= rowsum (Fmat (fs ++ [f_zero_cis chroms]) px) n (vmul bb (cweights n offsets)) i /\
   rowsum (Fmat (fs ++ [f_zero_cis chroms]) px) n (vmul bb (cweights n offsets)) i <= mu / (1 - eps))%Q.
Proof. exact trans_flatness. Qed.
Print Assumptions C10_trans_flatness.

(** ... and is FALSE for the returned weights alone when chromosomes differ in bin count (known finding D15,
    signature trans-only-unequal-chrom-bins-rowsum): chromosomes of 1/2/2 bins, tol = 1/100; the run converges,
    eps = 1/40 is admissible, yet two trans row sums differ by more than the factor (1+eps)/(1-eps) *)
Theorem C10_trans_rowsum_refuted :
  exists bb mu v k eps i j,
    ic_loop (margf_trans 5 (balance_spans 8 None) [] d15_chroms d15_offsets d15_px) (1#100) 10 (repeat 1%Q 5)
      = Some (bb, Some mu, v, k) /\
    (v < 1#100)%Q /\ (0 <= eps)%Q /\ (eps < 1)%Q /\
    (nnz_rows (Gmat (cweights 5 d15_offsets) d15_T) 5 (repeat 1%Q 5) * (1#100) <= eps * eps * mu * mu)%Q /\
    InR 5 i /\ InR 5 j /\
    ((1 + eps) / (1 - eps) * rowsum d15_T 5 bb j < rowsum d15_T 5 bb i)%Q.
Proof. exact trans_rowsum_refuted. Qed.
Print Assumptions C10_trans_rowsum_refuted.

(** the whole cis-only run of the model (masks, per-chromosome loops in sequence, NaN marking): for every chromosome
    [lo,hi) and every bin i of it, NaN iff excluded by a documented filter or the chromosome has no remaining
    intra-chromosomal data; all other weights positive.  ranges = consecutive chromosome bin ranges tiling [0,n);
    BlockSep: the bins of a chromosome share their chromosome id with no other bin; rows_sorted: pixels sorted by bin1 *)
Theorem C10_balance_cis_nan_set : forall o n chroms offsets px rs,
  o_cis o = true -> chunk_ok (o_chunk o) -> good_px n px = true -> rows_sorted px ->
  length (x0_bias n (o_x0 o)) = n -> NonNeg (x0_bias n (o_x0 o)) ->
  Chain 0 (combine (removelast offsets) (tl offsets)) (Z.of_nat n) ->
  (forall lo hi, In (lo, hi) (combine (removelast offsets) (tl offsets)) -> BlockSep chroms n lo hi) ->
  balance o n chroms offsets px = Some rs ->
  Forall2 (fun lohi r =>
     forall i, fst lohi <= i < snd lohi ->
       (onth (c_bias r) (i - fst lohi) = None <->
          AllZero (fun a b => Fmat (base_filters o chroms) px (fst lohi + a) (fst lohi + b)) (Z.to_nat (snd lohi - fst lohi))
                  (slice (initial_bias o n chroms offsets px) (fst lohi) (snd lohi)) \/
          (qnth (x0_bias n (o_x0 o)) i == 0)%Q \/ masked_nnz o n chroms px i \/ masked_count o n chroms px i \/
          masked_mad o n chroms offsets px i \/ In i (o_black o)) /\
       (forall x, onth (c_bias r) (i - fst lohi) = Some x -> (0 < x)%Q))
    (combine (removelast offsets) (tl offsets)) rs.
Proof. exact balance_cis_nan_set. Qed.
Print Assumptions C10_balance_cis_nan_set.

(** C10 + C12 + C03: what a user reads back after balancing is flat.
    [epx, off] is a schema-valid symmetric-upper collection; balancing ran genome-wide with ignore_diags = 0 (no data
    filter, fs = []: the read below is of the UNFILTERED matrix) from entering weights b (zero on masked bins) and
    stopped with var < tol; the stored column w holds the rescaled weights (StoredWeights: w_j >= 0,
    w_j^2 * scale = b_j^2, NaN where the final weight is 0; NaN reads as 0 in a sum).  Then the dense balanced read
    matrix(balance=True) of the whole matrix (multiplicative weights) exists, and the nan-sum of every row of a
    retained bin with data lies in [1/(1+eps), 1/(1-eps)]; rows of masked bins are all NaN (C10_balanced_read_rowsum). *)
Theorem C10_balanced_read_flat : forall n epx off cs cols balance dw name w chunk tol fuel b bb mu v k eps,
  ValidCSR n epx off -> Upper epx -> 1 <= cs -> zlen w = n ->
  weight_name balance = Some name -> lookup_weights cols name = Some w ->
  effective_divisive balance dw = false ->
  chunk_ok chunk -> good_px (Z.to_nat n) (map snd epx) = true ->
  length b = Z.to_nat n -> NonNeg b ->
  ic_loop (margf_gw (Z.to_nat n) (balance_spans (zlen (map snd epx)) chunk) [] (map snd epx)) tol fuel b = Some (bb, Some mu, v, k) ->
  (v < tol)%Q -> (0 <= eps)%Q -> (eps < 1)%Q ->
  (nnz_rows (Fmat [] (map snd epx)) (Z.to_nat n) b * tol <= eps * eps * mu * mu)%Q ->
  StoredWeights w bb mu ->
  exists D, matrix_balanced epx off cs true Dense cols balance dw (0, n, 0, n) = Some (BDense D) /\
    forall a, 0 <= a < n -> ~ (rowsum (Fmat [] (map snd epx)) (Z.to_nat n) b a == 0)%Q ->
      (1 / (1 + eps) <= row_nansum D a (Z.to_nat n) /\ row_nansum D a (Z.to_nat n) <= 1 / (1 - eps))%Q.
Proof. exact balanced_read_flat. Qed.
Print Assumptions C10_balanced_read_flat.

(** the read itself: for ANY stored weight column (NaN = masked) the nan-sum of row a of the balanced dense read is the
    a-th row sum of diag(w) S diag(w), S = symmetric completion of the stored table; a masked row is all NaN *)
Theorem C10_balanced_read_rowsum : forall n epx off cs cols balance dw name w,
  ValidCSR n epx off -> Upper epx -> 1 <= cs -> zlen w = n ->
  weight_name balance = Some name -> lookup_weights cols name = Some w ->
  effective_divisive balance dw = false ->
  exists D, matrix_balanced epx off cs true Dense cols balance dw (0, n, 0, n) = Some (BDense D) /\
    forall a, 0 <= a < n ->
      (row_nansum D a (Z.to_nat n) == rowsum (Fmat [] (map snd epx)) (Z.to_nat n) (wq w) a)%Q /\
      (wnth w a = None -> forall b, 0 <= b < n -> nth (Z.to_nat b) (nth (Z.to_nat a) D []) None = None).
Proof. exact balanced_read_rowsum. Qed.
Print Assumptions C10_balanced_read_rowsum.

(** with ignore_diags = d > 0 the loop equalises the matrix without its first d diagonals: the flat quantity of the
    (unfiltered) read is the nan-sum over the cells with |a - b| >= d *)
Theorem C10_balanced_read_flat_diags : forall n epx off cs cols balance dw name w chunk d tol fuel b bb mu v k eps,
  ValidCSR n epx off -> Upper epx -> 1 <= cs -> zlen w = n ->
  weight_name balance = Some name -> lookup_weights cols name = Some w ->
  effective_divisive balance dw = false ->
  chunk_ok chunk -> good_px (Z.to_nat n) (map snd epx) = true ->
  length b = Z.to_nat n -> NonNeg b ->
  ic_loop (margf_gw (Z.to_nat n) (balance_spans (zlen (map snd epx)) chunk) [f_zero_diags d] (map snd epx)) tol fuel b = Some (bb, Some mu, v, k) ->
  (v < tol)%Q -> (0 <= eps)%Q -> (eps < 1)%Q ->
  (nnz_rows (Fmat [f_zero_diags d] (map snd epx)) (Z.to_nat n) b * tol <= eps * eps * mu * mu)%Q ->
  StoredWeights w bb mu ->
  exists D, matrix_balanced epx off cs true Dense cols balance dw (0, n, 0, n) = Some (BDense D) /\
    forall a, 0 <= a < n -> ~ (rowsum (Fmat [f_zero_diags d] (map snd epx)) (Z.to_nat n) b a == 0)%Q ->
      (1 / (1 + eps) <= row_nansum_off D a (Z.to_nat n) d /\ row_nansum_off D a (Z.to_nat n) d <= 1 / (1 - eps))%Q.
Proof. exact balanced_read_flat_diags. Qed.
Print Assumptions C10_balanced_read_flat_diags.

(** non-vacuity: a concrete genome-wide run of the model (4 bins, non-zero diagonal, ignore_diags = 0) satisfies
    the hypotheses of C10_gw_flatness with eps = 1/5, and a masked bin stays NaN *)
Example ex_C10_run :
  let px := [(0,0,5); (0,1,3); (0,2,2); (1,1,7); (1,2,1); (1,3,4); (2,2,2); (2,3,6); (3,3,1)] in
  good_px 4 px = true /\
  exists bb mu v k,
    ic_loop (margf_gw 4 (balance_spans 9 (Some 4)) [] px) (1#10) 20 [1; 1; 1; 1]%Q = Some (bb, Some mu, v, k) /\
    Qltb v (1#10) = true /\
    Qle_bool (nnz_rows (Fmat [] px) 4 [1; 1; 1; 1]%Q * (1#10)) ((1#5) * (1#5) * mu * mu) = true /\
    negb (qz (rowsum (Fmat [] px) 4 [1; 1; 1; 1]%Q 2)) = true.
Proof. split; [reflexivity|]. eexists. eexists. eexists. eexists. vm_compute. repeat split; reflexivity. Qed.

Example ex_C10_masked_stays_nan :
  let px := [(0,1,3); (0,2,2); (1,2,1); (1,3,4); (2,3,6)] in
  exists bb s v k,
    ic_loop (margf_gw 4 (balance_spans 5 None) [f_zero_diags 1] px) (1#10) 20 [1; 0; 1; 1]%Q = Some (bb, s, v, k) /\
    map (option_map Qred) (mark_nan s bb) <> [] /\ onth (mark_nan s bb) 1 = None /\ onth (mark_nan s bb) 0 <> None.
Proof. eexists. eexists. eexists. eexists. vm_compute. repeat split; try reflexivity; discriminate. Qed.

(** non-vacuity of the cis-only hypotheses: two chromosomes of 2 and 3 bins, second chromosome [2,5) *)
Example ex_C10_cis_hyps :
  let px := [(0,0,2); (0,1,3); (0,3,4); (1,1,1); (1,2,6); (1,4,2); (2,2,3); (2,3,5); (2,4,1); (3,4,7); (4,4,2)] in
  let chroms := [0; 0; 1; 1; 1] in
  BlockSep chroms 5 2 5 /\ good_px 5 px = true /\ rows_sorted px /\
  exists bb mu v k,
    ic_loop (margf_cis 5 3 (base_filters (Build_opts true false 0 0 0 0 [] (1#10) 20 (Some 3) None) chroms) px
               [1;1;1;1;1]%Q 2 5) (1#10) 20 [1;1;1]%Q = Some (bb, Some mu, v, k) /\ Qltb v (1#10) = true.
Proof.
  cbv zeta. split; [|split; [reflexivity|split]].
  - intros a b Ha Hb Hout. assert (Ea : a = 2 \/ a = 3 \/ a = 4) by lia. assert (Eb : b = 0 \/ b = 1) by lia.
    destruct Ea as [Ea|[Ea|Ea]], Eb as [Eb|Eb]; subst a b; vm_compute; discriminate.
  - unfold rows_sorted, row. cbn [map fst]. apply Sorted.Sorted_StronglySorted; [intros x y z; lia|].
    repeat (apply Sorted.Sorted_cons; [|first [apply Sorted.HdRel_nil | apply Sorted.HdRel_cons; lia]]). apply Sorted.Sorted_nil.
  - eexists. eexists. eexists. eexists. vm_compute. split; reflexivity.
Qed.

(** non-vacuity of the integration: a stored 3-bin table with a masked bin; the balanced read row sums equal the row
    sums of diag(w) S diag(w) and the masked row is NaN *)
Example ex_C10_balanced_read :
  let px := [((0,0),4); ((0,2),6); ((1,2),3); ((2,2),8)] in
  let w := [Some (1#2); None; Some (1#4)]%Q in
  match matrix_balanced (epx_of px) (offsets_of 3 px) 2 true Dense [("weight"%string, w)] (Some None) None (0,3,0,3) with
  | Some (BDense D) =>
      Qred (row_nansum D 0 3) = Qred (rowsum (Fmat [] px) 3 (wq w) 0) /\
      Qred (row_nansum D 2 3) = Qred (rowsum (Fmat [] px) 3 (wq w) 2) /\ nth 1 D [] = [None; None; None]
  | _ => False
  end.
Proof. vm_compute. repeat split; reflexivity. Qed.

(** ---- tie to the source by translation: the element-wise masks of the balancing filters (diagonal band, trans, cis)
    are regenerated per pixel from _balance.py on every run (tools/py2v.py -> Gen.bal_diag_mask, bal_trans_mask,
    bal_cis_mask) and are exactly the conditions of the model's filters; the masked assignment, the binarisation and the
    two bincounts of the marginal are pinned. *)
From Cooler Require Import Gen.Translated Proofs.GenBridgeBalance.
Theorem C10_source_filter_masks_are_model : forall d chroms w,
  f_zero_diags d w = (if Gen.bal_diag_mask (b1 w) (b2 w) d then (fst w, 0%Q) else w) /\
  f_zero_trans chroms w = (if Gen.bal_trans_mask (chrom_of chroms (b1 w)) (chrom_of chroms (b2 w)) then (fst w, 0%Q) else w) /\
  f_zero_cis chroms w = (if Gen.bal_cis_mask (chrom_of chroms (b1 w)) (chrom_of chroms (b2 w)) then (fst w, 0%Q) else w).
Proof. intros. split; [apply gen_zero_diags|split; [apply gen_zero_trans|apply gen_zero_cis]]. Qed.
Print Assumptions C10_source_filter_masks_are_model.
Theorem C10_source_filter_pins : Gen.balance_filter_pins = true.
Proof. exact gen_balance_filter_pins. Qed.
Print Assumptions C10_source_filter_pins.
