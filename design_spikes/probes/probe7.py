import warnings; warnings.filterwarnings("ignore")
import numpy as np, pandas as pd, cooler, h5py, os, subprocess, sys
env={**os.environ,"PYTHONPATH":"/repo/src"}
chromsizes=pd.Series({"a":30,"b":20}); bins=cooler.binnify(chromsizes,10)
good=pd.DataFrame({"bin1_id":[0,0,1,3],"bin2_id":[0,2,4,4],"count":[1,2,3,4]})
cooler.create_cooler("d.cool",bins,good,assembly="123",metadata={"a":[1,2.5,None,"x"],"b":{"c":True}})
c=cooler.Cooler("d.cool")
print("assembly back:",repr(c.info["genome-assembly"]),"metadata:",c.info["metadata"])
def run(*a):
    r=subprocess.run([sys.executable,"-m","cooler",*a],capture_output=True,text=True,env=env); return r.returncode,r.stdout,r.stderr[-300:]
print("dump plain:",run("dump","d.cool")[1].split("\n")[:2])
print("dump --one-based-ids:",run("dump","--one-based-ids","d.cool")[1].split("\n")[:2])
print("dump --one-based-ids --join? n/a; with -b? none. dump -c count:",run("dump","-c","count","d.cool")[1].split("\n")[:2])
print("dump --join --one-based-starts:",run("dump","--join","--one-based-starts","d.cool")[1].split("\n")[:2])
print("dump --one-based-starts alone:",run("dump","--one-based-starts","d.cool")[1].split("\n")[:2])
# annotate empty with partial bins
try:
    a=cooler.annotate(c.pixels()[0:0], c.bins()[2:4]); print("annotate empty/partial ok",a.shape)
except Exception as e: print("annotate empty+partial:",type(e).__name__,e)
# max_merge small
def uch():
    yield pd.DataFrame({"bin1_id":[3],"bin2_id":[4],"count":[1]})
    yield pd.DataFrame({"bin1_id":[0],"bin2_id":[4],"count":[1]})
for mm in (1,2):
  for nch in (2,3,4,5):
    def uch():
        for k in range(nch): yield pd.DataFrame({"bin1_id":[(7*k)%4],"bin2_id":[4],"count":[1]})
    try:
        cooler.create_cooler("u.cool",bins,uch(),ordered=False,max_merge=mm,mergebuf=1); print("max_merge",mm,"nchunks",nch,"ok",cooler.Cooler("u.cool").pixels()[:].values.tolist())
    except Exception as e: print("max_merge",mm,"nchunks",nch,type(e).__name__,e)
# load with permuted --field
open("cs.txt","w").write("a\t30\nb\t20\n")
open("x.coo","w").write("0\t1\t5\t0.5\t7\n1\t2\t6\t1.5\t9\n")
print(run("load","-f","coo","--field","foo=5","--field","bar=4:dtype=float","--field","count=3","cs.txt:10","x.coo","l.cool")[0])
print(cooler.Cooler("l.cool").pixels()[:])
