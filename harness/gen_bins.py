"""Generators for bin tables shared by several properties."""
from __future__ import annotations

import itertools

import numpy as np
import pandas as pd


def names_for(n):
    """chromosome names deliberately NOT in lexicographic order of their ids"""
    base = ["chrB", "chrA", "chr10", "chr2", "z", "c-1", "M.x", "q"]
    return base[:n] if n <= len(base) else base + [f"k{i}" for i in range(n - len(base))]


def compositions(L):
    """all compositions (ordered partitions) of L as lists of widths"""
    out = []
    for mask in range(1 << (L - 1)):
        ws, cur = [], 1
        for i in range(L - 1):
            if mask >> i & 1:
                ws.append(cur)
                cur = 1
            else:
                cur += 1
        ws.append(cur)
        out.append(ws)
    return out


def blocks_from_widths(widths):
    blocks = []
    for ci, ws in enumerate(widths):
        pos, blk = 0, []
        for w in ws:
            blk.append((ci, pos, pos + w))
            pos += w
        blocks.append(blk)
    return blocks


def random_blocks(rng, maxchrom=4):
    """widths per chromosome from the families: uniform, shorter last, LONGER last, one-bin, variable"""
    nc = rng.randint(1, maxchrom)
    b = rng.choice([1, 2, 3, 5, 10, 1000])
    fam_table = rng.choice(["fixed", "fixed", "mixed"])
    out = []
    for _ in range(nc):
        fam = rng.choice(["uniform", "short", "long", "one", "var"]) if fam_table == "mixed" else rng.choice(["uniform", "short", "one_short", "long"] if rng.random() < 0.3 else ["uniform", "short", "one_short"])
        n = rng.randint(1, 6)
        if fam == "uniform":
            ws = [b] * n
        elif fam == "short":
            ws = [b] * n + ([rng.randint(1, b - 1)] if b > 1 else [])
        elif fam == "one_short":
            ws = [rng.randint(1, b)]
        elif fam == "long":
            ws = [b] * n + [b + rng.randint(1, 2 * b)]
        elif fam == "one":
            ws = [rng.randint(1, 3 * b)]
        else:
            ws = [rng.randint(1, 2 * b) for _ in range(n)]
        out.append(ws)
    return out


def table_from_blocks(blocks, categorical=True, names=None):
    names = names or names_for(len(blocks))
    rows = [(names[c], s, e) for blk in blocks for (c, s, e) in blk]
    df = pd.DataFrame(rows, columns=["chrom", "start", "end"])
    df["start"] = df["start"].astype(np.int64)
    df["end"] = df["end"].astype(np.int64)
    if categorical:
        df["chrom"] = pd.Categorical(df["chrom"], categories=names, ordered=True)
    return df
