#!/bin/bash
# phase 2 (sequential): the owning check against the changed tree
P=$1; WT=$2; ID=${3:-$P-1}
OUT=/verif/seeded/$ID
(cd /verif && VERIF_REPO=$WT timeout 3000 ./check $P 2>&1 | grep -E "^VIOLATION|^KNOWN|ERROR" | cut -c1-250; echo "exit ${PIPESTATUS[0]}") > $OUT/check_output.txt
rp=$(grep -o "replay=[^ ]*" $OUT/check_output.txt | head -1 | cut -d= -f2); [ -n "$rp" ] && cp $rp $OUT/replay.json 2>/dev/null
echo "$ID p2: $(grep -c '^VIOLATION' $OUT/check_output.txt) violation line(s)"
