(** C11  Balancing depends on the data only, not on chunking or scheduling.
    Only statements; proofs are in Proofs/BalanceProofs.v.  Model: Model/Balance.v (exact rationals). *)
From Cooler Require Import Model.Balance Proofs.BalanceProofs.
From Cooler Require Import Gen.Translated Proofs.GenBridgeBalance.
From Coq Require Import Permutation Setoid Morphisms.
Open Scope Z_scope.

(** the spans of balance_cooler (edges every chunksize up to nnz), read through the clamping chunk getter,
    reproduce the pixel table: every stored pixel exactly once, in order, for every chunk size >= 1 *)
Theorem C11_spans_exact_cover : forall (px : list pixel) (c : Z), 1 <= c ->
  concat (map (get_chunk px) (balance_spans (zlen px) (Some c))) = px.
Proof. exact spans_exact_cover. Qed.
Print Assumptions C11_spans_exact_cover.

Theorem C11_spans_none_cover : forall (px : list pixel),
  concat (map (get_chunk px) (balance_spans (zlen px) None)) = px.
Proof. exact spans_none_cover. Qed.
Print Assumptions C11_spans_none_cover.

(** consecutive and disjoint: the spans form a chain 0 = lo_0 <= hi_0 = lo_1 <= ... whose end is >= nnz,
    and every pixel index belongs to exactly one span *)
Theorem C11_spans_consecutive : forall nnz c, 0 <= nnz -> 1 <= c ->
  Chain 0 (balance_spans nnz (Some c)) (cdiv nnz c * c) /\ nnz <= cdiv nnz c * c.
Proof. intros nnz c Hn Hc. split; [now apply balance_spans_chain | now apply cdiv_ge]. Qed.
Print Assumptions C11_spans_consecutive.

Theorem C11_spans_index_once : forall nnz c k, 1 <= c -> 0 <= k < nnz ->
  exists sp, filter (in_span k) (balance_spans nnz (Some c)) = [sp].
Proof. exact spans_index_once. Qed.
Print Assumptions C11_spans_index_once.

(** util.partition(plo, phi, c) (cis-only mode, and the default of parallel.split): the same for [plo, phi) *)
Theorem C11_partition_exact_cover : forall (px : list pixel) plo phi c,
  1 <= c -> 0 <= plo <= phi ->
  concat (map (get_chunk px) (partition plo phi c)) = slice px plo phi.
Proof. exact partition_exact_cover. Qed.
Print Assumptions C11_partition_exact_cover.

Theorem C11_partition_consecutive : forall plo phi c, 1 <= c -> plo <= phi ->
  Chain plo (partition plo phi c) phi.
Proof. exact partition_chain. Qed.
Print Assumptions C11_partition_consecutive.

(** explicitly: every span stays inside [plo, phi] and the last span is clipped to end exactly at phi
    (this is the min(i + step, stop) of util.partition; without it the last span would overrun phi) *)
Theorem C11_partition_clipped : forall plo phi c, 1 <= c -> plo <= phi ->
  Forall (fun s => plo <= fst s /\ fst s <= snd s /\ snd s <= phi) (partition plo phi c) /\
  (partition plo phi c <> [] -> snd (last (partition plo phi c) (0, 0)) = phi).
Proof. exact partition_clipped. Qed.
Print Assumptions C11_partition_clipped.

Theorem C11_partition_index_once : forall plo phi c k, 1 <= c -> plo <= k < phi ->
  exists sp, filter (in_span k) (partition plo phi c) = [sp].
Proof. exact partition_index_once. Qed.
Print Assumptions C11_partition_index_once.

(** the scheduling argument, for ANY commutative monoid (up to an equivalence [eqA]):
    per-chunk results handed back in any order and folded from [init] give init + the sum over all items *)
Theorem C11_reduce_perm_invariant :
  forall (A : Type) (eqA : relation A), Equivalence eqA ->
  forall (op : A -> A -> A), Proper (eqA ==> eqA ==> eqA) op ->
  forall e : A,
  (forall x y z, eqA (op x (op y z)) (op (op x y) z)) ->
  (forall x y, eqA (op x y) (op y x)) ->
  (forall x, eqA (op e x) x) ->
  forall (P : Type) (f : P -> A) (chunks : list (list P)) (rs rs' : list A) (init : A),
    Permutation rs rs' ->
    Forall2 eqA rs' (map (fun c => msum op e (map f c)) chunks) ->
    eqA (fold_left op rs init) (op init (msum op e (map f (concat chunks)))).
Proof. intros A eqA Heq op Hop e Ha Hc Hu. exact (reduce_perm_invariant eqA op e Ha Hc Hu). Qed.
Print Assumptions C11_reduce_perm_invariant.

Theorem C11_reduce_chunking_invariant :
  forall (A : Type) (eqA : relation A), Equivalence eqA ->
  forall (op : A -> A -> A), Proper (eqA ==> eqA ==> eqA) op ->
  forall e : A,
  (forall x y z, eqA (op x (op y z)) (op (op x y) z)) ->
  (forall x y, eqA (op x y) (op y x)) ->
  (forall x, eqA (op e x) x) ->
  forall (P : Type) (f : P -> A) (ch1 ch2 : list (list P)) (rs1 rs2 : list A) (init : A),
    Permutation (concat ch1) (concat ch2) ->
    Permutation rs1 (map (fun c => msum op e (map f c)) ch1) ->
    Permutation rs2 (map (fun c => msum op e (map f c)) ch2) ->
    eqA (fold_left op rs1 init) (fold_left op rs2 init).
Proof. intros A eqA Heq op Hop e Ha Hc Hu. exact (reduce_chunking_invariant eqA op e Ha Hc Hu). Qed.
Print Assumptions C11_reduce_chunking_invariant.

(** the model's split/prepare/pipe/_marginalize/reduce pipeline is such a fold: for every covering span list
    and every completion order the reduced marginal of bin i is the sum of the per-pixel contributions *)
Theorem C11_marg_schedule_invariant : forall n spans fs (px : list pixel) rs i,
  concat (map (get_chunk px) spans) = px ->
  Permutation rs (marg_chunks n spans fs px) ->
  0 <= i < Z.of_nat n ->
  (qnth (reduce_add n rs) i == sumQ (map (pcontrib i fs) px))%Q.
Proof. exact marg_schedule_invariant. Qed.
Print Assumptions C11_marg_schedule_invariant.

Theorem C11_marg_data_only : forall n fs (px : list pixel) c1 c2 rs1 rs2 i,
  1 <= c1 -> 1 <= c2 ->
  Permutation rs1 (marg_chunks n (balance_spans (zlen px) (Some c1)) fs px) ->
  Permutation rs2 (marg_chunks n (balance_spans (zlen px) (Some c2)) fs px) ->
  0 <= i < Z.of_nat n ->
  (qnth (reduce_add n rs1) i == qnth (reduce_add n rs2) i)%Q.
Proof. exact marg_data_only. Qed.
Print Assumptions C11_marg_data_only.

(** "coincides with the documented procedure on the dense matrix": for every chunk size the model's sweep
    marginal of bin i is b_i * sum_j F_ij b_j, F the dense symmetric completion of the filtered
    upper-triangular pixels with each diagonal pixel counted once *)
Theorem C11_sparse_eq_dense : forall n chunk fs (px : list pixel) b i,
  match chunk with Some c => 1 <= c | None => True end ->
  Forall keyfix fs -> upper_b px = true -> inrange_b (Z.of_nat n) px = true ->
  0 <= i < Z.of_nat n ->
  (qnth (margf_gw n (balance_spans (zlen px) chunk) fs px b) i == rowsum (dense (filtered fs px)) n b i)%Q.
Proof. exact margf_gw_is_rowsum. Qed.
Print Assumptions C11_sparse_eq_dense.

(** cis-only mode reads, per chromosome [lo,hi), only the pixel range [bin1_offset lo, bin1_offset hi): for the
    chromosome's own bins this gives the same sums as reading the whole table (pixels sorted by bin1, cis filter on) *)
Theorem C11_cis_range_suffices : forall o chroms (n : nat) lo hi v (px : list pixel) i,
  o_cis o = true -> BlockSep chroms n lo hi -> good_px n px = true -> rows_sorted px ->
  lo <= hi -> lo <= i < hi ->
  (sumQ (map (pcontrib i (base_filters o chroms ++ [f_times v])) (slice px (bin1_offset px lo) (bin1_offset px hi)))
   == sumQ (map (pcontrib i (base_filters o chroms ++ [f_times v])) px))%Q.
Proof. exact cis_range_suffices. Qed.
Print Assumptions C11_cis_range_suffices.

(** no state leaks between chunks: the per-chunk pipeline is a per-pixel map of the chunk *)
Theorem C11_pipeline_local : forall fs (c1 c2 : list pixel),
  pipe fs (init (c1 ++ c2)) = pipe fs (init c1) ++ pipe fs (init c2).
Proof. exact pipeline_local. Qed.
Print Assumptions C11_pipeline_local.

(** non-vacuity *)
Example ex_C11_spans :
  balance_spans 7 (Some 3) = [(0,3); (3,6); (6,9)] /\ balance_spans 6 (Some 3) = [(0,3); (3,6)] /\
  balance_spans 0 (Some 3) = [] /\ balance_spans 2 (Some 5) = [(0,5)] /\
  partition 2 9 3 = [(2,5); (5,8); (8,9)] /\ partition 4 4 3 = [].
Proof. vm_compute. repeat split; reflexivity. Qed.

Example ex_C11_chunked_marginals :
  let px := [(0,0,2); (0,1,3); (1,1,4); (1,2,5)] in
  map Qred (marg_of 3 (balance_spans 4 (Some 3)) [f_zero_diags 1] px) = [3#1; 8#1; 5#1]%Q /\
  map Qred (reduce_add 3 (rev (marg_chunks 3 (balance_spans 4 (Some 1)) [f_zero_diags 1] px))) = [3#1; 8#1; 5#1]%Q.
Proof. vm_compute. split; reflexivity. Qed.

(** tie by translation: util.partition as regenerated from /repo's source on this run (coq/Gen/Translated.v, written by
    tools/py2v.py) is the model's partition; the statements that compute the chunk spans of balance_cooler and of the
    cis-only loop are pinned *)
Theorem C11_source_partition_is_model : forall start stop step,
  Gen.partition start stop step = partition start stop step.
Proof. exact gen_partition. Qed.
Print Assumptions C11_source_partition_is_model.
Theorem C11_source_span_pins : Gen.balance_span_pins = true.
Proof. exact gen_balance_pins. Qed.
Print Assumptions C11_source_span_pins.
