"""C19 — region and URI strings parse to exactly what they denote, or are refused.

Correspondence: cooler.util.parse_region_string / parse_humanized / parse_region /
parse_cooler_uri and the region-string glue of Cooler.extent / bins().fetch /
matrix().fetch against the Gallina model coq/Model/Text.v (a character-level
tokenizer equivalent to the regex alternation, the _expect grammar, exact decimal
scaling, bounds against chromsizes, "::" splitting).

Streams (all deterministic; the seeded part only samples long digit strings):
  alpha    every string of <= n characters over small alphabets after "c:" and as whole strings
           (generated on both sides in itertools.product order; the model side inside coqc)
  numerals every numeral a.fff (a < 30, three fraction digits) x unit, plus shorter fractions x
           every unit spelling the code accepts, through parse_humanized
  product  names x start spellings x end spellings through parse_region_string
  corpus   hand-written spellings incl. the repaired defect D6 ("1.001k"), exotic blanks, Latin-1
  bounds   parse_region against dict / pandas.Series / None chromsizes, string and tuple regions
  uri      every string of <= 6 characters over "a:/." plus f::g / f::/g pairs
  glue     Cooler.extent / bins().fetch / matrix().fetch on one small cooler
  forms    argument forms: region as str / tuple / list / numpy ints / object array with None in either place, wrong arity;
           chromsizes as dict / OrderedDict / Series of int64, int32, uint64, int16, float64, object / None; names that look
           like numbers or units, contain '-' or ':' (tuple only), Latin-1 and non-Latin names; non-str URI arguments
  glue-forms  the same region forms through every caller of parse_region (Cooler.extent / offset / bins / pixels / matrix with
           one and two regions, GenomeSegmentation.fetch, util.bedslice) incl. empty ranges at 0, inside and at the length and
           an open end starting at the length; URI spellings through create_cooler / Cooler / is_cooler / list_coolers

Property oracle (never calls the code under test for the expected value): the value a
well-formed numeral denotes is computed with fractions.Fraction; refusal classes are decided by
predicates over the input text (str.partition / anchored full-match regexes, no tokenizer).
"""
from __future__ import annotations

import itertools
import re
import signal
import time
from fractions import Fraction

import coqio as C

PROP = "C19"
RULE = ("exhaustive: all strings of <=5 chars over '12,.k- x' and <=4 over '1-\\n \\tbKm:' after 'c:', all whole strings of <=5 (quick) / 6 "
        "(thorough) chars over 'c :1-'; all numerals a.fff (a<30) x {k,M,G} (the 90 000 of defect D6) and all a.f, a.ff x every accepted unit "
        "spelling; names x start x end spelling products; exhaustive bounds grids for parse_region; all URI strings of <=6 chars over 'a:/.'; "
        "argument-form grids (region sequence/integer types x chromsizes containers/dtypes x boundary coordinates) through parse_region and all its callers; "
        "non-trivial = the string has a coordinate part / a '::' / a unit or separator (i.e. leaves the default branch); distinct by input text")
TRUSTED = ["Python `re` semantics (ordered alternation, greedy quantifiers, backtracking of \\s* before .+, '.' excluding only \\n, "
           "finditer skipping unmatched positions) are modelled by the hand tokenizer; the exhaustive small-alphabet runs are what tie them",
           "fractions.Fraction(str) and int(str) are modelled on the character class [0-9.] that can reach them"]
ASSUMPTIONS = ["characters are code points < 256 (Latin-1); Python-only Unicode behaviour above that (other blanks, case-insensitive matches such as "
               "U+212A KELVIN SIGN, non-ASCII digits) is outside the model",
               "int() of more than 4300 digits (CPython's int-string limit, a ValueError) is not modelled; digit strings up to 60 digits are exercised"]
RESIDUE = ["regex engine semantics are modelled, not verified (see trusted)",
           "a scaled value that is not an integer (e.g. 1.0001k) is truncated by the code (floor in the model); the property does not speak about it",
           "tokens after the third (e.g. 'chr1:10-20-30', 'chr1:1-2:junk') are ignored by the code and by the model; the property does not list them as refusals"]
ALLOW_AXIOMS = ()

IMPORTS = "From Cooler Require Import Model.Text."
JOBS = 4

UNIT_TABLE = {"K": 10 ** 3, "KB": 10 ** 3, "M": 10 ** 6, "MB": 10 ** 6, "G": 10 ** 9, "GB": 10 ** 9}


# ------------------------------------------------------------------ helpers
class _Timeout(Exception):
    pass


def _alarm(signum, frame):
    raise _Timeout()


def guarded(f, *a, limit=20):
    """run f(*a) -> ('ok', value) | (exception class name,) | ('timeout',)"""
    old = signal.signal(signal.SIGALRM, _alarm)
    signal.alarm(limit)
    try:
        return ("ok", f(*a))
    except _Timeout:
        return ("timeout",)
    except RecursionError:
        return ("RecursionError",)
    except Exception as e:  # noqa: BLE001 - the class name is the observable
        return (type(e).__name__,)
    finally:
        signal.alarm(0)
        signal.signal(signal.SIGALRM, old)


def fast(f, s):
    """same as guarded without the per-call alarm (bulk loops are wrapped as a whole)"""
    try:
        return ("ok", f(s))
    except _Timeout:
        raise
    except Exception as e:  # noqa: BLE001
        return (type(e).__name__,)


_SAFE = re.compile(r"^[A-Za-z0-9 :,.\-_/*+=<>()\[\]]*$")


def lit(s: str) -> str:
    """Gallina term of type str (list ascii) for a Python str of code points < 256"""
    if _SAFE.match(s):
        return f'(lit "{s}"%string)'
    assert all(ord(ch) < 256 for ch in s), s
    return "(of_codes " + C.zl([ord(ch) for ch in s]) + ")"


def strl(xs) -> str:
    return C.lst([lit(x) for x in xs])


def dec_str(codes) -> str:
    return "".join(chr(c) for c in codes)


def is_int(x):
    return isinstance(x, int) and not isinstance(x, bool)


def opt_int(x):
    """model option Z -> python"""
    return None if x is None else x[1]


def m_region(v):
    """decoded model value of out_region"""
    if v is None:
        return ("ValueError",)
    codes, a, b = v[1]
    return ("ok", (dec_str(codes), opt_int(a), opt_int(b)))


def m_coords(v):
    if v is None:
        return ("ValueError",)
    a, b = v[1]
    return ("ok", (opt_int(a), opt_int(b)))


def m_triple(v):
    if v is None:
        return ("ValueError",)
    codes, a, b = v[1]
    return ("ok", (dec_str(codes), a, b))


def m_optz(v):
    return ("ValueError",) if v is None else ("ok", v[1])


def m_uri(v):
    if v is None:
        return ("ValueError",)
    f, g = v[1]
    if isinstance(f, str):           # out_uri_s: Coq string literals
        return ("ok", (f, g))
    return ("ok", (dec_str(f), dec_str(g)))


def norm_region(r):
    """implementation result -> comparable; non-int coordinates stay visible as repr"""
    if r[0] != "ok":
        return r
    v = r[1]
    if not (isinstance(v, tuple) and len(v) == 3):
        return ("ok", repr(v))
    c, a, b = v
    ok = isinstance(c, str) and (a is None or is_int(a)) and (b is None or is_int(b))
    return ("ok", (c, a, b)) if ok else ("ok", repr(v))


def norm_int(r):
    if r[0] != "ok":
        return r
    return r if is_int(r[1]) else ("ok", repr(r[1]))


def coords_of(r):
    return r if r[0] != "ok" or isinstance(r[1], str) else ("ok", (r[1][1], r[1][2]))


def jsonable(r):
    if isinstance(r, tuple):
        return [jsonable(x) for x in r]
    return r


# ------------------------------------------------------------------ property oracle
_NUM_OK = re.compile(r"(?:[0-9]{1,3}(?:,[0-9]{3})+|[0-9]+)(\.[0-9]+)?([A-Za-z]*)")


def denote(t: str):
    """what a single coordinate token denotes: int | 'refuse' | None (the property has no opinion)"""
    m = _NUM_OK.fullmatch(t)
    if m is None:
        return None
    frac, unit = m.group(1), m.group(2)
    body = t[: len(t) - len(unit)].replace(",", "")
    if unit == "":
        return int(body) if frac is None else None
    mult = UNIT_TABLE.get(unit.upper())
    if mult is None:
        return "refuse"                        # unknown unit
    val = Fraction(body) * mult
    return int(val) if val.denominator == 1 else None


def expected_region(s: str):
    """independent reading of the property for parse_region_string:
    ('ok', (name, start, end)) | ('refuse', why) | None (no opinion)"""
    name, sep, rest = s.partition(":")
    if name.strip() == "":
        return ("refuse", "empty name")
    if sep == "":
        return ("ok", (name.strip(), None, None))
    if ":" in rest:
        rest = rest.partition(":")[0]
        tail_junk = True
    else:
        tail_junk = False
    if "-" not in rest:
        return ("refuse", "missing hyphen")
    a, _, b = rest.partition("-")
    a_s = a.strip()
    if a_s == "":
        return ("refuse", "leading hyphen / negative start")
    if not (a_s[0].isascii() and (a_s[0].isdigit() or a_s[0] == ",")):
        return ("refuse", "non-numeric start")
    A = denote(a_s)
    if A == "refuse":
        return ("refuse", "unknown unit in start")
    if A is None:
        return None
    if b == "":
        return None if tail_junk else ("ok", (name.strip(), A, None))
    b_s = b.strip()
    if b_s == "":
        return None
    if not (b_s[0].isascii() and (b_s[0].isdigit() or b_s[0] == ",")):
        return ("refuse", "non-numeric or negative end")
    B = denote(b_s)
    if B == "refuse":
        return ("refuse", "unknown unit in end")
    if B is None:
        return None
    if B < A:
        return ("refuse", "reversed")
    return None if tail_junk else ("ok", (name.strip(), A, B))


def oracle_region(s, got):
    """True when the implementation result satisfies the property on input s"""
    exp = expected_region(s)
    if got[0] == "ok":
        v = got[1]
        if isinstance(v, str):
            return False
        c, a, b = v
        # whatever is accepted must be a non-empty colon-free stripped name and ordered non-negative coordinates
        if c == "" or ":" in c or c != c.strip():
            return False
        if (a is not None and a < 0) or (a is not None and b is not None and b < a) or (a is None and b is not None):
            return False
    if exp is None:
        return True
    if exp[0] == "refuse":
        return got == ("ValueError",)
    return got == exp


def expected_humanized(t):
    """numeral with optional unit -> ('ok', n) | ('refuse',) | None"""
    d = denote(t)
    if d is None:
        return None
    return ("refuse",) if d == "refuse" else ("ok", d)


def oracle_humanized(t, got):
    exp = expected_humanized(t)
    if got[0] == "ok" and (isinstance(got[1], str) or got[1] < 0):
        return False
    if exp is None:
        return True
    if exp[0] == "refuse":
        return got == ("ValueError",)
    return got == exp


def expected_parse_region(s, cs):
    """cs: dict or None"""
    e = expected_region(s)
    if e is None:
        return None
    if e[0] == "refuse":
        return e
    name, a, b = e[1]
    if cs is None:
        if b is None:
            return ("refuse", "open end without chromsizes")
        return ("ok", (name, 0 if a is None else a, b))
    if name not in cs:
        return ("refuse", "unknown name")
    L = cs[name]
    a = 0 if a is None else a
    b = L if b is None else b
    if not (0 <= a <= b <= L):
        return ("refuse", "out of bounds")
    return ("ok", (name, a, b))


def oracle_parse_region(s, cs, got):
    exp = expected_parse_region(s, cs)
    if got[0] == "ok":
        v = got[1]
        if isinstance(v, str):
            return False
        c, a, b = v
        if not (0 <= a <= b):
            return False
        if cs is not None and (c not in cs or b > cs[c]):
            return False
    if exp is None:
        return True
    if exp[0] == "refuse":
        return got == ("ValueError",)
    return got == exp


def expected_uri(s):
    n = s.count("::")                    # non-overlapping, left to right
    if n == 0:
        return ("ok", (s, "/"))
    if n >= 2:
        return ("ValueError",)
    f, _, g = s.partition("::")
    return ("ok", (f, g if g[:1] == "/" else "/" + g))


# ------------------------------------------------------------------ evaluation helpers
def chunks(xs, n):
    xs = list(xs)
    for i in range(0, len(xs), n):
        yield xs[i:i + n]


def eval_map(ctx, fn_term, strings, tag, per=400):
    """model: map (fun s => fn_term s) over explicit string literals; returns flat list"""
    exprs = [f"map (fun s => {fn_term}) {strl(ch)}" for ch in chunks(strings, per)]
    res = C.coq_eval(IMPORTS, exprs, shard=max(1, -(-len(exprs) // JOBS)), jobs=JOBS, tmpdir=ctx.tmp / tag)
    out = []
    for r in res:
        out.extend(r)
    if len(out) != len(strings):
        raise C.ModelEvalError(f"{tag}: {len(out)} results for {len(strings)} strings")
    return out


def eval_exprs(ctx, exprs, tag):
    exprs = list(exprs)
    return C.coq_eval(IMPORTS, exprs, shard=max(1, -(-len(exprs) // JOBS)), jobs=JOBS, tmpdir=ctx.tmp / tag)


class Tally:
    """per-stream accounting + first few problems through ctx"""

    def __init__(self, ctx, kind):
        self.ctx, self.kind = ctx, kind
        self.n = 0
        self.keys = []

    def add(self, key, nontrivial):
        self.n += 1
        if nontrivial:
            self.keys.append(self.kind + "|" + key)

    def flush(self):
        self.ctx.count(self.n, self.keys, kind=self.kind)
        if self.keys and len(self.ctx.samples) < 8:      # one concrete input per stream in the evidence
            self.ctx.samples.append({"stream": self.kind, "input": self.keys[len(self.keys) // 2].split("|", 1)[1]})


def check_region_string(ctx, tally, s, impl, model, fn="parse_region_string"):
    case = {"fn": fn, "s": s}
    tally.add(s, ":" in s)
    ctx.compare(fn, case, jsonable(impl), jsonable(model))
    if not oracle_region(s, impl):
        ctx.fail(case, {"got": jsonable(impl), "expected": jsonable(expected_region(s))}, None)


# ------------------------------------------------------------------ streams
def stream_alpha(ctx, thorough):
    """exhaustive strings over small alphabets"""
    from cooler.util import parse_region_string
    specs = [("c:", "12,.k- x", 5), ("c:", "1-\n \tbKm:", 4), ("", "c :1-", 6 if thorough else 5)]
    if thorough:
        specs.append(("c:", "12,.k- x", 6))
        specs.append(("c:1", "0-,.Mbg 2", 5))
    exprs, groups = [], []
    for prefix, alpha, nmax in specs:
        for n in range(0, nmax + 1):
            if n == 0:
                exprs.append(f"map (fun t => out_region (parse_region_string ({lit(prefix)} ++ t))) (strings_of_len {lit(alpha)} 0%nat)")
                groups.append([prefix])
                continue
            for ch in alpha:   # one expression per first character: parallel shards of similar size
                exprs.append(f"map (fun t => out_region (parse_region_string ({lit(prefix)} ++ {lit(ch)} ++ t))) "
                             f"(strings_of_len {lit(alpha)} {n - 1}%nat)")
                groups.append([prefix + ch + "".join(t) for t in itertools.product(alpha, repeat=n - 1)])
    model = eval_exprs(ctx, exprs, "alpha")
    tally = Tally(ctx, "alpha")
    seen = set()
    for strings, mres in zip(groups, model):
        if len(mres) != len(strings):
            raise C.ModelEvalError("alpha stream: length mismatch between generators")
        for s, mv in zip(strings, mres):
            if s in seen:
                continue
            seen.add(s)
            impl = norm_region(fast(parse_region_string, s))
            check_region_string(ctx, tally, s, impl, m_region(mv))
    tally.flush()
    return len(seen)


UNITS_ALL = ["k", "K", "kb", "Kb", "kB", "KB", "m", "M", "mb", "Mb", "mB", "MB", "g", "G", "gb", "Gb", "gB", "GB"]
UNITS_BAD = ["b", "B", "kk", "kbp", "bp", "t", "T", "e", "E", "kbb", "x", "Mk"]


def stream_numerals(ctx, thorough):
    """all numerals a.fff x unit through parse_humanized; Fraction oracle"""
    from cooler.util import parse_humanized
    jobs = []   # (na, k, unit)
    for u in ["k", "M", "G"]:
        jobs.append((30, 3, u))
    for u in UNITS_ALL + UNITS_BAD + [""]:
        for k in (0, 1, 2):
            jobs.append((30, k, u))
    if thorough:
        for u in ["kb", "Mb", "GB", "K", "m", "g"]:
            jobs.append((30, 3, u))
        for u in ["k", "M", "G"]:
            jobs.append((30, 4, u))
    # long streams are cut into pieces of <= 30 000 numerals (a deep non-tail-recursive map overflows coqc's stack)
    pieces = []   # (a0, na, k, unit)
    for na, k, u in jobs:
        step = max(1, 30000 // 10 ** k)
        for a0 in range(0, na, step):
            pieces.append((a0, min(step, na - a0), k, u))
    exprs = [f"rle_deltas (map (fun n => parse_humanized (n ++ {lit(u)})) (numerals_range {C.z(a0)} {C.z(na)} {k}%nat))" for a0, na, k, u in pieces]
    model = eval_exprs(ctx, exprs, "numerals")
    tally = Tally(ctx, "numerals")
    n_integral = 0
    for (a0, na, k, u), rle in zip(pieces, model):
        strings = [f"{a}.{f:0{k}d}{u}" if k else f"{a}.{u}" for a in range(a0, a0 + na) for f in range(10 ** k)]
        mres, prev = [], 0           # decode the lossless run-length encoding of successive differences (-1 = None)
        for d, cnt in rle:
            for _ in range(cnt):
                prev += d
                mres.append(None if prev == -1 else ("Some", prev))
        if len(mres) != len(strings):
            raise C.ModelEvalError("numerals stream: length mismatch between generators")
        for t, mv in zip(strings, mres):
            impl = norm_int(fast(parse_humanized, t))
            case = {"fn": "parse_humanized", "s": t}
            tally.add(t, True)
            ctx.compare("parse_humanized", case, jsonable(impl), jsonable(m_optz(mv)))
            if not oracle_humanized(t, impl):
                ctx.fail(case, {"got": jsonable(impl), "expected": jsonable(expected_humanized(t))}, None)
            if expected_humanized(t) not in (None, ("refuse",)):
                n_integral += 1
    tally.flush()
    ctx.extra["numerals_with_integral_value"] = n_integral
    return tally.n


NAMES = ["chr1", "1", "chr-1", "chr.1", "a b", "chrUn_gl000220", "-", "2L.x-y 3", "HLA*01", "X"]


def spellings(thorough):
    """coordinate spellings: plain, thousands separators, odd commas, decimals with units, malformed"""
    starts = ["0", "5", "10", "1,000", "1000", "001", "1k", "1.5k", "1.001k", "0.5M", "1,0", ",5", "1.", "1.5", "-1", "", "x", "1 0",
              " 7", "7 ", "1e3", "1kk", "2.5Kb", "1,000,000", "0.000001G", "12,345.678k", ".5k", ",.5k", "1.0", "1.0001k"]
    ends = ["", "0", "5", "9", "10", "11", "999", "1000", "1,000", "1001", "1,001", "1k", "1K", "1kb", "1.001k", "1.0015k", "1.5k", "1,5",
            "2.5Kb", "1M", "0.5M", "500000", "500,000", "1G", "1,000,000", "1000000", "12,345,678", "12345.678k", "12.345678M",
            "-5", "--5", "x", "5x", "k", "1kk", "1 k", " 20", "20 ", " ", "1.", "1.k", "1..5", "1.5", "5 6", "5-6", "5,", ",", ".",
            "1e3", "2bp", "3Mk", "007", "0,0", "1.2.3k", "\t9", "9\n", "\n", "1\n2"]
    if thorough:
        starts += ["3g", "2.000000001G", "4,5,6", "0k", "0.0k", "00.5kB", "9" * 25, "1" + "0" * 30]
        ends += ["3g", "2.000000001G", "4,5,6", "0k", "0.0k", "00.5kB", "9" * 25, "1" + "0" * 30 + "k", "0.1k", "0.01k", "0.001k", "0.0001k"]
    return starts, ends


def stream_product(ctx, thorough):
    from cooler.util import parse_region_string
    starts, ends = spellings(thorough)
    names = NAMES if thorough else NAMES[:6]
    # the model builds the product itself from the three component lists
    exprs, groups = [], []
    for nm in names:
        for stch in chunks(starts, 8):
            exprs.append(f"map (fun s => out_region (parse_region_string s)) (region_product {strl([nm])} {strl(stch)} {strl(ends)})")
            groups.append([f"{nm}:{a}-{b}" for a in stch for b in ends])
    model = eval_exprs(ctx, exprs, "product")
    tally = Tally(ctx, "product")
    n_ok = 0
    for strings, mres in zip(groups, model):
        if len(mres) != len(strings):
            raise C.ModelEvalError("product stream: length mismatch between generators")
        for s, mv in zip(strings, mres):
            impl = norm_region(fast(parse_region_string, s))
            check_region_string(ctx, tally, s, impl, m_region(mv))
            e = expected_region(s)
            if e is not None and e[0] == "ok":
                n_ok += 1
    tally.flush()
    ctx.extra["product_strings_expected_wellformed"] = n_ok
    return tally.n


def corpus_strings(ctx, thorough):
    rng = ctx.rng
    S = [
        # regression: defect D6 (repaired by 9fcca11)
        "chr1:1.001k-", "chr1:0-1.001k", "chr1:1.001k-1.002k", "chrX:0.007M-0.015M", "c:4.35k-8.7k", "c:1.1k-2.2k", "c:0.0035M-1G",
        # documented spellings
        "chr5:10,100,000-30,000,000", "chr5", "chr5:", "chr5:10,100,000-", "chr5:-30,000,000", "chr5:10,100,000", "chr5:10kb-20MB",
        "2:1-2", "chr1:10-20", "chr1:10-10", "chr1:11-10", "chr1:0-0", " chr1 :10-20", "chr1 : 10 - 20 ", "chr1:10-20:30-40", "chr1::10-20",
        ":10-20", "  :10-20", "", " ", ":", "::", "chr1:10-20-30", "chr1:10-20 30", "chr1:10-20x", "chr1:10 20", "chr1:10--20", "chr1:+10-20",
        "chr1:10-+20", "chr1:1e3-2e3", "chr1:0x10-0x20", "chr1:١-٢", "chr1:10_000-20_000", "chr1:10\u201320",
        "chr1:10-\n", "chr1:10-\n\n", "chr1:10- ", "chr1:10-\t", "chr1:10-\n ", "chr1:\n10\n-\n20\n", "chr1:\n", "chr1: ", "chr1: \n", "chr1:\n \n",
        "chr1:10\x1c-\x1d20\x1e", "chr1:10\x85-\xa020", "\x85chr1\xa0:1-2", "\x1cchr1\x1f:1-2", "chr1\t:1-2", "\nchr1\r:1-2", "ch r1:1-2",
        "chr1:1K-1k", "chr1:1Kb-1kB", "chr1:1m-1M", "chr1:1g-1G", "chr1:1GB-2gb", "chr1:1.5-2", "chr1:1.-2", "chr1:1.k-2k", "chr1:.5k-2k",
        "chr1:,.5k-2k", "chr1:,-2", "chr1:,,5-,6,", "chr1:1,2.5k-3k", "chr1:1.5,0k-3k", "chr1:1k2-3k", "chr1:1-2k3", "chr1:1kb p-2",
        "chr1:1\xb5-2", "chr1:1\xe9-2", "chr\xe9:1-2", "chr1:1\xdf-2", "chr1:1-2\xff", "chr1:\xb2-3",
        "chr1:1.0000000000000000000001k-2k", "chr1:0.9999999999999999999999k-1k", "chr1:123456789012345678901234567890-123456789012345678901234567891",
        "chr1:0.000000001G-1", "chr1:0.0000000001G-1", "chr1:2.675k-2.685k", "chr1:8.7k-8.8k", "chr1:1.15M-1.16M", "chr1:4.35M-", "chr1:16.001k-17.001k",
        "chr1:1.-", "chr1:1.5k.-", "chr1:1.5.k-", "chr1:1k.-", "chr1:1-2.", "chr1:1-2..", "chr1:a-b", "chr1:k-M", "chr1:1-k", "chr1:.-.", "chr1:.5-1",
        "-:1-2", "-", "a-b:1-2", "a-b", "1-2", "1-2:1-2", "chr1:1-2:", "chr1:1-:2", "chr1:1:-2", "a:b:c", "a: :1-2",
    ]
    S = [s for s in S if all(ord(ch) < 256 for ch in s)] + []
    # seeded: long digit strings with legal thousands separators and random units
    for _ in range(400 if thorough else 80):
        a = rng.randrange(0, 10 ** rng.randint(1, 40))
        b = a + rng.randrange(0, 10 ** rng.randint(1, 40))
        fa = f"{a:,}" if rng.random() < 0.5 else str(a)
        fb = f"{b:,}" if rng.random() < 0.5 else str(b)
        S.append(f"{rng.choice(NAMES)}:{fa}-{fb}")
        # decimal multiples that denote integers: value = n, written as n / 10^k with unit
        n = rng.randrange(0, 10 ** 12)
        u, mult = rng.choice([("k", 3), ("Kb", 3), ("M", 6), ("mb", 6), ("G", 9), ("gB", 9)])
        digits = str(n).rjust(mult + 1, "0")
        ip, fp = digits[:-mult], digits[-mult:].rstrip("0")
        num = ip + ("." + fp if fp else "")
        S.append(f"{rng.choice(NAMES)}:{num}{u}-")
        S.append(f"{rng.choice(NAMES)}:0-{num}{u}")
    return S


NON_LATIN = ["chr1:١-٢", "chr1:10\u201320", "chr1:1\u212a-2\u212a", "chr1:10\u2003-20", "\u3000chr1:1-2"]


def stream_corpus(ctx, thorough):
    from cooler.util import parse_humanized, parse_region_string
    S = corpus_strings(ctx, thorough)
    model = eval_map(ctx, "out_region (parse_region_string s)", S, "corpus", per=60)
    tally = Tally(ctx, "corpus")
    for s, mv in zip(S, model):
        impl = norm_region(guarded(parse_region_string, s))
        check_region_string(ctx, tally, s, impl, m_region(mv))
    tally.flush()
    # strings outside the model's alphabet: oracle only
    t2 = Tally(ctx, "corpus-unicode(oracle only)")
    for s in NON_LATIN:
        impl = norm_region(guarded(parse_region_string, s))
        t2.add(s, True)
        if not oracle_region(s, impl):
            ctx.fail({"fn": "parse_region_string", "s": s}, {"got": jsonable(impl), "expected": jsonable(expected_region(s))}, None)
    t2.flush()
    # parse_humanized as a public function on free text (prefix before the numeral is ignored by the code)
    H = ["1.001k", "1,000", "1,000.5k", "5", "-5", "abc5", "abc5k", "5 k", "5 kb ", "5\tM\n", "5k ", " 5k", "k", "", ",", ".", "..", "1.2.3", "1.2.3k",
         "1k2", "1 2", "1.k", ".1k", ".k", "1.", "0", "00", "007k", "1,2,3", ",1,", "1,.5k", "1.,5k", "5e3", "5E3k", "5kB", "5bk", "5Kb", "5 K B", "5\xa0k",
         "5\x85kb\x1c", "12345678901234567890.123456789G", "0.0005k", "0.001k", "9.999k", "9.9999k", "2.5g", "1,5.5,5k"]
    modelh = eval_map(ctx, "parse_humanized s", H, "humanized", per=60)
    t3 = Tally(ctx, "humanized-free-text")
    for t, mv in zip(H, modelh):
        impl = norm_int(guarded(parse_humanized, t))
        case = {"fn": "parse_humanized", "s": t}
        t3.add(t, True)
        ctx.compare("parse_humanized", case, jsonable(impl), jsonable(m_optz(mv)))
        if not oracle_humanized(t, impl):
            ctx.fail(case, {"got": jsonable(impl), "expected": jsonable(expected_humanized(t))}, None)
    t3.flush()
    return tally.n + t2.n + t3.n


def cs_term(cs):
    if cs is None:
        return "None"
    return "(Some " + C.lst([C.tup(lit(k), C.z(v)) for k, v in cs.items()]) + ")"


def stream_bounds(ctx, thorough):
    """parse_region: defaults and bounds against chromsizes (dict, Series, None), string and tuple regions"""
    import pandas as pd
    from cooler.util import parse_region
    tally = Tally(ctx, "bounds")
    # exhaustive grid: one chromosome "a" of length L plus "b b" of length 3; all s,e in 0..L+2, open end, bare name, unknown name
    cases = []   # (s, cs)
    Ls = range(0, 5 if thorough else 4)
    for L in Ls:
        cs = {"a": L, "b b": 3}
        regs = ["a", "b b", "c", "a:", "a:0-", f"a:{L}-", f"a:{L + 1}-", "b b:1-", "c:0-1", " a :0-0", "A", "a:0-1:9"]
        for s in range(0, L + 3):
            for e in range(0, L + 3):
                regs.append(f"a:{s}-{e}")
        for r in regs:
            cases.append((r, cs))
            if L == 2:
                cases.append((r, None))
    big = {"chr1": 248956422, "chr-2.x": 2 ** 31 - 1, "10": 10 ** 12}
    for r in ["chr1:248,956,421-248,956,422", "chr1:248,956,422-248,956,422", "chr1:248,956,422-248,956,423", "chr1:248.956422M-", "chr1:0-248.956422M",
              "chr1:0-248.956423M", "chr1:0-0.248956422G", "chr1:0-0.248956423G", "chr-2.x:2147483646-2147483647", "chr-2.x:0-2147483648",
              "chr-2.x:2.147483647G-", "10:1,000G-", "10:0-1,000G", "10:0-1000.000000001G", "10", "10:", "chr1", "chr2", "chr1 ", "chr1:5-", "chr1:249M-"]:
        cases.append((r, big))
        cases.append((r, None))
    exprs = [f"out_triple (parse_region {lit(r)} {cs_term(cs)})" for r, cs in cases]
    # tuple regions (the non-string entry of parse_region)
    tcases = []
    cs = {"a": 3}
    for nm in ["a", "z"]:
        for s in [None, -1, 0, 2, 3, 4]:
            for e in [None, -1, 0, 2, 3, 4]:
                tcases.append(((nm, s, e), cs))
                if nm == "a":
                    tcases.append(((nm, s, e), None))
    texprs = [f"out_triple (parse_region_tuple ({lit(t[0])}, {C.opt(t[1], C.z)}, {C.opt(t[2], C.z)}) {cs_term(c)})" for t, c in tcases]
    model = eval_exprs(ctx, exprs + texprs, "bounds")
    for k, ((r, cs), mv) in enumerate(zip(cases, model[:len(cases)])):
        variants = [("dict", cs)]
        if cs is not None:
            variants.append(("series", pd.Series(cs, dtype="int64")))
        for how, arg in variants:
            impl = guarded(parse_region, r, arg)
            impl = ("ok", (impl[1][0], int(impl[1][1]), int(impl[1][2]))) if impl[0] == "ok" and len(impl[1]) == 3 and all(
                hasattr(x, "__index__") and not isinstance(x, bool) for x in impl[1][1:]) else (impl if impl[0] != "ok" else ("ok", repr(impl[1])))
            case = {"fn": "parse_region", "s": r, "chromsizes": cs, "container": how}
            tally.add(f"{r}|{cs}|{how}", True)
            ctx.compare("parse_region", case, jsonable(impl), jsonable(m_triple(mv)))
            if not oracle_parse_region(r, cs, impl):
                ctx.fail(case, {"got": jsonable(impl), "expected": jsonable(expected_parse_region(r, cs))}, None)
    for (t, cs), mv in zip(tcases, model[len(cases):]):
        impl = guarded(parse_region, t, cs)
        impl = ("ok", (impl[1][0], int(impl[1][1]), int(impl[1][2]))) if impl[0] == "ok" else impl
        case = {"fn": "parse_region(tuple)", "region": list(t), "chromsizes": cs}
        tally.add(f"{t}|{cs}", True)
        ctx.compare("parse_region(tuple)", case, jsonable(impl), jsonable(m_triple(mv)))
        nm, s, e = t
        s2 = 0 if s is None else s
        if cs is None:
            good = e is not None and 0 <= s2 <= e
            exp = ("ok", (nm, s2, e)) if good else ("ValueError",)
        else:
            e2 = cs.get(nm) if e is None else e
            good = nm in cs and 0 <= s2 <= e2 <= cs[nm]
            exp = ("ok", (nm, s2, e2)) if good else ("ValueError",)
        if impl != exp:
            ctx.fail(case, {"got": jsonable(impl), "expected": jsonable(exp)}, None)
    tally.flush()
    return tally.n


def stream_uri(ctx, thorough):
    from cooler.util import parse_cooler_uri
    alpha = "a:/."
    nmax = 7 if thorough else 6
    exprs, groups = [], []
    for n in range(0, nmax + 1):
        exprs.append(f"map (fun s => out_uri_s (parse_cooler_uri s)) (strings_of_len {lit(alpha)} {n}%nat)")
        groups.append(["".join(t) for t in itertools.product(alpha, repeat=n)])
    extra = ["/path/to/my.mcool::/resolutions/1000", "/path/to/my.mcool::resolutions/1000", "my.cool", "my.cool::", "my.cool::/", "::/", "::", ":::",
             "::::", ":::::", "a:::b", "a::::b", "a::b::c", "a::b::", "::a::", "f.cool::a::b::c", "C:\\data\\x.cool::/g", "x.cool:://g", "x.cool::g/", "x.cool:: /g",
             "x.cool::\n", "s3://bucket/x.cool::/g", "s3://bucket/x.cool", "a:b", "a:b::c:d", "\xe9.cool::\xe9"]
    exprs.append(f"map (fun s => out_uri (parse_cooler_uri s)) {strl(extra)}")
    groups.append(extra)
    model = eval_exprs(ctx, exprs, "uri")
    tally = Tally(ctx, "uri")
    for strings, mres in zip(groups, model):
        if len(mres) != len(strings):
            raise C.ModelEvalError("uri stream: length mismatch between generators")
        for s, mv in zip(strings, mres):
            impl = fast(parse_cooler_uri, s)
            if impl[0] == "ok" and not (isinstance(impl[1], tuple) and len(impl[1]) == 2 and all(isinstance(x, str) for x in impl[1])):
                impl = ("ok", repr(impl[1]))
            case = {"fn": "parse_cooler_uri", "s": s}
            tally.add(s, "::" in s)
            ctx.compare("parse_cooler_uri", case, jsonable(impl), jsonable(m_uri(mv)))
            if impl != expected_uri(s):
                ctx.fail(case, {"got": jsonable(impl), "expected": jsonable(expected_uri(s))}, None)
    # the leading slash may be written or not: f::g and f::/g give the same pair
    t2 = Tally(ctx, "uri-slash-pairs")
    parts = ["", "a", "x.cool", "/p/q.mcool", "a:b", "."]
    groups_ = ["", "g", "resolutions/10", "a/b/", ".", "g:h"]
    for f in parts:
        for g in groups_:
            u1, u2 = f + "::" + g, f + "::/" + g
            r1, r2 = fast(parse_cooler_uri, u1), fast(parse_cooler_uri, u2)
            case = {"fn": "parse_cooler_uri(pair)", "s": u1, "s2": u2}
            t2.add(u1, True)
            if r1 != r2 or r1 != ("ok", (f, "/" + g)):
                ctx.fail(case, {"got": [jsonable(r1), jsonable(r2)], "expected": [f, "/" + g]}, None)
    t2.flush()
    tally.flush()
    return tally.n + t2.n


GLUE_CS = [("chr1", 50), ("chr-2.x", 33), ("a b", 20), ("7", 10)]
GLUE_BIN = 10


def make_cooler(ctx, fname="glue.cool"):
    import cooler
    import numpy as np
    import pandas as pd
    cs = pd.Series(dict(GLUE_CS), dtype="int64")
    bins = cooler.util.binnify(cs, GLUE_BIN)
    n = len(bins)
    rows, cols = np.triu_indices(n)
    pix = pd.DataFrame({"bin1_id": rows, "bin2_id": cols, "count": (rows * 31 + cols * 7) % 11 + 1})
    path = str(ctx.tmp / fname)
    cooler.create_cooler(path, bins, pix)
    return path, bins


def glue_observe(clr, region):
    """what the public selectors report for a region string (all must agree on refusal)"""
    ext = guarded(clr.extent, region)
    bf = guarded(lambda r: clr.bins().fetch(r), region)
    mf = guarded(lambda r: clr.matrix(balance=False).fetch(r), region)
    pf = guarded(lambda r: clr.pixels().fetch(r), region)
    status = sorted({x[0] for x in (ext, bf, mf, pf)})
    if status != ["ok"]:
        return ("refused" if status == ["ValueError"] else "mixed:" + ",".join(status),)
    df = bf[1]
    rows = [(str(c), int(s), int(e)) for c, s, e in zip(df["chrom"].astype(str), df["start"], df["end"])]
    return ("ok", (tuple(int(x) for x in ext[1]), rows, tuple(int(x) for x in mf[1].shape)))


def glue_expected(triple):
    """bins of the table overlapped by [s, e) of chromosome c, from the chromsizes alone"""
    c, s, e = triple
    off = 0
    for nm, L in GLUE_CS:
        nb = -(-L // GLUE_BIN)
        if nm == c:
            rows = [(nm, k * GLUE_BIN, min((k + 1) * GLUE_BIN, L)) for k in range(nb) if k * GLUE_BIN < e and min((k + 1) * GLUE_BIN, L) > s]
            lo = off + s // GLUE_BIN
            return ((lo, lo + len(rows)), rows, (len(rows), len(rows)))
        off += nb
    return None


def stream_glue(ctx, thorough):
    import cooler
    setup = guarded(lambda: cooler.Cooler(make_cooler(ctx)[0]), limit=60)
    if setup[0] != "ok":
        # not a verdict about region strings by itself: the obligation "glue observed" is broken
        ctx.broke(f"glue stream: creating/opening the scratch cooler failed with {setup[0]} (create_cooler/Cooler use parse_cooler_uri)")
        return 0
    clr = setup[1]
    cs = dict(GLUE_CS)
    regs = ["chr1", "chr1:0-50", "chr1:0-51", "chr1:10-20", "chr1:1-49", "chr1:0.01k-0.02k", "chr1:0.011k-0.029k", "chr1:0.0101k-0.02k", "chr1:10-",
            "chr1:49-", "chr1:51-", "chr1:-20", "chr1:20-10", "chr1:0,0,1,0-0,0,2,0", "chr1:0.00001M-0.00005M", "chr1:0.00001M-0.00006M",
            "chr-2.x", "chr-2.x:0-33", "chr-2.x:3-33", "chr-2.x:0-34", "chr-2.x:30-", "chr-2.x:0.03k-", "chr-2.x:0.033k-0.033k",
            "a b", "a b:5-15", " a b :5-15", "a b:0-20", "a b:0-21", "a  b:0-20", "ab:0-20", "7", "7:0-10", "7:1-9", "7:0-11", "07:0-10",
            "chr2", "", ":1-2", "chr1:", "chr1:x-y", "chr1:1kk-2", "chr1:1-2-3", "chr1:5-25:junk", "CHR1:0-10", "chr1:10-20 ", "chr1: 10 - 20"]
    for s in (0, 5, 10, 15, 20, 21):          # small grid on the chromosome whose name has an inner blank
        for e in (0, 5, 10, 15, 20, 21):
            regs.append(f"a b:{s}-{e}")
    if thorough:
        for nm, L in GLUE_CS:
            for s in range(0, L + 2, 3):
                for e in range(s, L + 3, 4):
                    regs.append(f"{nm}:{s}-{e}")
    model = eval_map(ctx, f"out_triple (parse_region s {cs_term(cs)})", regs, "glue", per=100)
    tally = Tally(ctx, "glue")
    for r, mv in zip(regs, model):
        mt = m_triple(mv)
        got = glue_observe(clr, r)
        case = {"fn": "Cooler.fetch", "s": r}
        tally.add(r, True)
        exp_parse = expected_parse_region(r, cs)
        if mt[0] != "ok":
            ctx.compare("Cooler.extent/bins.fetch/matrix.fetch refusal", case, jsonable(got), ["refused"])
        elif mt[1][1] < mt[1][2]:
            ctx.compare("Cooler.extent/bins.fetch/matrix.fetch", case, jsonable(got), jsonable(("ok", glue_expected(mt[1]))))
        else:
            ctx.compare("Cooler.extent/bins.fetch/matrix.fetch acceptance", case, got[0], "ok")
        # oracle from the property text alone
        if exp_parse is not None:
            if exp_parse[0] == "refuse":
                if got != ("refused",):
                    ctx.fail(case, {"got": jsonable(got), "expected": "refused: " + exp_parse[1]}, None)
            elif exp_parse[1][1] < exp_parse[1][2]:
                if got != ("ok", glue_expected(exp_parse[1])):
                    ctx.fail(case, {"got": jsonable(got), "expected": jsonable(glue_expected(exp_parse[1]))}, None)
            elif got[0] != "ok":
                ctx.fail(case, {"got": jsonable(got), "expected": "accepted (empty range)"}, None)
    tally.flush()
    # command line: `cooler dump --join -r REGION` goes through the same parser; every bin of the scratch cooler has
    # a diagonal pixel, so the distinct (chrom1, start1, end1) of the dumped pixels are the bins of the region
    from click.testing import CliRunner
    from cooler.cli import cli
    runner = CliRunner()
    t3 = Tally(ctx, "glue-cli")
    for r in ["chr1:0.01k-0.03k", "chr1:10-", "chr1", "a b:5-15", " a b :5-15", "chr-2.x:3-33", "chr-2.x:0-34", "chr1:20-10", "chr2", "chr1:1kk-2",
              "chr1:1.001k-", "7:0-0.01k", "chr1:0-0.050k", "chr1:0-0.051k", "chr1:1,0-2,0"]:
        res = guarded(lambda rr: runner.invoke(cli, ["dump", "--join", "-r", rr, clr.filename]), r, limit=60)
        case = {"fn": "cooler dump -r", "s": r}
        t3.add(r, True)
        if res[0] != "ok":
            got = (res[0],)
        elif res[1].exit_code != 0:
            got = ("refused",) if isinstance(res[1].exception, ValueError) else ("exit", res[1].exit_code, type(res[1].exception).__name__)
        else:
            rows = [ln.split("\t") for ln in res[1].output.strip().splitlines() if ln]
            got = ("ok", list(dict.fromkeys((x[0], int(x[1]), int(x[2])) for x in rows)))
        exp_parse = expected_parse_region(r, cs)
        if exp_parse is None:
            continue
        if exp_parse[0] == "refuse":
            if got != ("refused",):
                ctx.fail(case, {"got": jsonable(got), "expected": "refused: " + exp_parse[1]}, None)
        elif exp_parse[1][1] < exp_parse[1][2]:
            if got != ("ok", glue_expected(exp_parse[1])[1]):
                ctx.fail(case, {"got": jsonable(got), "expected": jsonable(glue_expected(exp_parse[1])[1])}, None)
    t3.flush()
    # two-region fetch: each region string is parsed on its own
    mf = guarded(lambda: clr.matrix(balance=False).fetch("chr1:0.01k-0.03k", "a b:5-20").shape)
    case = {"fn": "Cooler.fetch2", "s": "chr1:0.01k-0.03k", "s2": "a b:5-20"}
    ctx.case(case, kind="glue")
    if mf != ("ok", (2, 2)):
        ctx.fail(case, {"got": jsonable(mf), "expected": [2, 2]}, None)
    return tally.n + t3.n + 1


# ------------------------------------------------------------------ argument forms
FORMS_CS = {"a": 3, "b b": 5, "10": 7, "a-b": 4, "1k": 6, "a:b": 5, "chr\xe9": 2}
FORMS_CS_UNI = {"染色1": 4, "chrΔ": 3}            # names outside Latin-1: oracle only


def as_intval(x):
    """coordinate returned by the implementation -> python int by VALUE (numpy ints, integral floats), else repr"""
    import numpy as np
    if isinstance(x, (bool, np.bool_)):
        return repr(x)
    if hasattr(x, "__index__"):
        return int(x)
    if isinstance(x, (float, np.floating)) and float(x).is_integer():
        return int(x)
    return repr(x)


def norm_triple(r):
    if r[0] != "ok":
        return r
    v = r[1]
    if not (isinstance(v, tuple) and len(v) == 3 and isinstance(v[0], str)):
        return ("ok", repr(v))
    return ("ok", (v[0], as_intval(v[1]), as_intval(v[2])))


def expected_tuple_region(nm, s, e, cs):
    """independent reading for a (name, start|None, end|None) region: defaults 0 / length, accepted iff
    the name is known and 0 <= start <= end <= length"""
    s2 = 0 if s is None else s
    if cs is None:
        return ("ok", (nm, s2, e)) if (e is not None and 0 <= s2 <= e) else ("ValueError",)
    if nm not in cs:
        return ("ValueError",)
    e2 = cs[nm] if e is None else e
    return ("ok", (nm, s2, e2)) if 0 <= s2 <= e2 <= cs[nm] else ("ValueError",)


def containers(cs):
    """the same chromsizes in every container/dtype a caller may hand over"""
    import collections
    import numpy as np
    import pandas as pd
    out = [("dict", dict(cs)), ("OrderedDict", collections.OrderedDict(cs))]
    for dt in ("int64", "int32", "uint64", "int16", "float64", "object"):
        out.append((f"Series[{dt}]", pd.Series(cs, dtype=dt)))
    out.append(("Series[np-index]", pd.Series(list(cs.values()), index=np.array(list(cs.keys()), dtype=object))))
    return out


def region_variants(nm, s, e):
    """one (name, start, end) region in every sequence / integer type a caller may use"""
    import numpy as np
    out = [("tuple", (nm, s, e)), ("list", [nm, s, e])]
    conv = lambda f: tuple(x if x is None else f(x) for x in (s, e))
    if not any(x is not None and x < 0 for x in (s, e)):
        out.append(("uint64", (nm, *conv(np.uint64))))
    out.append(("int64", (nm, *conv(np.int64))))
    out.append(("int32", (nm, *conv(np.int32))))
    arr = np.empty(3, dtype=object)
    arr[0], arr[1], arr[2] = nm, s, e
    out.append(("object-array", arr))
    return out


def stream_forms(ctx, thorough):
    """argument forms of parse_region / parse_cooler_uri and of their callers that the grammar streams do not vary"""
    import numpy as np
    import pandas as pd
    from cooler.util import parse_cooler_uri, parse_region
    tally = Tally(ctx, "forms")
    cs = FORMS_CS
    # ---- 1. string regions x every chromsizes container (model + oracle)
    regs = ["a", "a:", "a:0-0", "a:1-1", "a:3-3", "a:4-4", "a:0-3", "a:0-4", "a:3-", "a:4-", "a:0-", "a:2-1", "a:-3", " a : 0 - 3 ", "a:0-3 ", "A:0-3",
            "10", "10:0-7", "10:7-7", "10:7-", "10:0-8", "10:8-", "010:0-7", "1k", "1k:0-6", "1k:0-0.006k", "1k:1k-2k", "1000",
            "a-b", "a-b:1-2", "a-b:0-4", "a-b:4-", "a-b:5-", "a", "a:b", "a:b:0-3", "a:b:0-5", "b b", "b b:5-", "b b:6-", "b b:0-5", "b  b:0-5",
            "chr\xe9", "chr\xe9:0-2", "chr\xe9:0-3", "chr\xc9:0-2", "", " ", ":0-3"]
    model = eval_map(ctx, f"out_triple (parse_region s {cs_term(cs)})", regs, "forms", per=100)
    conts = containers(cs)
    for r, mv in zip(regs, model):
        exp = expected_parse_region(r, cs)
        for how, arg in conts:
            impl = norm_triple(guarded(parse_region, r, arg))
            case = {"fn": "parse_region", "s": r, "chromsizes": cs, "container": how}
            tally.add(f"{r}|{how}", True)
            ctx.compare("parse_region", case, jsonable(impl), jsonable(m_triple(mv)))
            if not oracle_parse_region(r, cs, impl):
                ctx.fail(case, {"got": jsonable(impl), "expected": jsonable(exp)}, None)
    # names outside Latin-1 (oracle only)
    for r, ok in [("染色1", ("染色1", 0, 4)), ("染色1:1-4", ("染色1", 1, 4)), ("染色1:1-5", None), ("染色2:1-2", None),
                  ("chrΔ:0-3", ("chrΔ", 0, 3)), ("chrδ:0-3", None), ("chrΔ:3-", ("chrΔ", 3, 3)), ("chrΔ:4-", None)]:
        for how, arg in containers(FORMS_CS_UNI)[:3]:
            impl = norm_triple(guarded(parse_region, r, arg))
            case = {"fn": "parse_region", "s": r, "chromsizes": FORMS_CS_UNI, "container": how}
            tally.add(f"{r}|{how}", True)
            if not oracle_parse_region(r, FORMS_CS_UNI, impl) or impl != (("ok", ok) if ok else ("ValueError",)):
                ctx.fail(case, {"got": jsonable(impl), "expected": jsonable(ok)}, None)
    # ---- 2. (name, start, end) regions in every sequence / integer type x containers (model + oracle)
    tcases = []
    for nm in ("a", "10", "a:b", "zz"):
        L = cs.get(nm, 3)
        for s in (None, 0, 1, L, L + 1, -1):
            for e in (None, 0, 1, L, L + 1):
                tcases.append((nm, s, e))
    texprs = [f"(out_triple (parse_region_tuple ({lit(nm)}, {C.opt(s, C.z)}, {C.opt(e, C.z)}) {cs_term(cs)}), "
              f"out_triple (parse_region_tuple ({lit(nm)}, {C.opt(s, C.z)}, {C.opt(e, C.z)}) None))" for nm, s, e in tcases]
    tmodel = eval_exprs(ctx, texprs, "forms_t")
    for (nm, s, e), (mv_cs, mv_none) in zip(tcases, tmodel):
        for vhow, _ in region_variants(nm, s, e):
            for chow, mv in [(c, mv_cs) for c in FORMS_TUPLE_CONTAINERS] + [("None", mv_none)]:
                case = {"fn": "parse_region(tuple)", "region": [nm, s, e], "chromsizes": None if chow == "None" else cs,
                        "region_type": vhow, "container": chow}
                impl, exp = tuple_case_run(case)
                tally.add(f"{nm}|{s}|{e}|{vhow}|{chow}", True)
                ctx.compare("parse_region(tuple)", case, jsonable(impl), jsonable(m_triple(mv)))
                if impl != exp:
                    ctx.fail(case, {"got": jsonable(impl), "expected": jsonable(exp)}, None)
    # wrong arity is refused (never silently truncated)
    for bad in [("a",), ("a", 0), ("a", 0, 3, 4), ()]:
        case = {"fn": "parse_region(arity)", "region": list(bad)}
        tally.add(str(bad), True)
        if not arity_case_ok(case):
            ctx.fail(case, {"expected": "refused"}, None)
    # ---- 3. URI argument forms: non-str objects must not yield a wrong pair
    for k in range(len(nonstr_uris())):
        case = {"fn": "parse_cooler_uri(non-str)", "k": k, "repr": repr(nonstr_uris()[k][0])}
        tally.add(case["repr"], True)
        if not nonstr_uri_case_ok(case):
            ctx.fail(case, {"expected": "TypeError/AttributeError or the pair of the text form"}, None)
    tally.flush()
    return tally.n


FORMS_TUPLE_CONTAINERS = ["dict", "Series[int32]", "Series[uint64]", "Series[float64]"]


def tuple_case_run(case):
    """(implementation result, expected) for a recorded (name, start, end) region case"""
    from cooler.util import parse_region
    nm, s, e = case["region"]
    cs = case["chromsizes"]
    reg = dict(region_variants(nm, s, e)).get(case.get("region_type", "tuple"), (nm, s, e))
    arg = None if cs is None else dict(containers(cs)).get(case.get("container", "dict"), cs)
    return norm_triple(guarded(parse_region, reg, arg)), expected_tuple_region(nm, s, e, cs)


def arity_case_ok(case):
    from cooler.util import parse_region
    return guarded(parse_region, tuple(case["region"]), FORMS_CS)[0] != "ok"


def nonstr_uris():
    import pathlib
    return [(b"a.cool::g", "a.cool::g"), (pathlib.Path("a.cool"), "a.cool"), (pathlib.PurePosixPath("d/a.cool::g"), "d/a.cool::g"),
            (None, None), (5, None), (["a::b"], None), (("a", "b"), None)]


def nonstr_uri_case_ok(case):
    from cooler.util import parse_cooler_uri
    u, text = nonstr_uris()[case["k"]]
    impl = guarded(parse_cooler_uri, u)
    return impl in (("TypeError",), ("AttributeError",), ("ValueError",)) or (text is not None and impl == expected_uri(text))


TWO_REGION_CASES = [(("chr1", 10, 30), "a b:5-20", (2, 2)), ("chr1:0.01k-0.03k", ("a b", 5, None), (2, 2)), (["7", None, None], ("chr-2.x", 3, 33), (1, 4))]
URI_OPEN_CASES = [("", "/"), ("::", "/"), ("::/", "/"), ("::grp/x", "/grp/x"), ("::/grp/x", "/grp/x"),
                  ("::grp::x", None), ("::/grp/x::", None), ("::::", None)]


class CallersEnv:
    """the scratch cooler and the other callers of parse_region, built once per run / replay"""

    def __init__(self, ctx):
        import cooler
        import pandas as pd
        from cooler.util import GenomeSegmentation
        self.cs = dict(GLUE_CS)
        self.setup = guarded(lambda: (lambda pb: (cooler.Cooler(pb[0]), pb[1]))(make_cooler(ctx, "glue_forms.cool")), limit=60)
        if self.setup[0] == "ok":
            self.clr, self.bins = self.setup[1]
            self.seg = guarded(lambda: GenomeSegmentation(pd.Series(self.cs, dtype="int64"), self.bins), limit=60)
            self.grouped = self.bins.groupby("chrom", observed=True, sort=False)

    @staticmethod
    def rows_of(df):
        return [(str(c), int(s), int(e)) for c, s, e in zip(df["chrom"].astype(str), df["start"], df["end"])]

    def observe(self, reg):
        import pandas as pd
        from cooler.util import bedslice
        clr, rows_of = self.clr, self.rows_of
        ext = guarded(clr.extent, reg)
        off = guarded(clr.offset, reg)
        bf = guarded(lambda r: rows_of(clr.bins().fetch(r)), reg)
        pf = guarded(lambda r: sorted(set(int(x) for x in clr.pixels().fetch(r)["bin1_id"])), reg)
        mf = guarded(lambda r: tuple(int(x) for x in clr.matrix(balance=False).fetch(r).shape), reg)
        sg = guarded(lambda r: rows_of(self.seg[1].fetch(r)), reg) if self.seg[0] == "ok" else ("setup-" + self.seg[0],)
        bs = guarded(lambda r: rows_of(bedslice(self.grouped, pd.Series(self.cs, dtype="int64"), r)), reg)
        return {"extent": ext if ext[0] != "ok" else ("ok", tuple(int(x) for x in ext[1])),
                "offset": off if off[0] != "ok" else ("ok", int(off[1])), "bins": bf, "pixels.bin1": pf, "matrix.shape": mf,
                "segmentation": sg, "bedslice": bs}

    def verdict(self, reg, trip):
        """None when every caller treats the region as the property says, else a detail dict"""
        nm, s, e = trip
        got = self.observe(reg)
        exp = expected_tuple_region(nm, s, e, self.cs) if isinstance(nm, str) else ("ValueError",)
        if exp[0] != "ok":
            bad = {k: jsonable(v) for k, v in got.items() if v[0] == "ok"}
            return {"accepted_by": bad, "expected": "refused by every caller"} if bad else None
        _, s2, e2 = exp[1]
        if s2 < e2:
            lohi, rows, shape = glue_expected((nm, s2, e2))
            want = {"extent": ("ok", lohi), "offset": ("ok", lohi[0]), "bins": ("ok", rows), "pixels.bin1": ("ok", list(range(lohi[0], lohi[1]))),
                    "matrix.shape": ("ok", shape), "segmentation": ("ok", rows), "bedslice": ("ok", rows)}
            diff = {k: [jsonable(got[k]), jsonable(want[k])] for k in want if got[k] != want[k]}
            return {"got_vs_expected": diff} if diff else None
        refused = {k: jsonable(v) for k, v in got.items() if v[0] != "ok"}
        if refused:                      # an empty range inside the chromosome is a legal region for every caller
            return {"refused_by": refused, "expected": "accepted (empty range)"}
        if got["matrix.shape"][1][0] > 1 or len(got["bins"][1]) > 1:
            return {"got": {k: jsonable(v) for k, v in got.items()}, "expected": "at most one bin for an empty range"}
        return None

    def two_region_ok(self, k):
        r1, r2, shape = TWO_REGION_CASES[k]
        return guarded(lambda: tuple(int(x) for x in self.clr.matrix(balance=False).fetch(r1, r2).shape)) == ("ok", shape)


def region_from_case(case):
    nm, s, e = case["region"]
    if case.get("text") is not None:
        return case["text"]
    return dict(region_variants(nm, s, e)).get(case.get("region_type", "tuple"), (nm, s, e))


class UriEnv:
    def __init__(self, ctx, bins):
        import cooler
        import numpy as np
        self.path = str(ctx.tmp / "glue_uri.cool")
        pix = {"bin1_id": np.array([0, 1]), "bin2_id": np.array([1, 2]), "count": np.array([3, 4])}
        self.setup = guarded(lambda: (cooler.create_cooler(self.path, bins, pix),
                                      cooler.create_cooler(self.path + "::grp/x", bins, pix, mode="a")), limit=60)

    def open_ok(self, k):
        import cooler
        from cooler import fileops
        suffix, root = URI_OPEN_CASES[k]
        uri, path = self.path + suffix, self.path
        if root is None:
            return guarded(lambda u: cooler.Cooler(u).root, uri) == ("ValueError",)
        got = guarded(lambda u: (lambda c: (c.root, c.filename == path, int(c.info["nnz"]), c.uri == path + "::" + root))(cooler.Cooler(u)), uri)
        return got == ("ok", (root, True, 2, True)) and guarded(fileops.is_cooler, uri) == ("ok", True)

    def listing_ok(self):
        from cooler import fileops
        return guarded(lambda: sorted(fileops.list_coolers(self.path))) == ("ok", ["/", "/grp/x"])


def stream_glue_forms(ctx, thorough):
    """region argument forms through the callers: Cooler.extent/offset/bins/pixels/matrix, GenomeSegmentation.fetch,
    util.bedslice; URI spellings through create_cooler / Cooler / fileops"""
    tally = Tally(ctx, "glue-forms")
    env = CallersEnv(ctx)
    if env.setup[0] != "ok":
        ctx.broke(f"glue-forms stream: creating/opening the scratch cooler failed with {env.setup[0]}")
        return 0
    cases = []   # (region_type, (name, s, e), text)
    for nm, L in GLUE_CS:
        for s, e in [(None, None), (0, None), (None, L), (0, L), (3, None), (None, 7), (5, 15 if L >= 15 else L), (L, None), (L, L), (0, 0), (4, 4),
                     (L + 1, None), (0, L + 1), (7, 3), (-1, 5)]:
            for how, _ in region_variants(nm, s, e)[: (6 if thorough else 3)]:
                cases.append((how, (nm, s, e), None))
    for nm in ("chrZ", "CHR1", "chr1 x", ""):
        cases.append(("tuple", (nm, 0, 5), None))
    # the same regions written as strings in unusual but legal ways
    for text, trip in [("7:0-10", ("7", 0, 10)), ("7", ("7", None, None)), ("7:0.005k-", ("7", 5, None)), ("chr-2.x:0.03K-0.033k", ("chr-2.x", 30, 33)),
                       (" a b : 5 - 15 ", ("a b", 5, 15)), ("a b:20-", ("a b", 20, None)), ("a b:21-", ("a b", 21, None)), ("chr1:50-50", ("chr1", 50, 50)),
                       ("chr1:0-0", ("chr1", 0, 0)), ("chr1:0,050-", ("chr1", 50, None)), ("chr1:00-0050", ("chr1", 0, 50))]:
        cases.append(("str", trip, text))
    for how, (nm, s, e), text in cases:
        case = {"fn": "callers(region form)", "region": [nm, s, e], "region_type": how, "text": text}
        tally.add(f"{nm}|{s}|{e}|{how}|{text}", True)
        detail = env.verdict(region_from_case(case), (nm, s, e))
        if detail is not None:
            ctx.fail(case, detail, None)
    for k in range(len(TWO_REGION_CASES)):
        case = {"fn": "callers(two regions)", "k": k, "repr": repr(TWO_REGION_CASES[k][:2])}
        tally.add(case["repr"], True)
        if not env.two_region_ok(k):
            ctx.fail(case, {"expected_shape": list(TWO_REGION_CASES[k][2])}, None)
    # ---- URI spellings through the callers
    uenv = UriEnv(ctx, env.bins)
    if uenv.setup[0] != "ok":
        ctx.broke(f"glue-forms stream: create_cooler with a 'file::group' URI failed with {uenv.setup[0]}")
    else:
        for k, (suffix, root) in enumerate(URI_OPEN_CASES):
            case = {"fn": "callers(uri)", "k": k, "uri_suffix": suffix, "root": root}
            tally.add(suffix + "|open", True)
            if not uenv.open_ok(k):
                ctx.fail(case, {"expected": root if root is not None else "ValueError (two separators)"}, None)
        tally.add("list_coolers", True)
        if not uenv.listing_ok():
            ctx.fail({"fn": "callers(uri)", "k": -1, "uri_suffix": "list_coolers", "root": None}, {"expected": ["/", "/grp/x"]}, None)
    tally.flush()
    return tally.n


# ------------------------------------------------------------------ entry points
def run(ctx):
    thorough = ctx.tier == "thorough"
    old = signal.signal(signal.SIGALRM, _alarm)
    counts, times = {}, {}
    try:
        for name, fn, limit in [("corpus", stream_corpus, 300), ("uri", stream_uri, 300), ("bounds", stream_bounds, 300), ("forms", stream_forms, 300), ("glue", stream_glue, 300), ("glue-forms", stream_glue_forms, 600),
                                ("product", stream_product, 600), ("numerals", stream_numerals, 900), ("alpha", stream_alpha, 900)]:
            signal.alarm(limit)
            t0 = time.time()
            try:
                counts[name] = fn(ctx, thorough)
                times[name] = round(time.time() - t0, 1)
            except _Timeout:
                ctx.broke(f"stream {name}: the implementation did not finish within {limit}s (hang)")
            finally:
                signal.alarm(0)
    finally:
        signal.signal(signal.SIGALRM, old)
    ctx.exhaustive = True
    ctx.extra["scopes"] = counts
    ctx.extra["stream_wall_s"] = times


def replay(ctx, case):
    from cooler import util
    fn = case["fn"]
    if fn == "parse_region_string":
        return oracle_region(case["s"], norm_region(guarded(util.parse_region_string, case["s"])))
    if fn == "parse_humanized":
        return oracle_humanized(case["s"], norm_int(guarded(util.parse_humanized, case["s"])))
    if fn == "parse_region":
        cs = case["chromsizes"]
        arg = cs
        if cs is not None and case.get("container") == "series":
            import pandas as pd
            arg = pd.Series(cs, dtype="int64")
        elif cs is not None and case.get("container") in dict(containers(cs)):
            arg = dict(containers(cs))[case["container"]]
        impl = norm_triple(guarded(util.parse_region, case["s"], arg))
        return oracle_parse_region(case["s"], cs, impl)
    if fn == "parse_region(tuple)" and "region_type" in case:
        impl, exp = tuple_case_run(case)
        return impl == exp
    if fn == "parse_region(arity)":
        return arity_case_ok(case)
    if fn == "parse_cooler_uri(non-str)":
        return nonstr_uri_case_ok(case)
    if fn in ("callers(region form)", "callers(two regions)", "callers(uri)"):
        env = CallersEnv(ctx)
        if env.setup[0] != "ok":
            return False
        if fn == "callers(region form)":
            return env.verdict(region_from_case(case), tuple(case["region"])) is None
        if fn == "callers(two regions)":
            return env.two_region_ok(case["k"])
        uenv = UriEnv(ctx, env.bins)
        if uenv.setup[0] != "ok":
            return False
        return uenv.listing_ok() if case["k"] < 0 else uenv.open_ok(case["k"])
    if fn == "parse_region(tuple)":
        nm, s, e = case["region"]
        cs = case["chromsizes"]
        impl = guarded(util.parse_region, (nm, s, e), cs)
        if impl[0] == "ok":
            impl = ("ok", (impl[1][0], int(impl[1][1]), int(impl[1][2])))
        s2 = 0 if s is None else s
        if cs is None:
            good = e is not None and 0 <= s2 <= e
            e2 = e
        else:
            e2 = cs.get(nm) if e is None else e
            good = nm in cs and 0 <= s2 <= e2 <= cs[nm]
        return impl == (("ok", (nm, s2, e2)) if good else ("ValueError",))
    if fn == "parse_cooler_uri":
        return fast(util.parse_cooler_uri, case["s"]) == expected_uri(case["s"])
    if fn == "parse_cooler_uri(pair)":
        r1, r2 = fast(util.parse_cooler_uri, case["s"]), fast(util.parse_cooler_uri, case["s2"])
        return r1 == r2 and r1[0] == "ok"
    if fn == "cooler dump -r":
        import cooler
        from click.testing import CliRunner
        from cooler.cli import cli
        setup = guarded(lambda: make_cooler(ctx)[0], limit=60)
        if setup[0] != "ok":
            return False
        res = CliRunner().invoke(cli, ["dump", "--join", "-r", case["s"], setup[1]])
        exp = expected_parse_region(case["s"], dict(GLUE_CS))
        if exp is None:
            return True
        if exp[0] == "refuse":
            return res.exit_code != 0 and isinstance(res.exception, ValueError)
        if res.exit_code != 0:
            return False
        rows = list(dict.fromkeys((x.split("\t")[0], int(x.split("\t")[1]), int(x.split("\t")[2])) for x in res.output.strip().splitlines() if x))
        return exp[1][1] >= exp[1][2] or rows == glue_expected(exp[1])[1]
    if fn in ("Cooler.fetch", "Cooler.fetch2"):
        import cooler
        setup = guarded(lambda: cooler.Cooler(make_cooler(ctx)[0]), limit=60)
        if setup[0] != "ok":
            return False
        clr = setup[1]
        if fn == "Cooler.fetch2":
            return guarded(lambda: clr.matrix(balance=False).fetch(case["s"], case["s2"]).shape) == ("ok", (2, 2))
        got = glue_observe(clr, case["s"])
        exp = expected_parse_region(case["s"], dict(GLUE_CS))
        if exp is None:
            return True
        if exp[0] == "refuse":
            return got == ("refused",)
        if exp[1][1] < exp[1][2]:
            return got == ("ok", glue_expected(exp[1]))
        return got[0] == "ok"
    raise ValueError(f"unknown case kind {fn}")
