"""Generators, cooler I/O helpers and the index-based reference for C08/C09 (coarsen / zoomify).

The reference (`oracle_*`) is the reading of the property text: new bin q of chromosome c is the
union of old bins q*k .. min(q*k+k, n_c)-1 of c, a new pixel is the sum of the old pixels whose
bins fall into it.  It is computed from the INPUT bins/pixels only.
"""
from __future__ import annotations

import signal
from contextlib import contextmanager

import numpy as np
import pandas as pd

import coqio as C
from gen_bins import blocks_from_widths, names_for, table_from_blocks


# ------------------------------------------------------------------ guards
class Timeout(Exception):
    pass


@contextmanager
def time_limit(seconds):
    def handler(signum, frame):
        raise Timeout()
    old = signal.signal(signal.SIGALRM, handler)
    signal.alarm(int(seconds))
    try:
        yield
    finally:
        signal.alarm(0)
        signal.signal(signal.SIGALRM, old)


def guarded(fn, seconds=30):
    """run fn(); map exceptions / hangs to a small enum so that they are results, not crashes"""
    try:
        with time_limit(seconds):
            return ("ok", fn())
    except Timeout:
        return ("timeout", None)
    except (ValueError, AssertionError) as e:
        return ("ValueError", type(e).__name__)
    except KeyError:
        return ("KeyError", None)
    except IndexError:
        return ("IndexError", None)
    except OSError:
        return ("OSError", None)
    except Exception as e:  # anything else is still a result of the code under test
        return ("Exception", type(e).__name__)


# --------------------------------------------------------------- cooler I/O
def make_cooler(path, blocks, pixels, symmetric=True, extra=None, bin_weight=None, mode="w", count_dtype=None, more=None):
    """blocks: list of chromosome blocks [(cid,start,end)...]; pixels: sorted [(b1,b2,count)];
    extra: optional list of ints (second value column 'w'); bin_weight: optional list of floats
    stored as bin column 'weight'."""
    import cooler
    bins = table_from_blocks(blocks)
    if bin_weight is not None:
        bins["weight"] = np.asarray(bin_weight, dtype=float)
    d = {"bin1_id": np.array([p[0] for p in pixels], dtype=np.int64),
         "bin2_id": np.array([p[1] for p in pixels], dtype=np.int64),
         "count": np.array([p[2] for p in pixels], dtype=np.dtype(count_dtype or "int32"))}
    kw = {}
    if count_dtype is not None:
        kw["dtypes"] = {"count": np.dtype(count_dtype)}
    if extra is not None:
        d["w"] = np.array(list(extra), dtype=np.int64)
        kw["columns"] = ["count", "w"]
        kw.setdefault("dtypes", {})["w"] = np.int64
    for name, vals_ in (more or {}).items():          # further int64 value columns
        d[name] = np.array(list(vals_), dtype=np.int64)
        kw["columns"] = kw.get("columns", ["count"]) + [name]
        kw.setdefault("dtypes", {})[name] = np.int64
    cooler.create_cooler(str(path), bins, pd.DataFrame(d), symmetric_upper=symmetric, mode=mode, **kw)


def read_cooler(uri, cols=("count",)):
    """canonical observable of a stored cooler: exact ints only"""
    import cooler
    clr = cooler.Cooler(str(uri))
    names = list(clr.chromnames)
    b = clr.bins()[["chrom", "start", "end"]][:]
    idx = {n: i for i, n in enumerate(names)}
    bins = [[idx[str(c)], int(s), int(e)] for c, s, e in zip(b["chrom"].astype(str), b["start"], b["end"])]
    p = clr.pixels()[:]
    px = [[int(a), int(b_)] + [int(p[c].values[i]) for c in cols]
          for i, (a, b_) in enumerate(zip(p["bin1_id"].values, p["bin2_id"].values))]
    info = clr.info
    bs = clr.binsize
    return {
        "names": names,
        "chromsizes": [int(x) for x in clr.chromsizes.values],
        "bins": bins,
        "pixels": px,
        "nnz": int(info["nnz"]),
        "sum": int(info["sum"]) if "sum" in info else None,
        "nbins": int(info["nbins"]),
        "binsize": None if bs is None else int(bs),
        "bintype": str(info.get("bin-type")),
        "mode": str(clr.storage_mode),
        "b1off": [int(x) for x in clr._load_dset("indexes/bin1_offset")],
        "choff": [int(x) for x in clr._load_dset("indexes/chrom_offset")],
        "attrs": raw_attrs(uri),
        "matrix": dense_matrix(clr, cols[0]) if int(info["nbins"]) <= MATRIX_MAX_BINS else None,
    }


MATRIX_MAX_BINS = 150
ATTR_KEYS = ("storage-mode", "bin-type", "bin-size", "nbins", "nchroms", "nnz", "sum", "format", "format-version")


def raw_attrs(uri):
    """the header attributes as stored (None when absent), read with h5py"""
    import h5py
    from cooler.util import parse_cooler_uri
    path, grp = parse_cooler_uri(str(uri))
    out = {}
    with h5py.File(path, "r") as f:
        a = f[grp].attrs
        for k in ATTR_KEYS:
            v = a.get(k)
            if isinstance(v, bytes):
                v = v.decode()
            if isinstance(v, (np.integer,)):
                v = int(v)
            elif isinstance(v, (np.floating,)):
                v = float(v)
            elif v is not None and not isinstance(v, (int, float, str)):
                v = str(v)
            out[k] = v
    return out


def dense_matrix(clr, field="count"):
    m = clr.matrix(balance=False, field=field)[:]
    return [[(float(x) if isinstance(x, (float, np.floating)) else int(x)) for x in row] for row in np.asarray(m).tolist()]


def strip_attr(uri, attr):
    """legacy / optional header attributes: delete one attribute (or 'name:value' sets an integer) with h5py"""
    import h5py
    from cooler.util import parse_cooler_uri
    path, grp = parse_cooler_uri(str(uri))
    with h5py.File(path, "r+") as f:
        if ":" in attr:
            k, v = attr.split(":")
            f[grp].attrs[k] = int(v)
        else:
            del f[grp].attrs[attr]


def expected_dense(nbins, pixels, symmetric, col=2):
    m = [[0] * nbins for _ in range(nbins)]
    for p in pixels:
        m[p[0]][p[1]] += p[col]
        if symmetric and p[0] != p[1]:
            m[p[1]][p[0]] += p[col]
    return m


def semantics_bad(r, ebins, epx, symmetric, total):
    """attributes and READS of a level, beyond the raw tables: storage-mode as stored, bin-type/bin-size, the
    counters, the format tag and the dense matrix (symmetric completion for symmetric-upper storage)"""
    a = r["attrs"]
    want_mode = "symmetric-upper" if symmetric else "square"
    if a["storage-mode"] != want_mode:
        return {"what": "storage-mode attribute of the level", "got": a["storage-mode"], "expected": want_mode}
    nch = len({b[0] for b in ebins})
    for k, exp in (("nbins", len(ebins)), ("nchroms", nch), ("nnz", len(epx)), ("sum", total), ("format", "HDF5::Cooler")):
        if a[k] != exp:
            return {"what": f"attribute {k}", "got": a[k], "expected": exp}
    if a["bin-type"] not in ("fixed", "variable") or (a["bin-type"] == "fixed") != (r["binsize"] is not None):
        return {"what": "bin-type / bin-size attributes", "bin-type": a["bin-type"], "bin-size": str(a["bin-size"])}
    if r["matrix"] is not None:
        exp = expected_dense(len(ebins), epx, symmetric)
        if r["matrix"] != exp:
            bad = [(i, j) for i in range(len(exp)) for j in range(len(exp)) if r["matrix"][i][j] != exp[i][j]][:6]
            return {"what": "Cooler(level).matrix(balance=False)[:] is not the (symmetric completion of the) block aggregation",
                    "first_differing_cells": bad, "got": [r["matrix"][i][j] for i, j in bad], "expected": [exp[i][j] for i, j in bad]}
    return None


# ----------------------------------------------------------------- reference
def oracle_bins(blocks, k):
    out = []
    for blk in blocks:
        n = len(blk)
        q = 0
        while q * k < n:
            first = blk[q * k]
            lastb = blk[min(q * k + k, n) - 1]
            out.append([first[0], first[1], lastb[2]])
            q += 1
    return out


def oracle_index_table(blocks, k):
    tbl, off = [], 0
    for blk in blocks:
        n = len(blk)
        tbl += [off + m // k for m in range(n)]
        off += -(-n // k)
    return tbl


def oracle_pixels(blocks, pixels, k, agg="sum", col=2):
    tbl = oracle_index_table(blocks, k)
    acc = {}
    for p in pixels:
        key = (tbl[p[0]], tbl[p[1]])
        acc.setdefault(key, []).append(p[col])
    f = {"sum": sum, "max": max, "min": min}[agg]
    return [[a, b, f(v)] for (a, b), v in sorted(acc.items())]


def oracle_coarsen(blocks, pixels, k):
    return oracle_bins(blocks, k), oracle_pixels(blocks, pixels, k)


def blocks_of_flat(bins):
    """regroup a flat [[cid,s,e]...] into chromosome blocks"""
    blocks = []
    for r in bins:
        if not blocks or blocks[-1][0][0] != r[0]:
            blocks.append([])
        blocks[-1].append(tuple(r))
    return blocks


def oracle_prune(edges, maxlen, pruned):
    """reading of 'no coarse row is split or duplicated': the pruned edges are a non-decreasing
    selection of the coarse-row edges that starts at 0 and ends at nnz (a repeated edge only makes an
    empty work unit, which is harmless; strictness is a matter of the model correspondence)"""
    if not pruned or pruned[0] != 0 or pruned[-1] != edges[-1]:
        return False
    if any(a > b for a, b in zip(pruned[:-1], pruned[1:])):
        return False
    return all(e in edges for e in pruned)


# ---------------------------------------------------------------- generators
def random_pixels(rng, n, symmetric, pattern=None, maxcount=9):
    pattern = pattern or rng.choice(["dense", "sparse", "sparse", "diag", "emptyrows", "lastrow", "firstrow", "band", "empty"])
    cells = [(i, j) for i in range(n) for j in range(i if symmetric else 0, n)]
    if pattern == "dense":
        keep = [c for c in cells if rng.random() < 0.8]
    elif pattern == "sparse":
        keep = [c for c in cells if rng.random() < 0.25]
    elif pattern == "diag":
        keep = [c for c in cells if c[0] == c[1] and rng.random() < 0.8]
    elif pattern == "emptyrows":
        dead = {i for i in range(n) if rng.random() < 0.5}
        keep = [c for c in cells if c[0] not in dead and rng.random() < 0.7]
    elif pattern == "lastrow":
        keep = [c for c in cells if c[0] == n - 1 or (c[1] == n - 1 and rng.random() < 0.5)]
    elif pattern == "firstrow":
        keep = [c for c in cells if c[0] == 0]
    elif pattern == "band":
        keep = [c for c in cells if abs(c[0] - c[1]) <= 1 and rng.random() < 0.9]
    else:
        keep = []
    return [(i, j, rng.randint(1, maxcount)) for (i, j) in keep]


def random_widths(rng, kind=None, maxchrom=4, maxbins=7):
    """widths per chromosome. kind: fixed | variable | longlast (D1) | uniformising (variable table
    whose coarsened table looks fixed)"""
    kind = kind or rng.choice(["fixed", "fixed", "variable", "longlast", "uniformising", "onebin"])
    nc = rng.randint(1, maxchrom)
    b = rng.choice([1, 2, 5, 10, 1000])
    out = []
    for _ in range(nc):
        n = rng.randint(1, maxbins)
        if kind == "fixed":
            ws = [b] * (n - 1) + [rng.randint(1, b)]
        elif kind == "variable":
            ws = [rng.randint(1, 2 * b + 1) for _ in range(n)]
        elif kind == "longlast":
            ws = [b] * n + [b + rng.randint(1, 2 * b)]
        elif kind == "uniformising":
            # pairs of widths that sum to 2*b' : coarsening by 2 gives a fixed table
            bb = b + 3
            ws = []
            for _ in range((n + 1) // 2):
                a = rng.randint(1, 2 * bb - 1)
                ws += [a, 2 * bb - a]
            if rng.random() < 0.5:
                ws = ws[:-1] if len(ws) > 1 else ws
        else:
            ws = [rng.randint(1, 3 * b)]
        out.append(ws)
    return out, kind


# ------------------------------------------------------------- Coq literals
def coq_bins(flat):
    return C.lst([C.tup(C.z(c), C.z(s), C.z(e)) for (c, s, e) in flat])


def coq_pixels(pixels):
    return C.lst([C.tup(C.tup(C.z(p[0]), C.z(p[1])), C.z(p[2])) for p in pixels])


def flat_of(blocks):
    return [tuple(x) for blk in blocks for x in blk]


def sizes_of(blocks):
    return [blk[-1][2] for blk in blocks]


def px_lists(model_px):
    return [list(p) for p in model_px]


def coq_agg(name):
    """the aggregation as a Gallina function list Z -> Z (Model/Coarsen.v: agg_of)"""
    return {"sum": "(agg_of AggSum)", "max": "(agg_of AggMax)", "min": "(agg_of AggMin)"}[name]


# ------------------------------------------ coarse bin sizes whose reciprocal rounds down in binary64
def reciprocal_rounds_down(B):
    """True when n*B*(1.0/B) comes out just under n for some small n (a float64 fact about B, used only to CHOOSE
    inputs; the judgement is exact integer block aggregation)"""
    import math
    inv = 1.0 / B
    return any(math.floor((n * B) * inv) < n for n in range(1, 70))


def binsize_sweep_plan(rng, thorough=False, per_base=3):
    """[(base width, [factors k]), ...]: coarse bin sizes B = base*k for base in {1,7,10,11,1000,11000} x k in 2..60
    plus random (base, k) with B <= 10^5; the float-unfriendly B first, next to as many friendly ones"""
    plan = []
    n_bad = 0
    for base in (1, 7, 10, 11, 1000, 11000):
        bad = [k for k in range(2, 61) if reciprocal_rounds_down(base * k)]
        good = [k for k in range(2, 61) if k not in bad]
        kb = bad if thorough else (rng.sample(bad, min(per_base, len(bad))) if bad else [])
        kg = good if thorough else rng.sample(good, min(max(1, len(kb)), len(good), per_base))
        n_bad += len(kb)
        plan.append((base, sorted(kb + kg)))
    extra = []
    tries = 0
    while (n_bad < 12 or len(extra) < 4) and tries < 4000:
        tries += 1
        base, k = rng.randint(2, 2500), rng.randint(2, 40)
        if base * k <= 10 ** 5 and reciprocal_rounds_down(base * k):
            extra.append((base, [k]))
            n_bad += 1
    for _ in range(2):
        base, k = rng.randint(2, 2500), rng.randint(2, 40)
        extra.append((base, [k]))
    return plan + extra


def binsize_sweep_cooler(base, ks):
    """one chromosome of 6*max(k) bins of width base (so >= 6 coarse bins for every k, bins starting exactly on the
    multiples of B) + a short second one; pixels on the boundary bins of every k"""
    n1 = 6 * max(ks)
    n2 = max(ks) + max(ks) // 2 + 1
    widths = [[base] * n1, [base] * n2]
    cells = set()
    for k in ks:
        for j in range(0, 6):
            b = j * k
            cells.add((b, b))
            if b > 0:
                cells.add((b - 1, b))
                cells.add((b - 1, b - 1))
            cells.add((0, b))
        cells.add((n1, n1 + min(k, n2 - 1)))
        cells.add((n1 + min(k, n2 - 1), n1 + min(k, n2 - 1)))
    pixels = [[i, j, 1 + (3 * i + j) % 5] for (i, j) in sorted(cells)]
    return widths, pixels
