"""C12 — balanced reads equal raw values times the two bin weights.

Correspondence: Cooler.matrix(balance=..., divisive_weights=..., sparse/as_pixels)[window] against the Gallina model
(coq/Model/Balanced.v, exact rationals, None = NaN) on ALL windows of small matrices with several weight columns.
Property oracle (independent of the query code): count x w(row bin) x w(col bin) computed with fractions from the
raw stored columns; floats are compared with the exact rational within 4 ulp (two float multiplications).
"""
from __future__ import annotations

import itertools
import math
import os
from concurrent.futures import ProcessPoolExecutor
from fractions import Fraction

import numpy as np

import coqio as C
from c03 import windows, make_bins

PROP = "C12"
RULE = ("coolers with n<=4 (quick) / n<=5 (thorough) bins, symmetric-upper and square, with weight columns 'weight', 'KR', 'VC', 'VC_SQRT', 'w2' "
        "holding dyadic and non-dyadic floats and NaNs; for each: ALL windows x {dense, sparse, pixels} x balance in {True, 'weight', 'KR', 'VC', "
        "'VC_SQRT', 'w2', missing name} x divisive_weights in {None, True, False} (quick: a rotating subset of the option grid per cooler); "
        "one evaluation = one (cooler, option set, window, form) query; non-trivial = non-empty window on a non-empty matrix; "
        "distinct by (cooler, options, window)")
TRUSTED = ["h5py raw reads of pixel columns, bin1_offset and the weight columns (model input and oracle reference)"]
ASSUMPTIONS = ["a float64 product of three factors differs from the exact rational product by at most 4 ulp (two roundings); "
               "weights used with divisive=True are non-zero (1/0 = inf is outside the claim)"]
RESIDUE = ["floating-point rounding of the two multiplications is not modelled (exact rationals); `cooler dump -b` is covered by C16"]

NAMES = ["weight", "KR", "VC", "VC_SQRT", "w2"]
REL = 1e-12


def gen_cases(ctx):
    rng = ctx.rng
    thorough = ctx.tier == "thorough"
    cases = []
    for n in ((2, 3, 4, 5) if thorough else (2, 3, 4)):
        for rep in range(4 if thorough else 3):
            symm = rep != 2
            cells = [(i, j) for i in range(n) for j in (range(i, n) if symm else range(n))]
            dens = [0.9, 0.5, 0.7, 0.3][rep]
            pix = [[i, j, rng.randint(1, 50)] for (i, j) in cells if rng.random() < dens]
            cols = {}
            for name in NAMES:
                vals = []
                for k in range(n):
                    r = rng.random()
                    if r < 0.2:
                        vals.append(None)                       # NaN = masked bin
                    elif r < 0.6:
                        vals.append(rng.choice([0.5, 0.25, 1.5, 2.0, 0.125, 3.0]))   # dyadic
                    else:
                        vals.append(rng.uniform(0.05, 3.0))     # arbitrary float
                cols[name] = vals
            cases.append({"n": n, "pixels": pix, "symm": symm, "weights": cols})
    grid = [(b, d) for b in [True, "weight", "KR", "VC", "VC_SQRT", "w2", "nope"] for d in [None, True, False]]
    for k, c in enumerate(cases):
        if thorough:
            c["options"] = [[b, d] for b, d in grid]
        else:
            sel = [grid[(k * 5 + t * 4) % len(grid)] for t in range(6)]
            sel += [("KR", None), (True, None), ("nope", None)]
            c["options"] = [list(x) for x in dict.fromkeys(sel)]
        c["chunk"] = [1, 2, 10 ** 7][k % 3]
    return cases


def frac(x):
    return None if x is None else Fraction(x)


def close(got, exact):
    """float result vs exact rational"""
    if exact is None:
        return isinstance(got, float) and math.isnan(got)
    if isinstance(got, float) and math.isnan(got):
        return False
    return abs(Fraction(float(got)) - exact) <= Fraction(4, 2 ** 52) * abs(exact)


def _worker(arg):
    path, case = arg
    import h5py
    import pandas as pd
    import cooler
    n = case["n"]
    df = pd.DataFrame(case["pixels"], columns=["bin1_id", "bin2_id", "count"]).astype(np.int64)
    bins = make_bins(n)
    for name, vals in case["weights"].items():
        bins[name] = [np.nan if v is None else v for v in vals]
    cooler.create_cooler(path, bins, df, symmetric_upper=case["symm"], dtypes={"count": np.int64})
    with h5py.File(path, "r") as f:
        b1 = f["pixels/bin1_id"][:].tolist(); b2 = f["pixels/bin2_id"][:].tolist(); cnt = f["pixels/count"][:].tolist()
        off = f["indexes/bin1_offset"][:].tolist()
        wraw = {name: [None if np.isnan(v) else float(v) for v in f["bins/" + name][:]] for name in case["weights"]}
    F = [[0] * n for _ in range(n)]
    for r, c, v in zip(b1, b2, cnt):
        F[r][c] += v
        if case["symm"] and r != c:
            F[c][r] += v
    stored = list(zip(range(len(b1)), b1, b2, cnt))
    res = {"raw": [b1, b2, cnt, off], "wraw": wraw, "cks": [], "fails": [], "nq": 0}
    fh = h5py.File(path, "r")
    clr = cooler.Cooler(fh)
    wins = windows(n)
    try:
        for bal, dw in case["options"]:
            name = "weight" if bal is True else bal
            divisive = dw if dw is not None else (name in ("KR", "VC", "VC_SQRT"))
            wq = None
            if name in wraw:
                wq = [frac(v) for v in wraw[name]]
                if divisive:
                    wq = [None if v is None else (None if v == 0 else 1 / v) for v in wq]
            row = {"dense": [], "sparse": [], "pixels": []}
            for form in ("dense", "sparse", "pixels"):
                kw = dict(balance=bal, chunksize=case["chunk"])
                if dw is not None:
                    kw["divisive_weights"] = dw
                if form == "sparse":
                    kw["sparse"] = True
                if form == "pixels":
                    kw.update(as_pixels=True, join=False, ignore_index=False)
                sel = clr.matrix(**kw)
                for (i0, i1, j0, j1) in wins:
                    res["nq"] += 1
                    try:
                        got = sel[i0:i1, j0:j1]
                    except ValueError as e:
                        row[form].append((-1, 0, Fraction(0)))
                        if wq is not None and len(res["fails"]) < 4:
                            res["fails"].append({"options": [bal, dw], "form": form, "window": [i0, i1, j0, j1], "error": repr(e)})
                        continue
                    except Exception as e:
                        row[form].append((-9, 0, Fraction(0)))
                        if len(res["fails"]) < 4:
                            res["fails"].append({"options": [bal, dw], "form": form, "window": [i0, i1, j0, j1], "error": repr(e)})
                        continue
                    if wq is None:     # a missing column must be an error, never an unbalanced result
                        row[form].append((-8, 0, Fraction(0)))
                        if len(res["fails"]) < 4:
                            res["fails"].append({"options": [bal, dw], "form": form, "window": [i0, i1, j0, j1], "error": "missing weight column did not raise"})
                        continue
                    ok = True
                    nans = 0
                    tot = Fraction(0)
                    if form == "dense":
                        ok = got.shape == (i1 - i0, j1 - j0)
                        for a in range(i1 - i0):
                            for b_ in range(j1 - j0):
                                w1, w2 = wq[i0 + a], wq[j0 + b_]
                                exact = None if (w1 is None or w2 is None) else w1 * w2 * F[i0 + a][j0 + b_]
                                g = float(got[a, b_]) if ok else float("nan")
                                ok = ok and close(g, exact)
                                if math.isnan(g):
                                    nans += 1
                                else:
                                    tot += (1 + 31 * a + 1009 * b_) * Fraction(g)
                        ck = (1, nans, tot)
                    elif form == "sparse":
                        ents = sorted(zip((got.row + i0).tolist(), (got.col + j0).tolist(), got.data.tolist()))
                        exp_keys = sorted((r, c) for r in range(i0, i1) for c in range(j0, j1) if F[r][c] != 0)
                        ok = [(r, c) for r, c, _ in ents] == exp_keys
                        for r, c, g in ents:
                            w1, w2 = wq[r], wq[c]
                            exact = None if (w1 is None or w2 is None) else w1 * w2 * F[r][c]
                            ok = ok and close(float(g), exact)
                            if math.isnan(g):
                                nans += 1
                            else:
                                tot += (1 + 7 * r + 131 * c) * Fraction(float(g))
                        ck = (2, nans + 1000 * len(ents), tot)
                    else:
                        recs = list(zip(got.index.tolist(), got["bin1_id"].tolist(), got["bin2_id"].tolist(), got["count"].tolist(),
                                        got["balanced"].tolist() if "balanced" in got.columns else [None] * len(got)))
                        exp = [t for t in stored if i0 <= t[1] < i1 and j0 <= t[2] < j1]
                        ok = [t[:4] for t in recs] == exp and "balanced" in got.columns
                        for k, (ix, r, c, v, g) in enumerate(recs):
                            w1, w2 = wq[r], wq[c]
                            exact = None if (w1 is None or w2 is None) else w1 * w2 * v
                            ok = ok and g is not None and close(float(g), exact)
                            if g is None or math.isnan(g):
                                nans += 1
                            else:
                                tot += (k + 1) * (1 + 7 * r + 131 * c) * Fraction(float(g))
                        ck = (3, nans + 1000 * len(recs), tot)
                    row[form].append(ck)
                    if not ok and len(res["fails"]) < 4:
                        res["fails"].append({"options": [bal, dw], "form": form, "window": [i0, i1, j0, j1],
                                             "got": np.asarray(got.toarray() if form == "sparse" else got).tolist() if form != "pixels" else got.to_dict("list")})
            # pixel output with join=True: same balanced values, ids replaced by the bins' own coordinates (oracle only)
            if wq is not None:
                for (i0, i1, j0, j1) in wins[:: max(1, len(wins) // 10)]:
                    try:
                        kwj = dict(balance=bal, as_pixels=True, join=True, chunksize=case["chunk"])
                        if dw is not None:
                            kwj["divisive_weights"] = dw
                        gj = clr.matrix(**kwj)[i0:i1, j0:j1]
                        exp = [t for t in stored if i0 <= t[1] < i1 and j0 <= t[2] < j1]
                        okj = len(gj) == len(exp) and "balanced" in gj.columns
                        for k, t in enumerate(exp):
                            if not okj:
                                break
                            w1, w2 = wq[t[1]], wq[t[2]]
                            exact = None if (w1 is None or w2 is None) else w1 * w2 * t[3]
                            okj = (close(float(gj["balanced"].iloc[k]), exact) and int(gj["start1"].iloc[k]) == int(bins["start"][t[1]])
                                   and int(gj["end2"].iloc[k]) == int(bins["end"][t[2]]) and str(gj["chrom2"].iloc[k]) == str(bins["chrom"][t[2]]))
                        res["nq"] += 1
                        if not okj and len(res["fails"]) < 4:
                            res["fails"].append({"options": [bal, dw], "form": "pixels+join", "window": [i0, i1, j0, j1], "got": gj.to_dict("list")})
                    except Exception as e:
                        if len(res["fails"]) < 4:
                            res["fails"].append({"options": [bal, dw], "form": "pixels+join", "window": [i0, i1, j0, j1], "error": repr(e)})
            res["cks"].append(row)
    finally:
        fh.close()
    os.unlink(path)
    return res


def qlit(x):
    return "None" if x is None else "(Some " + C.q(Fraction(x)) + ")"


def model_exprs(case, r):
    b1, b2, cnt, off = r["raw"]
    px = C.lst([C.tup(C.tup(C.z(a), C.z(b_)), C.z(v)) for a, b_, v in zip(b1, b2, cnt)])
    cols = C.lst([C.tup(C.s(name), C.lst([qlit(v) for v in vals])) for name, vals in r["wraw"].items()])
    exprs = []
    for bal, dw in case["options"]:
        balance = "(Some None)" if bal is True else f"(Some (Some {C.s(bal)}))"
        dwl = "None" if dw is None else f"(Some {C.b(dw)})"
        for form in ("Dense", "Sparse", "AsPixels"):
            exprs.append(f"all_window_bal_cksums {C.z(case['n'])} {px} {C.zl(off)} {C.z(case['chunk'])} {C.b(case['symm'])} {form} {cols} {balance} {dwl}")
    return exprs


def same(im, mo):
    """(tag, nans, sum) from the implementation (floats summed exactly) vs the model (exact rationals)"""
    if im[0] != mo[0] or im[1] != mo[1]:
        return False
    a, b_ = Fraction(im[2]), Fraction(mo[2])
    return abs(a - b_) <= Fraction(REL) * max(abs(b_), Fraction(1, 10 ** 6))


def _history_worker(arg):
    """the same cases again, one after the other at ONE path in ONE process (see c03)"""
    path, cs = arg
    out = []
    for c in cs:
        r = _worker((path, c))
        out.append({"cks": r["cks"], "fails": r["fails"]})
    return out


def run(ctx):
    import common
    cases = gen_cases(ctx)
    args = [(str(ctx.tmp / f"b{k}.cool"), c) for k, c in enumerate(cases)]
    with ProcessPoolExecutor(max_workers=int(os.environ.get("VERIF_JOBS", "8"))) as ex:
        results = list(ex.map(_worker, args))
    exprs, owners = [], []
    for k, (c, r) in enumerate(zip(cases, results)):
        es = model_exprs(c, r)
        exprs += es
        owners += [(k, oi, form) for oi in range(len(c["options"])) for form in ("dense", "sparse", "pixels")]
    model = C.coq_eval("From Cooler Require Import Model.Balanced.", exprs, shard=12, tmpdir=ctx.tmp / "model")
    for (k, oi, form), mo in zip(owners, model):
        c, r = cases[k], results[k]
        wins = windows(c["n"])
        im = r["cks"][oi][form]
        keys = [common.short_hash((k, oi, w)) for w in wins if w[1] > w[0] and w[3] > w[2]] if c["pixels"] else []
        ctx.count(len(wins), nontrivial_keys=keys, kind=f"n={c['n']}/{form}/balance={c['options'][oi][0]}/divisive={c['options'][oi][1]}")
        for w, a, b_ in zip(wins, im, mo):
            b_ = (b_[0], b_[1], Fraction(b_[2], b_[3]))
            if not same(a, b_):
                ctx.disagree("balanced window checksum (tag, NaN count, weighted sum)",
                             {"n": c["n"], "pixels": c["pixels"], "symm": c["symm"], "weights": c["weights"], "options": c["options"][oi], "form": form, "window": list(w), "chunk": c["chunk"]},
                             [a[0], a[1], str(a[2])], [b_[0], b_[1], str(b_[2])])
                break
    for c, r in zip(cases, results):
        for f in r["fails"]:
            ctx.fail({"n": c["n"], "pixels": c["pixels"], "symm": c["symm"], "weights": c["weights"], "chunk": c["chunk"],
                      "options": f["options"], "form": f["form"], "window": f["window"]}, f, None)
    # history pass: a sample of the cases, grouped by bin count, replayed in one process on one path
    pick = sorted(ctx.rng.sample(range(len(cases)), min(len(cases), 32 if ctx.tier == "quick" else 128)), key=lambda k: (cases[k]["n"], k))
    groups = [pick[i::4] for i in range(4)]
    with ProcessPoolExecutor(max_workers=4) as ex:
        hres = list(ex.map(_history_worker, [(str(ctx.tmp / f"hist{g}.cool"), [cases[k] for k in grp]) for g, grp in enumerate(groups)]))
    for grp, hr in zip(groups, hres):
        for pos, (k, r2) in enumerate(zip(grp, hr)):
            c = cases[k]
            ctx.case({"history_of": k, "pos": pos}, nontrivial=pos > 0 and bool(c["pixels"]), kind="history:same-path")
            if r2["cks"] != results[k]["cks"] or r2["fails"]:
                ctx.fail({"n": c["n"], "pixels": c["pixels"], "symm": c["symm"], "weights": c["weights"], "chunk": c["chunk"], "options": c["options"],
                          "history": f"case {pos + 1} of {len(grp)} created and queried at the same path in one process",
                          "previous_case_at_path": {kk: cases[grp[pos - 1]][kk] for kk in ("n", "pixels", "weights")} if pos else None},
                         {"detail": "balanced queries differ from the same cooler stored at a fresh path", "fails": r2["fails"][:2]}, None)
    # source pin: the three conventional divisive names
    import cooler.api as api
    ctx.case({"fn": "_4DN_DIVISIVE_WEIGHTS"}, kind="pin")
    if set(api._4DN_DIVISIVE_WEIGHTS) != {"KR", "VC", "VC_SQRT"}:
        ctx.fail({"fn": "_4DN_DIVISIVE_WEIGHTS", "value": sorted(api._4DN_DIVISIVE_WEIGHTS)}, {"expected": ["KR", "VC", "VC_SQRT"]}, None)
    ctx.exhaustive = True
    ctx.extra["coolers"] = len(cases)
    ctx.extra["queries"] = sum(r["nq"] for r in results)


def replay(ctx, case):
    if "pixels" not in case:
        print("replay: function-level case:", case)
        return True
    c = dict(case)
    c["options"] = [case["options"]]
    r = _worker((str(ctx.tmp / "replay.cool"), c))
    for f in r["fails"][:3]:
        print("  failing:", f)
    return not r["fails"]
