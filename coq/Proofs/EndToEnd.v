(** Integration across properties: a stored collection that satisfies the schema of C02 (IndexProofs.ValidCSR)
    satisfies the hypotheses of the range-query theorems of C03 (QueryProofs.ValidCSR, Upper), so every range
    query on every collection any operation writes is answered exactly. *)
From Cooler Require Import Model.Query Proofs.PixelsProofs Proofs.QueryProofs Proofs.SpansProofs Proofs.QueryMain.
From Cooler Require Model.Index Proofs.IndexProofs.
From Coq Require Import Sorted Permutation ZifyBool.
Ltac Zify.zify_post_hook ::= Z.to_euclidean_division_equations.

Definition rkey (x : ipixel) : Z := row (snd x).
Definition RowSorted (l : list ipixel) : Prop := StronglySorted (fun a b => rkey a <= rkey b) l.

Lemma zrange_snoc lo m : zrange lo (S m) = zrange lo m ++ [lo + Z.of_nat m].
Proof. replace (S m) with (m + 1)%nat by lia. rewrite zrange_app. f_equal. unfold zrange. cbn. f_equal. lia. Qed.

(** on a row-sorted table, the records of rows < k+1 are those of rows < k followed by those of row k *)
Lemma filter_lt_succ l k : RowSorted l ->
  filter (fun x => rkey x <? k + 1) l = filter (fun x => rkey x <? k) l ++ filter (fun x => rkey x =? k) l.
Proof.
  induction l as [|a t IH]; intro H; [reflexivity|]. inversion H as [|? ? Ht Hall]; subst.
  cbn [filter]. destruct (rkey a <? k) eqn:E1.
  - replace (rkey a <? k + 1) with true by lia. replace (rkey a =? k) with false by lia. cbn [app]. f_equal. now apply IH.
  - assert (Ht0 : filter (fun x => rkey x <? k) t = []).
    { apply filter_nil_forall. intros x Hx. rewrite Forall_forall in Hall. specialize (Hall x Hx). lia. }
    rewrite Ht0. cbn [app]. destruct (rkey a =? k) eqn:E2.
    + replace (rkey a <? k + 1) with true by lia. f_equal. apply filter_ext_in. intros x Hx.
      rewrite Forall_forall in Hall. specialize (Hall x Hx). lia.
    + replace (rkey a <? k + 1) with false by lia. rewrite <- (app_nil_l (filter (fun x => rkey x =? k) t)), <- Ht0. now apply IH.
Qed.

Lemma concat_rows_lt l : RowSorted l -> (forall x, In x l -> 0 <= rkey x) ->
  forall m, concat (map (fun i => filter (fun x => rkey x =? i) l) (zrange 0 m)) = filter (fun x => rkey x <? Z.of_nat m) l.
Proof.
  intros Hs Hnn. induction m as [|m IH].
  - cbn. symmetry. apply filter_nil_forall. intros x Hx. specialize (Hnn x Hx). lia.
  - rewrite zrange_snoc, map_app, concat_app, IH. cbn [map concat]. rewrite app_nil_r.
    replace (Z.of_nat (S m)) with (Z.of_nat m + 1) by lia. rewrite (filter_lt_succ l (Z.of_nat m) Hs).
    replace (0 + Z.of_nat m) with (Z.of_nat m) by lia. reflexivity.
Qed.

Lemma firstn_map_zrange {B} (f : Z -> B) i n : (i <= n)%nat -> firstn i (map f (zrange 0 n)) = map f (zrange 0 i).
Proof.
  intro H. replace n with (i + (n - i))%nat by lia. rewrite zrange_app, map_app.
  rewrite firstn_app. rewrite map_length. unfold zrange at 2. rewrite map_length, seq_length.
  replace (i - i)%nat with 0%nat by lia. cbn [firstn]. rewrite app_nil_r.
  rewrite firstn_all2; [reflexivity|]. rewrite map_length. unfold zrange. rewrite map_length, seq_length. lia.
Qed.

(** a row-sorted table with row ids in [0, n) and the counting index form a valid CSR structure *)
Theorem csr_of_row_sorted n (l : list ipixel) : 0 <= n -> RowSorted l -> (forall x, In x l -> 0 <= rkey x < n) ->
  ValidCSR n l (map (fun b => zlen (filter (fun x => rkey x <? b) l)) (zrange 0 (Z.to_nat (n + 1)))).
Proof.
  intros Hn Hs Hr. exists (rows_of n l). unfold rows_of.
  assert (Hlen : zlen (map (fun i => filter (fun r => row (snd r) =? i) l) (zrange 0 (Z.to_nat n))) = n).
  { unfold zlen, zrange. rewrite !map_length, seq_length. lia. }
  split; [exact Hlen|]. split; [|split; [|apply labelled_rows_of]].
  - change (fun r : ipixel => row (snd r) =? ?i) with (fun x : ipixel => rkey x =? i).
    rewrite (concat_rows_lt l Hs) by (intros x Hx; specialize (Hr x Hx); lia).
    symmetry. rewrite <- (filter_ext_in (fun _ => true)).
    + clear. induction l as [|a t IH]; [reflexivity|]. cbn [filter]. now rewrite IH.
    + intros x Hx. specialize (Hr x Hx). lia.
  - set (rows := map (fun i => filter (fun r => row (snd r) =? i) l) (zrange 0 (Z.to_nat n))).
    apply nth_ext with (d := 0) (d' := 0).
    + unfold rows. rewrite psums_length, !map_length. unfold zrange. rewrite !map_length, !seq_length. lia.
    + intros i Hi. rewrite map_length in Hi. unfold zrange in Hi. rewrite map_length, seq_length in Hi.
      rewrite psums_nth by (unfold rows, zrange; rewrite !map_length, seq_length; lia).
      rewrite (nth_indep _ 0 ((fun b => zlen (filter (fun x => rkey x <? b) l)) 0))
        by (rewrite map_length; unfold zrange; rewrite map_length, seq_length; lia).
      rewrite (map_nth (fun b => zlen (filter (fun x => rkey x <? b) l))).
      unfold zrange at 1. rewrite (nth_indep _ 0 (0 + Z.of_nat 0)) by (rewrite map_length, seq_length; lia).
      rewrite (map_nth (fun k => 0 + Z.of_nat k)). rewrite seq_nth by lia.
      unfold rows. rewrite firstn_map_zrange by lia.
      change (fun r : ipixel => row (snd r) =? ?j) with (fun x : ipixel => rkey x =? j).
      rewrite (concat_rows_lt l Hs) by (intros x Hx; specialize (Hr x Hx); lia).
      replace (0 + Z.of_nat (0 + i)) with (Z.of_nat i) by lia. lia.
Qed.

(** * from the schema of C02 to the hypotheses of C03 *)
Lemma map_snd_enumerate {A} (l : list A) : map snd (enumerate l) = l.
Proof.
  unfold enumerate. generalize 0 as lo. induction l as [|a t IH]; intro lo; [reflexivity|].
  cbn [length]. rewrite zrange_S. cbn [combine map snd]. f_equal. apply IH.
Qed.
Lemma sorted_map_iff {A B} (R : B -> B -> Prop) (f : A -> B) l :
  StronglySorted R (map f l) -> StronglySorted (fun a b => R (f a) (f b)) l.
Proof.
  induction l as [|a t IH]; intro H; [constructor|]. cbn [map] in H. inversion H as [|? ? Ht Hall]; subst.
  constructor; [now apply IH|]. rewrite Forall_forall in *. intros x Hx. apply Hall. now apply in_map.
Qed.
Lemma sorted_weaken {A} (R S : A -> A -> Prop) l : (forall a b, R a b -> S a b) -> StronglySorted R l -> StronglySorted S l.
Proof.
  intros HRS H. induction H as [|a t Ht IH Hall]; constructor; [exact IH|]. eapply Forall_impl; [|exact Hall]. intros; now apply HRS.
Qed.
Lemma ssorted_row_sorted px : SSorted px -> RowSorted (epx_of px).
Proof.
  intro H. unfold RowSorted, epx_of. apply sorted_map_iff with (f := snd) (R := fun p q => row p <= row q).
  rewrite map_snd_enumerate. unfold SSorted, keys in H. apply sorted_map_iff in H.
  eapply sorted_weaken; [|exact H]. intros a b Hk. unfold klt, row in *. lia.
Qed.
Lemma ssorted_nodup_keys px : SSorted px -> NoDup (keys px).
Proof.
  unfold SSorted. generalize (keys px) as ks. intros ks H. induction H as [|k t Ht IH Hall]; constructor; [|exact IH].
  intro Hin. rewrite Forall_forall in Hall. apply Hall in Hin. exact (klt_irrefl k Hin).
Qed.
Lemma zlen_filter_map {A B} (f : A -> B) (g : B -> bool) l : zlen (filter g (map f l)) = zlen (filter (fun x => g (f x)) l).
Proof. unfold zlen. induction l as [|a t IH]; [reflexivity|]. cbn [map filter]. destruct (g (f a)); cbn [length]; lia. Qed.
Lemma map_row_pixels_of b1 b2 cs : length b1 = length b2 -> length b2 = length cs ->
  map row (combine (combine b1 b2) cs) = b1.
Proof.
  revert b2 cs; induction b1 as [|a t IH]; intros [|b b2] [|c cs] H1 H2; cbn in *; try lia; [reflexivity|].
  unfold row at 1; cbn [fst snd]. f_equal. apply IH; lia.
Qed.

Theorem stored_cooler_meets_query_hypotheses (c : Index.cooler) :
  IndexProofs.ValidCSR c ->
  ValidCSR (Index.nbins c) (epx_of (Index.pixels_of c)) (Index.bin1_offset c) /\
  (Index.symmetric_upper c = true -> Upper (epx_of (Index.pixels_of c))) /\
  NoDup (keys (map snd (epx_of (Index.pixels_of c)))) /\
  map snd (epx_of (Index.pixels_of c)) = Index.pixels_of c.
Proof.
  intros (H1 & H2 & H3 & Hs & Hr & Hu & Hoff & Hbc & _).
  set (px := Index.pixels_of c) in *.
  assert (Hmap : map snd (epx_of px) = px) by apply map_snd_enumerate.
  assert (Hn : 0 <= Index.nbins c) by (rewrite <- Hbc; apply zlen_nonneg).
  split; [|split; [|split; [rewrite Hmap; now apply ssorted_nodup_keys|exact Hmap]]].
  - rewrite Hoff. unfold Index.offsets_of.
    assert (Hb1 : Index.bin1 c = map row px).
    { unfold px, Index.pixels_of. symmetry. apply map_row_pixels_of; unfold zlen in *; lia. }
    rewrite (map_ext (Index.count_lt (Index.bin1 c)) (fun b => zlen (filter (fun x => rkey x <? b) (epx_of px)))).
    + apply csr_of_row_sorted; [exact Hn|now apply ssorted_row_sorted|].
      intros x Hx. assert (In (snd x) px) by (rewrite <- Hmap; now apply in_map). specialize (Hr (snd x) H). unfold rkey. lia.
    + intro b. unfold Index.count_lt. rewrite Hb1, zlen_filter_map. rewrite <- Hmap at 1. rewrite zlen_filter_map. reflexivity.
  - intros Hsym r Hin. apply (Hu Hsym). rewrite <- Hmap. now apply in_map.
Qed.

(** every range query on every collection that satisfies the schema is answered exactly:
    pixel output = the stored records in the window, matrix output = the sub-block of the symmetric matrix *)
Theorem stored_cooler_range_queries (c : Index.cooler) cs i0 i1 j0 j1 :
  IndexProofs.ValidCSR c -> 1 <= cs ->
  0 <= i0 -> i0 <= i1 -> i1 <= Index.nbins c -> 0 <= j0 -> j0 <= j1 -> j1 <= Index.nbins c ->
  let epx := epx_of (Index.pixels_of c) in
  let off := Index.bin1_offset c in
  direct_query epx off (get_spans off cs) (i0, i1, j0, j1) = filter (fun r => in_window (i0, i1, j0, j1) (snd r)) epx /\
  (Index.symmetric_upper c = true ->
   exists out, fill_lower_query epx off (get_spans off cs) (i0, i1, j0, j1) = Some out /\
     NoDup (keys (map snd out)) /\
     dense_of out (i0, i1, j0, j1) =
     map (fun i => map (fun j => symm (Index.pixels_of c) i j) (zrange j0 (Z.to_nat (j1 - j0)))) (zrange i0 (Z.to_nat (i1 - i0)))).
Proof.
  intros HV Hcs Hi0 Hi Hi1 Hj0 Hj Hj1 epx off.
  destruct (stored_cooler_meets_query_hypotheses c HV) as (HQ & HU & HN & Hmap). fold epx in HQ, HU, HN, Hmap. fold off in HQ.
  split; [apply (direct_query_get_spans (Index.nbins c)); assumption|].
  intro Hsym. specialize (HU Hsym).
  destruct (dense_eq_slice (Index.nbins c) epx off HQ (linspace_cuts cs) (linspace_cuts_ok cs Hcs) i0 i1 j0 j1) as [out [Ho Hd]]; try assumption.
  destruct (fill_lower_nodup (Index.nbins c) epx off HQ (linspace_cuts cs) (linspace_cuts_ok cs Hcs) i0 i1 j0 j1) as [out' [Ho' Hn']]; try assumption.
  rewrite Ho in Ho'. inversion Ho'; subst out'.
  exists out. rewrite fill_lower_get_spans_eq. split; [exact Ho|]. split; [exact Hn'|]. rewrite Hd, Hmap. reflexivity.
Qed.

(** create (C01/C02 model) followed by the query engine (C03 model): what is read through the real engine
    model is the matrix that was given, for every window and chunk size *)
Theorem create_then_query n_chroms chroms (px : list pixel) cs i0 i1 j0 j1 :
  0 <= n_chroms -> IndexProofs.NonDecr chroms -> (forall x, In x chroms -> 0 <= x < n_chroms) ->
  SSorted px ->
  (forall p, In p px -> 0 <= row p < zlen chroms /\ 0 <= col p < zlen chroms) ->
  (forall p, In p px -> row p <= col p) ->
  1 <= cs -> 0 <= i0 -> i0 <= i1 -> i1 <= zlen chroms -> 0 <= j0 -> j0 <= j1 -> j1 <= zlen chroms ->
  exists c, Index.create_model n_chroms chroms px true = Some c /\ Index.pixels_of c = px /\
    direct_query (epx_of px) (Index.bin1_offset c) (get_spans (Index.bin1_offset c) cs) (i0, i1, j0, j1)
      = filter (fun r => in_window (i0, i1, j0, j1) (snd r)) (epx_of px) /\
    exists out, fill_lower_query (epx_of px) (Index.bin1_offset c) (get_spans (Index.bin1_offset c) cs) (i0, i1, j0, j1) = Some out /\
      NoDup (keys (map snd out)) /\
      dense_of out (i0, i1, j0, j1) =
      map (fun i => map (fun j => symm px i j) (zrange j0 (Z.to_nat (j1 - j0)))) (zrange i0 (Z.to_nat (i1 - i0))).
Proof.
  intros Hnc Hch Hcr Hs Hr Hu Hcs Hi0 Hi Hi1 Hj0 Hj Hj1.
  destruct (IndexProofs.create_valid n_chroms chroms px true Hnc Hch Hcr Hs Hr (fun _ => Hu)) as [c (Hc & HV & Hpx & Hnb & _ & Hsym)].
  exists c. split; [exact Hc|]. split; [exact Hpx|].
  pose proof (stored_cooler_range_queries c cs i0 i1 j0 j1 HV Hcs Hi0 Hi ltac:(lia) Hj0 Hj ltac:(lia)) as Hq.
  cbv zeta in Hq. rewrite Hpx in Hq. destruct Hq as [Hd Hf]. split; [exact Hd|]. exact (Hf Hsym).
Qed.
