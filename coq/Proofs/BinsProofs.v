(** Proofs about binnify / get_binsize / get_chromsizes (C20, reused by C04 C05 C07 C08) *)
From Cooler Require Import Model.Bins.
From Coq Require Import ZifyBool Permutation.
Ltac Zify.zify_post_hook ::= Z.to_euclidean_division_equations.

(* ------------------------------------------------------------ list helpers *)
Lemma zrange_S lo n : zrange lo (S n) = zrange lo n ++ [lo + Z.of_nat n].
Proof. unfold zrange. rewrite seq_S, map_app. reflexivity. Qed.

Lemma zrange_cons lo n : zrange lo (S n) = lo :: zrange (lo + 1) n.
Proof.
  unfold zrange. cbn [seq map]. f_equal; [lia|].
  rewrite <- seq_shift, map_map. apply map_ext. intros; lia.
Qed.

Lemma zrange_length lo n : length (zrange lo n) = n.
Proof. unfold zrange. now rewrite map_length, seq_length. Qed.

Lemma in_zrange lo n x : In x (zrange lo n) <-> lo <= x < lo + Z.of_nat n.
Proof.
  unfold zrange. rewrite in_map_iff. split.
  - intros [k [<- Hk]]. apply in_seq in Hk. lia.
  - intros H. exists (Z.to_nat (x - lo)). split; [lia|]. apply in_seq. lia.
Qed.

Lemma combine_snoc {A B} (l : list A) (r : list B) a b0 :
  length l = length r -> combine (l ++ [a]) (r ++ [b0]) = combine l r ++ [(a, b0)].
Proof.
  revert r. induction l as [|x l IH]; intros [|y r] H; cbn in *; try discriminate; auto.
  f_equal. apply IH. congruence.
Qed.

Lemma combine_shift (f : Z -> Z) lo n :
  combine (map f (zrange lo n)) (map f (zrange (lo + 1) n))
  = map (fun k => (f k, f (k + 1))) (zrange lo n).
Proof.
  revert lo. induction n as [|n IH]; intros lo; [reflexivity|].
  rewrite !zrange_cons. cbn [map combine]. f_equal. apply IH.
Qed.

(* ---------------------------------------------------------------- binnify *)
Theorem binnify_chrom_spec c L b :
  1 <= L -> 1 <= b -> binnify_chrom c L b = ideal_chrom c L b.
Proof.
  intros HL Hb. unfold binnify_chrom, ideal_chrom.
  remember (Z.to_nat (cdiv L b)) as n eqn:Hn.
  assert (Hn1 : (1 <= n)%nat) by (unfold cdiv in Hn; lia).
  destruct n as [|m]; [lia|].
  assert (Hm : Z.of_nat m * b < L <= (Z.of_nat m + 1) * b) by (unfold cdiv in Hn; nia).
  rewrite (zrange_S 0 (S m)), map_app. cbn [map].
  unfold set_last.
  destruct (map (fun k : Z => k * b) (zrange 0 (S m)) ++ [(0 + Z.of_nat (S m)) * b]) eqn:E.
  { apply app_eq_nil in E. destruct E; discriminate. }
  rewrite <- E. rewrite removelast_last. rewrite removelast_last.
  rewrite zrange_cons at 2. cbn [map app tl].
  rewrite (zrange_S 0 m) at 1. rewrite map_app. cbn [map].
  rewrite combine_snoc by (rewrite !map_length, !zrange_length; reflexivity).
  replace (0 + 1) with 1 by lia.
  replace 1 with (0 + 1) at 1 by lia.
  rewrite combine_shift, map_app, map_map. cbn [map fst snd].
  rewrite (zrange_S 0 m), map_app. cbn [map]. f_equal.
  - apply map_ext_in. intros k Hk. apply in_zrange in Hk. unfold ideal_bin. cbn [fst snd].
    f_equal. nia.
  - unfold ideal_bin. f_equal. f_equal. nia.
Qed.

(** Tiled c s l : all bins of l carry chromosome c, the first starts at s, each
    next bin starts where the previous ended, no bin is empty *)
Inductive Tiled (c : Z) : Z -> list bin -> Prop :=
| Tiled_nil s : Tiled c s []
| Tiled_cons s e l : s < e -> Tiled c e l -> Tiled c s ((c, s, e) :: l).

Lemma tiled_b_spec c s l : tiled_b c s l = true <-> Tiled c s l.
Proof.
  revert s. induction l as [|[[c' s'] e] l IH]; intros s; cbn.
  - split; auto using Tiled_nil.
  - unfold bchrom, bstart, bend; cbn [fst snd]. split.
    + intros H. apply andb_prop in H as [H H4]. apply andb_prop in H as [H H3].
      apply andb_prop in H as [H1 H2].
      assert (c' = c) by lia. assert (s' = s) by lia. subst.
      constructor; [lia|]. now apply IH.
    + intros H. inversion H as [|s0 e0 l0 Hse HT']; subst. apply IH in HT'. rewrite HT'.
      rewrite !Z.eqb_refl. cbn. lia.
Qed.

Definition chrom_end (blk : list bin) : Z := bend (last blk (0, 0, 0)).

Lemma ideal_chrom_tiled_from c L b (n : nat) lo :
  1 <= b -> lo * b < L -> (lo + Z.of_nat n - 1) * b < L \/ n = 0%nat ->
  Tiled c (lo * b) (map (ideal_bin c L b) (zrange lo n)).
Proof.
  intros Hb. revert lo. induction n as [|n IH]; intros lo Hlo Hn; [constructor|].
  rewrite zrange_cons. cbn [map]. unfold ideal_bin at 1.
  destruct (Z.min_spec ((lo + 1) * b) L) as [[Hlt ->]|[Hge ->]].
  - constructor; [nia|]. apply IH; [lia|]. destruct n; [now right|left; nia].
  - destruct n.
    + constructor; [lia|constructor].
    + exfalso. destruct Hn as [Hn|Hn]; [nia|discriminate].
Qed.

Theorem ideal_chrom_tiled c L b : 1 <= L -> 1 <= b -> Tiled c 0 (ideal_chrom c L b).
Proof.
  intros HL Hb. unfold ideal_chrom.
  change 0 with (0 * b) at 1. apply ideal_chrom_tiled_from; [lia|lia|].
  left. unfold cdiv. nia.
Qed.

Lemma ideal_chrom_nonempty c L b : 1 <= L -> 1 <= b -> ideal_chrom c L b <> [].
Proof.
  intros HL Hb. unfold ideal_chrom.
  assert (1 <= cdiv L b) by (unfold cdiv; nia).
  destruct (Z.to_nat (cdiv L b)) eqn:E; [lia|]. rewrite zrange_cons. discriminate.
Qed.

Lemma ideal_chrom_end c L b : 1 <= L -> 1 <= b -> chrom_end (ideal_chrom c L b) = L.
Proof.
  intros HL Hb. unfold chrom_end, ideal_chrom.
  assert (1 <= cdiv L b) by (unfold cdiv; nia).
  destruct (Z.to_nat (cdiv L b)) eqn:E; [lia|].
  rewrite zrange_S, map_app. cbn [map]. rewrite last_last. unfold ideal_bin, bend; cbn [snd].
  unfold cdiv in *. nia.
Qed.

(* ------------------------------------------------- the shape forced by a tiling *)
(** a tiled run whose non-last bins all have width b and whose last bin has a
    width in [1, b] is exactly the ideal fixed-width chromosome *)
Lemma tiled_fixed_is_ideal c b : 1 <= b ->
  forall blk k,
  Tiled c (k * b) blk -> blk <> [] -> 0 <= k ->
  (forall w, In w (removelast (map bwidth blk)) -> w = b) ->
  last (map bwidth blk) 0 <= b ->
  blk = map (ideal_bin c (chrom_end blk) b) (zrange k (length blk)).
Proof.
  intros Hb blk. induction blk as [|x blk IH]; intros k HT Hne Hk Hw Hl; [congruence|].
  inversion HT as [|s e l Hse HT']; subst.
  destruct blk as [|y blk].
  - cbn in *. unfold chrom_end, ideal_bin, bwidth, bend, bstart in *; cbn [last fst snd] in *.
    rewrite Z.add_0_r. f_equal. f_equal. lia.
  - assert (He : e = (k + 1) * b).
    { specialize (Hw (bwidth (c, k * b, e))). cbn in Hw. unfold bwidth, bend, bstart in Hw; cbn [fst snd] in Hw.
      assert (e - k * b = b) by (apply Hw; now left). lia. }
    subst e. cbn [length]. rewrite zrange_cons. cbn [map].
    change (chrom_end (_ :: y :: blk)) with (chrom_end (y :: blk)).
    assert (IH' := IH (k + 1) HT' ltac:(discriminate) ltac:(lia)).
    assert (Hend : (k + 1) * b < chrom_end (y :: blk)).
    { clear - HT'. remember (y :: blk) as l. remember ((k + 1) * b) as s.
      assert (Hl : l <> []) by (subst; discriminate). clear Heql Heqs.
      induction HT' as [|s e l Hse HT IHT]; [congruence|].
      destruct l; [unfold chrom_end, bend; cbn; lia|].
      assert (e < chrom_end (b0 :: l)) by (apply IHT; discriminate).
      unfold chrom_end in *. cbn [last] in *. lia. }
    f_equal.
    + unfold ideal_bin. f_equal. lia.
    + apply IH'.
      * intros w Hin. apply Hw. cbn [map removelast] in *. right. exact Hin.
      * cbn [map last] in *. exact Hl.
Qed.

(* ------------------------------------------------------------- valid tables *)
Definition ValidBlocks (blocks : list (list bin)) : Prop :=
  forall i blk, nth_error blocks i = Some blk -> blk <> [] /\ Tiled (Z.of_nat i) 0 blk.

Lemma tiled_chrom c s l x : Tiled c s l -> In x l -> bchrom x = c.
Proof. induction 1; intros Hin; [easy|]. destruct Hin as [<-|Hin]; auto. Qed.

Lemma tiled_width_pos c s l x : Tiled c s l -> In x l -> 1 <= bwidth x.
Proof.
  induction 1; intros Hin; [easy|]. destruct Hin as [<-|Hin]; auto.
  unfold bwidth, bend, bstart; cbn; lia.
Qed.

Lemma rows_of_concat blocks c :
  rows_of (concat blocks) c = concat (map (fun blk => rows_of blk c) blocks).
Proof.
  unfold rows_of. induction blocks as [|b0 bs IH]; [reflexivity|].
  cbn [concat map]. now rewrite filter_app, IH.
Qed.

Lemma filter_all {A} (f : A -> bool) l : (forall x, In x l -> f x = true) -> filter f l = l.
Proof.
  induction l as [|x l IH]; intros H; [reflexivity|]. cbn.
  rewrite (H x (or_introl eq_refl)). f_equal. apply IH. intros; apply H; now right.
Qed.
Lemma filter_none {A} (f : A -> bool) l : (forall x, In x l -> f x = false) -> filter f l = [].
Proof.
  induction l as [|x l IH]; intros H; [reflexivity|]. cbn.
  rewrite (H x (or_introl eq_refl)). apply IH. intros; apply H; now right.
Qed.

(** in a valid table the group of chromosome i is block i *)
Lemma rows_of_valid blocks :
  ValidBlocks blocks ->
  forall i blk, nth_error blocks i = Some blk -> rows_of (concat blocks) (Z.of_nat i) = blk.
Proof.
  intros HV i blk Hi. rewrite rows_of_concat.
  assert (Hsplit := nth_error_split blocks i Hi). destruct Hsplit as [l1 [l2 [-> Hlen]]].
  rewrite map_app, concat_app. cbn [map concat].
  assert (H1 : concat (map (fun blk0 => rows_of blk0 (Z.of_nat i)) l1) = []).
  { apply concat_nil_Forall. apply Forall_map. apply Forall_forall. intros blk' Hin.
    apply In_nth_error in Hin as [j Hj].
    assert (Hjlt : (j < length l1)%nat) by (apply nth_error_Some; congruence).
    destruct (HV j blk') as [_ HT]. { rewrite nth_error_app1; auto. }
    apply filter_none. intros x Hx. rewrite (tiled_chrom _ _ _ _ HT Hx). lia. }
  assert (H2 : concat (map (fun blk0 => rows_of blk0 (Z.of_nat i)) l2) = []).
  { apply concat_nil_Forall. apply Forall_map. apply Forall_forall. intros blk' Hin.
    apply In_nth_error in Hin as [j Hj].
    destruct (HV (length l1 + S j)%nat blk') as [_ HT].
    { rewrite nth_error_app2 by lia. replace (length l1 + S j - length l1)%nat with (S j) by lia. exact Hj. }
    apply filter_none. intros x Hx. rewrite (tiled_chrom _ _ _ _ HT Hx). lia. }
  rewrite H1, H2, app_nil_r. cbn [app].
  destruct (HV i blk) as [_ HT]. { subst i. rewrite nth_error_app2, Nat.sub_diag by lia. reflexivity. }
  apply filter_all. intros x Hx. rewrite (tiled_chrom _ _ _ _ HT Hx). lia.
Qed.

Lemma chroms_of_valid blocks :
  ValidBlocks blocks ->
  forall c, In c (chroms_of (concat blocks)) <-> exists i, (i < length blocks)%nat /\ c = Z.of_nat i.
Proof.
  intros HV c. unfold chroms_of. rewrite nodup_In, in_map_iff. split.
  - intros [x [<- Hx]]. apply in_concat in Hx as [blk [Hblk Hx]].
    apply In_nth_error in Hblk as [i Hi]. exists i. split.
    + apply nth_error_Some. congruence.
    + destruct (HV i blk Hi) as [_ HT]. apply (tiled_chrom _ _ _ _ HT Hx).
  - intros [i [Hi ->]]. destruct (nth_error blocks i) as [blk|] eqn:E.
    2:{ apply nth_error_None in E. lia. }
    destruct (HV i blk E) as [Hne HT]. destruct blk as [|x blk]; [congruence|].
    exists x. split.
    + apply (tiled_chrom _ _ _ _ HT). now left.
    + apply in_concat. exists (x :: blk). split; [eapply nth_error_In; eauto|now left].
Qed.

(* ------------------------------------------------------- get_binsize is truthful *)
Theorem binsize_truthful blocks b :
  ValidBlocks blocks -> get_binsize (concat blocks) = Some b ->
  1 <= b /\
  forall i blk, nth_error blocks i = Some blk ->
    blk = ideal_chrom (Z.of_nat i) (chrom_end blk) b.
Proof.
  intros HV H. unfold get_binsize in H.
  set (t := concat blocks) in *.
  set (groups := map (fun c => map bwidth (rows_of t c)) (chroms_of t)) in *.
  destruct (nodup Z.eq_dec (concat (map (@removelast Z) groups))) as [|b' [|? ?]] eqn:Es; try discriminate.
  destruct (existsb (fun w => b' <? w) (map (fun g => last g 0) groups)) eqn:El; [discriminate|].
  injection H as ->.
  assert (Hsz : forall w, In w (concat (map (@removelast Z) groups)) <-> w = b).
  { intros w. rewrite <- (nodup_In Z.eq_dec), Es. cbn. intuition. }
  assert (Hgrp : forall i blk, nth_error blocks i = Some blk -> In (map bwidth blk) groups).
  { intros i blk Hi. unfold groups. apply in_map_iff. exists (Z.of_nat i). split.
    - unfold t. now rewrite (rows_of_valid _ HV i blk Hi).
    - apply chroms_of_valid; auto. exists i. split; auto. apply nth_error_Some. congruence. }
  assert (Hb : 1 <= b).
  { assert (Hin : In b (concat (map (@removelast Z) groups))) by now apply Hsz.
    apply in_concat in Hin as [g [Hg Hbg]]. apply in_map_iff in Hg as [g0 [<- Hg0]].
    unfold groups in Hg0. apply in_map_iff in Hg0 as [c [<- Hc]].
    apply chroms_of_valid in Hc as [i [Hi ->]]; auto.
    destruct (nth_error blocks i) as [blk|] eqn:E; [|apply nth_error_None in E; lia].
    unfold t in Hbg. rewrite (rows_of_valid _ HV i blk E) in Hbg.
    destruct (HV i blk E) as [_ HT].
    assert (Hin : In b (map bwidth blk)).
    { clear - Hbg. induction (map bwidth blk) as [|a l IHl]; [easy|]. cbn in Hbg.
      destruct l; [easy|]. destruct Hbg as [->|Hbg]; [now left|right; auto]. }
    apply in_map_iff in Hin as [x [<- Hx]]. eapply tiled_width_pos; eauto. }
  split; [exact Hb|].
  intros i blk Hi. destruct (HV i blk Hi) as [Hne HT].
  assert (Hg := Hgrp i blk Hi).
  assert (Hlen : cdiv (chrom_end blk) b = Z.of_nat (length blk) /\
                 blk = map (ideal_bin (Z.of_nat i) (chrom_end blk) b) (zrange 0 (length blk))).
  { assert (Hw : forall w, In w (removelast (map bwidth blk)) -> w = b).
    { intros w Hw. apply Hsz. apply in_concat. exists (removelast (map bwidth blk)). split; auto.
      apply in_map_iff. eauto. }
    assert (Hl : last (map bwidth blk) 0 <= b).
    { destruct (Z.leb_spec (last (map bwidth blk) 0) b) as [|Hgt]; auto.
      exfalso. apply Bool.not_true_iff_false in El. apply El. apply existsb_exists.
      exists (last (map bwidth blk) 0). split; [|lia]. apply in_map_iff. eauto. }
    assert (Hid := tiled_fixed_is_ideal (Z.of_nat i) b Hb blk 0 ltac:(exact HT) Hne ltac:(lia) Hw Hl).
    split; [|exact Hid].
    (* chrom_end = (len-1)*b + lastwidth *)
    clear - Hb Hne HT Hw Hl.
    assert (Hgen : forall k, Tiled (Z.of_nat i) (k * b) blk -> blk <> [] ->
                   (forall w, In w (removelast (map bwidth blk)) -> w = b) ->
                   last (map bwidth blk) 0 <= b ->
                   (k + Z.of_nat (length blk) - 1) * b < chrom_end blk <= (k + Z.of_nat (length blk)) * b).
    { clear HT Hne Hw Hl. induction blk as [|x blk IH]; intros k HT Hne Hw Hl; [congruence|].
      inversion HT as [|s e l Hse HT']; subst.
      destruct blk as [|y blk].
      - unfold chrom_end, bwidth, bend, bstart in *; cbn in *. nia.
      - assert (e = (k + 1) * b).
        { assert (e - k * b = b). { apply Hw. cbn. left. reflexivity. } lia. }
        subst e.
        assert (IH' := IH (k + 1) HT' ltac:(discriminate)
                  ltac:(intros w Hin; apply Hw; cbn [map removelast] in *; right; exact Hin)
                  ltac:(cbn [map last] in *; exact Hl)).
        change (chrom_end ((Z.of_nat i, k * b, (k + 1) * b) :: y :: blk)) with (chrom_end (y :: blk)).
        cbn [length] in *. lia. }
    specialize (Hgen 0 HT Hne Hw Hl). unfold cdiv. nia. }
  destruct Hlen as [Hc Hid]. unfold ideal_chrom. rewrite Hc, Nat2Z.id. exact Hid.
Qed.

Lemma nth_error_ext' {A} (l l' : list A) :
  (forall n, nth_error l n = nth_error l' n) -> l = l'.
Proof.
  revert l'. induction l as [|a l IH]; intros [|b0 l'] H; auto.
  - specialize (H 0%nat); discriminate.
  - specialize (H 0%nat); discriminate.
  - f_equal.
    + specialize (H 0%nat). cbn in H. congruence.
    + apply IH. intros n. apply (H (S n)).
Qed.

(** two valid tables with the same chromosome lengths that both report size b are equal *)
Corollary fixed_table_determined blocks1 blocks2 b :
  ValidBlocks blocks1 -> ValidBlocks blocks2 ->
  get_binsize (concat blocks1) = Some b -> get_binsize (concat blocks2) = Some b ->
  map chrom_end blocks1 = map chrom_end blocks2 ->
  blocks1 = blocks2.
Proof.
  intros V1 V2 H1 H2 Hlen.
  destruct (binsize_truthful _ _ V1 H1) as [_ T1].
  destruct (binsize_truthful _ _ V2 H2) as [_ T2].
  apply nth_error_ext'. intros i.
  assert (Hl : length blocks1 = length blocks2) by (rewrite <- (map_length chrom_end blocks1), Hlen, map_length; reflexivity).
  destruct (nth_error blocks1 i) as [b1|] eqn:E1, (nth_error blocks2 i) as [b2|] eqn:E2.
  - rewrite (T1 i b1 E1), (T2 i b2 E2). f_equal. f_equal.
    assert (nth_error (map chrom_end blocks1) i = nth_error (map chrom_end blocks2) i) by now rewrite Hlen.
    rewrite !nth_error_map, E1, E2 in H. cbn in H. congruence.
  - apply nth_error_None in E2. assert (i < length blocks1)%nat by (apply nth_error_Some; congruence). lia.
  - apply nth_error_None in E1. assert (i < length blocks2)%nat by (apply nth_error_Some; congruence). lia.
  - reflexivity.
Qed.

(* ------------------------------------------------------------ binnify is valid *)
Definition binnify_blocks (sizes : list Z) (b : Z) : list (list bin) :=
  map (fun ci => binnify_chrom (fst ci) (snd ci) b) (enumerate sizes).

Lemma binnify_concat sizes b : binnify sizes b = concat (binnify_blocks sizes b).
Proof. reflexivity. Qed.

Lemma nth_error_zrange lo n i : (i < n)%nat -> nth_error (zrange lo n) i = Some (lo + Z.of_nat i).
Proof.
  intros H. unfold zrange. rewrite nth_error_map.
  rewrite (nth_error_nth' _ 0%nat) by now rewrite seq_length.
  rewrite seq_nth by lia. reflexivity.
Qed.

Lemma nth_error_combine {A B} (l : list A) (r : list B) i a b0 :
  nth_error l i = Some a -> nth_error r i = Some b0 -> nth_error (combine l r) i = Some (a, b0).
Proof.
  revert r i. induction l as [|x l IH]; intros [|y r] [|i] Ha Hb; cbn in *; try discriminate.
  - congruence.
  - now apply IH.
Qed.

Lemma nth_error_enumerate {A} (l : list A) i x :
  nth_error l i = Some x -> nth_error (enumerate l) i = Some (Z.of_nat i, x).
Proof.
  intros H. unfold enumerate. apply nth_error_combine; auto.
  rewrite nth_error_zrange; [reflexivity|]. apply nth_error_Some. congruence.
Qed.

Lemma enumerate_length {A} (l : list A) : length (enumerate l) = length l.
Proof. unfold enumerate. rewrite combine_length, zrange_length. lia. Qed.

Theorem binnify_blocks_spec sizes b :
  Forall (fun L => 1 <= L) sizes -> 1 <= b ->
  length (binnify_blocks sizes b) = length sizes /\
  forall i L, nth_error sizes i = Some L ->
    nth_error (binnify_blocks sizes b) i = Some (ideal_chrom (Z.of_nat i) L b).
Proof.
  intros HL Hb. unfold binnify_blocks. split.
  - now rewrite map_length, enumerate_length.
  - intros i L Hi. rewrite nth_error_map, (nth_error_enumerate _ _ _ Hi). cbn [option_map fst snd].
    f_equal. apply binnify_chrom_spec; auto.
    rewrite Forall_forall in HL. apply HL. eapply nth_error_In; eauto.
Qed.

Theorem binnify_valid sizes b :
  Forall (fun L => 1 <= L) sizes -> 1 <= b ->
  ValidBlocks (binnify_blocks sizes b) /\ map chrom_end (binnify_blocks sizes b) = sizes.
Proof.
  intros HL Hb. destruct (binnify_blocks_spec sizes b HL Hb) as [Hlen Hnth].
  assert (HLi : forall i L, nth_error sizes i = Some L -> 1 <= L).
  { intros i L Hi. rewrite Forall_forall in HL. apply HL. eapply nth_error_In; eauto. }
  split.
  - intros i blk Hi.
    destruct (nth_error sizes i) as [L|] eqn:E.
    + rewrite (Hnth i L E) in Hi. injection Hi as <-. split.
      * apply ideal_chrom_nonempty; eauto.
      * apply ideal_chrom_tiled; eauto.
    + apply nth_error_None in E. assert (i < length (binnify_blocks sizes b))%nat by (apply nth_error_Some; congruence). lia.
  - apply nth_error_ext'. intros i. rewrite nth_error_map.
    destruct (nth_error sizes i) as [L|] eqn:E.
    + rewrite (Hnth i L E). cbn. f_equal. apply ideal_chrom_end; eauto.
    + apply nth_error_None in E.
      assert (H : nth_error (binnify_blocks sizes b) i = None) by (apply nth_error_None; lia).
      now rewrite H.
Qed.

(* -------------------------------------------------------------- get_chromsizes *)
Lemma gc_block c s blk rest :
  Tiled c s blk -> blk <> [] -> (forall y, In y rest -> bchrom y <> c) ->
  get_chromsizes (blk ++ rest) = (c, chrom_end blk) :: get_chromsizes rest.
Proof.
  intros HT. induction HT as [|s e l Hse HT IH]; intros Hne Hrest; [congruence|].
  cbn [app get_chromsizes]. unfold bchrom at 2; cbn [fst].
  destruct l as [|y l].
  - cbn [app]. destruct (existsb (fun y => bchrom y =? c) rest) eqn:E.
    + apply existsb_exists in E as [y [Hy Hc]]. exfalso. apply (Hrest y Hy). lia.
    + reflexivity.
  - assert (Hy : bchrom y = c) by (eapply tiled_chrom; [exact HT|now left]).
    cbn [app existsb]. rewrite Hy, Z.eqb_refl. cbn [orb].
    change (y :: l ++ rest) with ((y :: l) ++ rest).
    rewrite IH; [reflexivity|discriminate|exact Hrest].
Qed.

Inductive BlocksFrom : Z -> list (list bin) -> Prop :=
| BF_nil o : BlocksFrom o []
| BF_cons o blk rest : blk <> [] -> Tiled o 0 blk -> BlocksFrom (o + 1) rest -> BlocksFrom o (blk :: rest).

Lemma blocksfrom_chrom o blocks : BlocksFrom o blocks -> forall y, In y (concat blocks) -> o <= bchrom y.
Proof.
  induction 1 as [|o blk rest Hne HT HB IH]; intros y Hy; [easy|].
  cbn in Hy. apply in_app_or in Hy as [Hy|Hy].
  - rewrite (tiled_chrom _ _ _ _ HT Hy). lia.
  - specialize (IH y Hy). lia.
Qed.

Lemma valid_blocksfrom blocks : ValidBlocks blocks -> BlocksFrom 0 blocks.
Proof.
  intros HV.
  assert (H : forall (k : nat) bl, (forall i blk, nth_error bl i = Some blk -> blk <> [] /\ Tiled (Z.of_nat (k + i)) 0 blk) ->
              BlocksFrom (Z.of_nat k) bl).
  { intros k bl. revert k. induction bl as [|blk bl IH]; intros k H; [constructor|].
    destruct (H 0%nat blk eq_refl) as [Hne HT]. rewrite Nat.add_0_r in HT.
    constructor; auto. replace (Z.of_nat k + 1) with (Z.of_nat (S k)) by lia. apply IH.
    intros i blk' Hi. replace (S k + i)%nat with (k + S i)%nat by lia. apply H. exact Hi. }
  apply (H 0%nat). exact HV.
Qed.

Lemma gc_blocksfrom o blocks :
  BlocksFrom o blocks ->
  get_chromsizes (concat blocks) = combine (zrange o (length blocks)) (map chrom_end blocks).
Proof.
  induction 1 as [|o blk rest Hne HT HB IH]; [reflexivity|].
  cbn [concat length map]. rewrite zrange_cons. cbn [combine].
  rewrite (gc_block o 0 blk (concat rest) HT Hne).
  - now rewrite IH.
  - intros y Hy. assert (o + 1 <= bchrom y) by (eapply blocksfrom_chrom; eauto). lia.
Qed.

(** inferred chromosome lengths = ends of the last bins, in order *)
Theorem chromsizes_spec blocks :
  ValidBlocks blocks ->
  get_chromsizes (concat blocks) = combine (zrange 0 (length blocks)) (map chrom_end blocks).
Proof. intros HV. apply gc_blocksfrom. now apply valid_blocksfrom. Qed.

(** the boolean validity check is sound *)
Lemma valid_blocks_b_sound blocks : valid_blocks_b blocks = true -> ValidBlocks blocks.
Proof.
  unfold valid_blocks_b. rewrite forallb_forall. intros H i blk Hi.
  specialize (H (Z.of_nat i, blk) ltac:(eapply nth_error_In; apply nth_error_enumerate; eauto)).
  cbn [fst snd] in H. apply andb_prop in H as [H1 H2]. split.
  - destruct blk; [discriminate|discriminate].
  - now apply tiled_b_spec.
Qed.
