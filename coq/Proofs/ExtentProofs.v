(** Proofs for C04: a genomic range maps to exactly the bins that overlap it. *)
From Cooler Require Import Model.Extent Proofs.BinsProofs.
From Coq Require Import ZifyBool Sorted.
Ltac Zify.zify_post_hook ::= Z.to_euclidean_division_equations.

(* ------------------------------------------------------------ searchsorted on sorted lists *)
Lemma ss_left_bounds l x : 0 <= searchsorted_left l x <= zlen l.
Proof.
  unfold zlen. induction l as [|y l IH]; cbn [searchsorted_left length]; [lia|].
  destruct (y <? x); lia.
Qed.

Lemma ss_right_bounds l x : 0 <= searchsorted_right l x <= zlen l.
Proof.
  unfold zlen. induction l as [|y l IH]; cbn [searchsorted_right length]; [lia|].
  destruct (y <=? x); lia.
Qed.

(** position k lies left of the insertion point iff the element there is smaller *)
Lemma ss_left_nth l x : StronglySorted Z.le l ->
  forall k y, nth_error l k = Some y -> (Z.of_nat k < searchsorted_left l x <-> y < x).
Proof.
  induction 1 as [|y0 l HS IH Hall]; intros k y Hk; [destruct k; discriminate|].
  cbn [searchsorted_left]. pose proof (ss_left_bounds l x) as Hb.
  destruct k as [|k]; cbn in Hk.
  - injection Hk as ->. destruct (y <? x) eqn:E; lia.
  - destruct (y0 <? x) eqn:E.
    + specialize (IH k y Hk). lia.
    + apply nth_error_In in Hk. rewrite Forall_forall in Hall. specialize (Hall y Hk). lia.
Qed.

Lemma ss_right_nth l x : StronglySorted Z.le l ->
  forall k y, nth_error l k = Some y -> (Z.of_nat k < searchsorted_right l x <-> y <= x).
Proof.
  induction 1 as [|y0 l HS IH Hall]; intros k y Hk; [destruct k; discriminate|].
  cbn [searchsorted_right]. pose proof (ss_right_bounds l x) as Hb.
  destruct k as [|k]; cbn in Hk.
  - injection Hk as ->. destruct (y <=? x) eqn:E; lia.
  - destruct (y0 <=? x) eqn:E.
    + specialize (IH k y Hk). lia.
    + apply nth_error_In in Hk. rewrite Forall_forall in Hall. specialize (Hall y Hk). lia.
Qed.

Lemma ss_right_le_left l s e : s < e -> searchsorted_right l s <= searchsorted_left l e.
Proof.
  intros Hse. induction l as [|y l IH]; cbn [searchsorted_left searchsorted_right]; [lia|].
  pose proof (ss_left_bounds l e). destruct (y <=? s) eqn:E1, (y <? e) eqn:E2; lia.
Qed.

Lemma ss_left_le_right l s : searchsorted_left l s <= searchsorted_right l s.
Proof.
  induction l as [|y l IH]; cbn [searchsorted_left searchsorted_right]; [lia|].
  pose proof (ss_right_bounds l s). destruct (y <=? s) eqn:E1, (y <? s) eqn:E2; lia.
Qed.

(** on a strictly increasing list at most one element equals s *)
Lemma ss_right_le_left_succ l s : StronglySorted Z.lt l ->
  searchsorted_right l s <= searchsorted_left l s + 1.
Proof.
  induction 1 as [|y l HS IH Hall]; cbn [searchsorted_left searchsorted_right]; [lia|].
  destruct (y <=? s) eqn:E1, (y <? s) eqn:E2; try lia.
  (* y = s : every later element is > s *)
  assert (y = s) by lia. subst y.
  destruct l as [|z l]; cbn [searchsorted_left searchsorted_right]; [lia|].
  inversion Hall as [|? ? Hz _]; subst. destruct (z <=? s) eqn:E3; lia.
Qed.

(* ------------------------------------------------------------ structure of a tiled block *)
Lemma tiled_start_ge c s0 blk : Tiled c s0 blk -> forall x, In x blk -> s0 <= bstart x.
Proof.
  induction 1 as [|s e l Hse HT IH]; intros x Hin; [easy|].
  destruct Hin as [<-|Hin]; [cbn; lia|]. specialize (IH x Hin). lia.
Qed.

Lemma tiled_start_gt c s0 e0 blk : s0 < e0 -> Tiled c e0 blk -> Forall (fun y => s0 < y) (map bstart blk).
Proof.
  intros Hlt HT. apply Forall_forall. intros y Hy. apply in_map_iff in Hy as [x [<- Hx]].
  pose proof (tiled_start_ge _ _ _ HT x Hx). lia.
Qed.

Lemma tiled_starts_ssorted c s0 blk : Tiled c s0 blk -> StronglySorted Z.lt (map bstart blk).
Proof.
  induction 1 as [|s e l Hse HT IH]; cbn; constructor; auto.
  eapply tiled_start_gt; eauto.
Qed.

Lemma ssorted_lt_le l : StronglySorted Z.lt l -> StronglySorted Z.le l.
Proof.
  induction 1 as [|y l HS IH Hall]; constructor; auto.
  eapply Forall_impl; [|exact Hall]. cbn. intros; lia.
Qed.

Lemma tiled_starts_sorted c s0 blk : Tiled c s0 blk -> StronglySorted Z.le (map bstart blk).
Proof. intros HT. eapply ssorted_lt_le, tiled_starts_ssorted; eauto. Qed.

(** consecutive bins touch *)
Lemma tiled_adjacent c s0 blk : Tiled c s0 blk ->
  forall k x x', nth_error blk k = Some x -> nth_error blk (S k) = Some x' -> bstart x' = bend x.
Proof.
  induction 1 as [|s e l Hse HT IH]; intros k x x' Hk Hk'; [destruct k; discriminate|].
  destruct k as [|k]; cbn in Hk, Hk'.
  - injection Hk as <-. inversion HT as [|s1 e1 l1 Hse1 HT1]; subst; cbn in Hk'; [discriminate|].
    injection Hk' as <-. reflexivity.
  - eapply IH; eauto.
Qed.

Lemma tiled_first c s0 blk x : Tiled c s0 blk -> nth_error blk 0 = Some x -> bstart x = s0.
Proof. intros HT Hx. inversion HT; subst; cbn in Hx; [discriminate|]. injection Hx as <-. reflexivity. Qed.

Lemma tiled_nonempty_width c s0 blk x : Tiled c s0 blk -> In x blk -> bstart x < bend x.
Proof. intros HT Hin. pose proof (tiled_width_pos _ _ _ _ HT Hin). unfold bwidth in *. lia. Qed.

Lemma chrom_len_end blk : chrom_len blk = chrom_end blk.
Proof. reflexivity. Qed.

Lemma nth_error_last {A} (l : list A) k x d : nth_error l k = Some x -> S k = length l -> last l d = x.
Proof.
  revert k. induction l as [|y l IH]; intros k Hk Hl; [destruct k; discriminate|].
  destruct k as [|k]; cbn in *.
  - injection Hk as ->. destruct l; [reflexivity|discriminate].
  - destruct l as [|z l]; [destruct k; discriminate|]. apply (IH k); auto.
Qed.

Lemma last_bin_end blk k x : nth_error blk k = Some x -> S k = length blk -> bend x = chrom_len blk.
Proof. intros Hk Hl. unfold chrom_len. f_equal. symmetry. exact (nth_error_last _ _ _ (0,0,0) Hk Hl). Qed.

Lemma tiled_end_le_len c s0 blk : Tiled c s0 blk -> forall x, In x blk -> bend x <= chrom_len blk.
Proof.
  induction 1 as [|s e l Hse HT IH]; intros x Hin; [easy|].
  destruct l as [|y l].
  - destruct Hin as [<-|[]]. unfold chrom_len; cbn. lia.
  - change (chrom_len ((c, s, e) :: y :: l)) with (chrom_len (y :: l)).
    destruct Hin as [<-|Hin]; [|now apply IH].
    assert (Hy : bend y <= chrom_len (y :: l)) by (apply IH; now left).
    inversion HT; subst. unfold bend in *; cbn [snd fst] in *. lia.
Qed.

(** the two insertion points of the variable-width path, read on the bins of the block *)
Lemma tiled_select c s0 blk : Tiled c s0 blk ->
  forall s e k x, nth_error blk k = Some x ->
  (Z.of_nat k < searchsorted_left (map bstart blk) e <-> bstart x < e) /\
  (searchsorted_right (map bstart blk) s - 1 <= Z.of_nat k <-> s < bend x \/ S k = length blk).
Proof.
  intros HT s e k x Hk. pose proof (tiled_starts_sorted _ _ _ HT) as HS. split.
  - apply (ss_left_nth _ e HS k). now rewrite nth_error_map, Hk.
  - destruct (nth_error blk (S k)) as [x'|] eqn:Hk'.
    + pose proof (tiled_adjacent _ _ _ HT _ _ _ Hk Hk') as Hadj.
      pose proof (ss_right_nth _ s HS (S k) (bstart x') ltac:(now rewrite nth_error_map, Hk')) as Hr.
      assert (S k < length blk)%nat by (apply nth_error_Some; congruence). lia.
    + apply nth_error_None in Hk'. assert (k < length blk)%nat by (apply nth_error_Some; congruence).
      pose proof (ss_right_bounds (map bstart blk) s) as Hb. unfold zlen in Hb. rewrite map_length in Hb. lia.
Qed.

(* ------------------------------------------------------------ positions in the concatenated table *)
Lemma zlen_app {A} (l r : list A) : zlen (l ++ r) = zlen l + zlen r.
Proof. unfold zlen. rewrite app_length. lia. Qed.

Lemma zlen_nonneg {A} (l : list A) : 0 <= zlen l.
Proof. unfold zlen. lia. Qed.

Lemma firstn_S_nth {A} (l : list A) i x : nth_error l i = Some x -> firstn (S i) l = firstn i l ++ [x].
Proof.
  revert i. induction l as [|y l IH]; intros i Hi; [destruct i; discriminate|].
  destruct i as [|i]; cbn in *.
  - injection Hi as ->. reflexivity.
  - f_equal. now apply IH.
Qed.

Lemma chrom_offset_S blocks i blk : nth_error blocks i = Some blk ->
  chrom_offset blocks (S i) = chrom_offset blocks i + zlen blk.
Proof.
  intros Hi. unfold chrom_offset. rewrite (firstn_S_nth _ _ _ Hi), concat_app, zlen_app. cbn [concat]. now rewrite app_nil_r.
Qed.

Lemma chrom_offset_0 blocks : chrom_offset blocks 0 = 0.
Proof. reflexivity. Qed.

Lemma chrom_offset_nonneg blocks i : 0 <= chrom_offset blocks i.
Proof. apply zlen_nonneg. Qed.

Lemma concat_split {A} (blocks : list (list A)) i blk : nth_error blocks i = Some blk ->
  concat blocks = concat (firstn i blocks) ++ blk ++ concat (skipn (S i) blocks).
Proof.
  revert i. induction blocks as [|b0 blocks IH]; intros i Hi; [destruct i; discriminate|].
  destruct i as [|i]; cbn in *.
  - injection Hi as ->. reflexivity.
  - rewrite <- app_assoc. f_equal. now apply IH.
Qed.

(** the rows of chromosome i sit at positions chrom_offset i + j *)
Lemma nth_error_table blocks i blk j : nth_error blocks i = Some blk -> (j < length blk)%nat ->
  nth_error (table blocks) (Z.to_nat (chrom_offset blocks i) + j) = nth_error blk j.
Proof.
  intros Hi Hj. unfold table. rewrite (concat_split _ _ _ Hi). unfold chrom_offset, zlen.
  rewrite Nat2Z.id. rewrite nth_error_app2 by lia.
  replace (length (concat (firstn i blocks)) + j - length (concat (firstn i blocks)))%nat with j by lia.
  now rewrite nth_error_app1.
Qed.

(** every row of the table is row j of exactly the block its position falls into *)
Lemma table_position blocks k x : nth_error (table blocks) k = Some x ->
  exists i blk j, nth_error blocks i = Some blk /\ nth_error blk j = Some x /\
                  Z.of_nat k = chrom_offset blocks i + Z.of_nat j.
Proof.
  unfold table. revert k. induction blocks as [|b0 blocks IH]; intros k Hk; [destruct k; discriminate|].
  cbn [concat] in Hk. destruct (Nat.ltb_spec k (length b0)) as [Hlt|Hge].
  - rewrite nth_error_app1 in Hk by exact Hlt. exists 0%nat, b0, k. repeat split; auto.
  - rewrite nth_error_app2 in Hk by exact Hge.
    destruct (IH _ Hk) as (i & blk & j & Hi & Hj & Hpos).
    exists (S i), blk, j. repeat split; auto.
    unfold chrom_offset in *. cbn [firstn concat]. rewrite zlen_app. unfold zlen in *. lia.
Qed.

Lemma slice_chrom blocks i blk : nth_error blocks i = Some blk ->
  slice (table blocks) (chrom_offset blocks i) (chrom_offset blocks (S i)) = blk.
Proof.
  intros Hi. rewrite (chrom_offset_S _ _ _ Hi). unfold slice, table.
  rewrite (concat_split _ _ _ Hi). unfold chrom_offset, zlen.
  replace (Z.of_nat (length (concat (firstn i blocks))) + Z.of_nat (length blk) - Z.of_nat (length (concat (firstn i blocks))))
    with (Z.of_nat (length blk)) by lia.
  rewrite !Nat2Z.id.
  rewrite skipn_app, skipn_all, Nat.sub_diag. cbn [app skipn].
  rewrite firstn_app, firstn_all, Nat.sub_diag. cbn. now rewrite app_nil_r.
Qed.

(* ------------------------------------------------------------ variable-width path *)
Section VarPath.
  Variable blocks : list (list bin).
  Variable i : nat.
  Variable blk : list bin.
  Hypothesis HV : ValidBlocks blocks.
  Hypothesis Hi : nth_error blocks i = Some blk.

  Let off := chrom_offset blocks i.
  Let starts := map bstart blk.

  Lemma var_unfold s e :
    region_to_extent_var blocks i s e =
    (off + (searchsorted_right starts s - 1), off + searchsorted_left starts e).
  Proof. unfold region_to_extent_var. now rewrite (slice_chrom _ _ _ Hi). Qed.

  Lemma blk_tiled : blk <> [] /\ Tiled (Z.of_nat i) 0 blk.
  Proof. exact (HV i blk Hi). Qed.

  Lemma ss_right_pos s : 0 <= s -> 1 <= searchsorted_right starts s.
  Proof.
    intros Hs. destruct blk_tiled as [Hne HT]. unfold starts.
    inversion HT as [|s1 e1 l1 Hse1 HT1]; subst; [congruence|].
    cbn [map searchsorted_right]. unfold bstart at 1. cbn [fst snd].
    pose proof (ss_right_bounds (map bstart l1) s). destruct (0 <=? s) eqn:E; lia.
  Qed.

  (** row k of the table belongs to chromosome i iff it lies in the block's span *)
  Lemma chrom_rows k x : nth_error (table blocks) k = Some x ->
    (bchrom x = Z.of_nat i <-> off <= Z.of_nat k < off + zlen blk).
  Proof.
    intros Hk. destruct (table_position _ _ _ Hk) as (i' & blk' & j & Hi' & Hj & Hpos).
    destruct (HV i' blk' Hi') as [_ HT'].
    pose proof (tiled_chrom _ _ _ _ HT' (nth_error_In _ _ Hj)) as Hc.
    assert (Hjl : (j < length blk')%nat) by (apply nth_error_Some; congruence).
    split.
    - intros Hx. assert (i' = i) by lia. subst i'. assert (blk' = blk) by congruence. subst blk'.
      unfold off, zlen. lia.
    - intros Hr. rewrite Hc. f_equal.
      destruct (Nat.lt_trichotomy i' i) as [Hlt|[->|Hgt]]; [exfalso| reflexivity |exfalso].
      + (* block i' lies entirely before off *)
        assert (Hle : chrom_offset blocks (S i') <= off).
        { unfold off, chrom_offset, zlen. apply inj_le.
          replace (firstn i blocks) with (firstn (S i') (firstn i blocks)  ++ skipn (S i') (firstn i blocks))
            by apply firstn_skipn.
          rewrite firstn_firstn, Nat.min_l by lia. rewrite concat_app, app_length. lia. }
        rewrite (chrom_offset_S _ _ _ Hi') in Hle. unfold zlen in *. lia.
      + assert (Hle : chrom_offset blocks (S i) <= chrom_offset blocks i').
        { unfold chrom_offset, zlen. apply inj_le.
          replace (firstn i' blocks) with (firstn (S i) (firstn i' blocks)  ++ skipn (S i) (firstn i' blocks))
            by apply firstn_skipn.
          rewrite firstn_firstn, Nat.min_l by lia. rewrite concat_app, app_length. lia. }
        rewrite (chrom_offset_S _ _ _ Hi) in Hle. unfold off, zlen in *. lia.
  Qed.

  Theorem extent_var_overlap s e : 0 <= s < e -> e <= chrom_len blk ->
    let '(lo, hi) := region_to_extent_var blocks i s e in
    (forall k : nat, lo <= Z.of_nat k < hi <->
       exists x, nth_error (table blocks) k = Some x /\ bchrom x = Z.of_nat i /\ bstart x < e /\ s < bend x)
    /\ off <= lo < hi /\ hi <= chrom_offset blocks (S i).
  Proof.
    intros Hse HeL. rewrite var_unfold. destruct blk_tiled as [Hne HT].
    pose proof (ss_right_pos s ltac:(lia)) as Hr1.
    pose proof (ss_right_le_left starts s e ltac:(lia)) as Hrl.
    pose proof (ss_left_bounds starts e) as Hlb. unfold zlen, starts in Hlb. rewrite map_length in Hlb. fold starts in Hlb.
    rewrite (chrom_offset_S _ _ _ Hi). fold off. unfold zlen.
    split; [|lia].
    intros k. split.
    - intros Hk. set (j := Z.to_nat (Z.of_nat k - off)).
      assert (Hj : (j < length blk)%nat) by lia.
      destruct (nth_error blk j) as [x|] eqn:Hx; [|apply nth_error_None in Hx; lia].
      pose proof (nth_error_table _ _ _ j Hi Hj) as Ht. rewrite Hx in Ht.
      pose proof (chrom_offset_nonneg blocks i). fold off in H.
      replace (Z.to_nat (chrom_offset blocks i) + j)%nat with k in Ht by (unfold off in *; lia).
      exists x. split; [exact Ht|].
      destruct (tiled_select _ _ _ HT s e j x Hx) as [Ha Hb]. fold starts in Ha, Hb.
      split; [apply (tiled_chrom _ _ _ _ HT), (nth_error_In _ _ Hx)|].
      split; [apply Ha; lia|].
      assert (Hb' : s < bend x \/ S j = length blk) by (apply Hb; lia).
      destruct Hb' as [|Hlast]; [assumption|]. rewrite (last_bin_end _ _ _ Hx Hlast). lia.
    - intros (x & Hk & Hc & Hxe & Hsx).
      pose proof (proj1 (chrom_rows _ _ Hk) Hc) as Hr.
      set (j := Z.to_nat (Z.of_nat k - off)).
      assert (Hj : (j < length blk)%nat) by (unfold zlen in Hr; lia).
      pose proof (nth_error_table _ _ _ j Hi Hj) as Ht.
      pose proof (chrom_offset_nonneg blocks i). fold off in H.
      replace (Z.to_nat (chrom_offset blocks i) + j)%nat with k in Ht by (unfold off in *; lia).
      rewrite Hk in Ht. symmetry in Ht.
      destruct (tiled_select _ _ _ HT s e j x Ht) as [Ha Hb]. fold starts in Ha, Hb.
      apply Ha in Hxe. assert (searchsorted_right starts s - 1 <= Z.of_nat j) by (apply Hb; now left). lia.
  Qed.

  (** empty range: at most one bin, and it contains the position (closed at its end) *)
  Theorem extent_var_empty s : 0 <= s <= chrom_len blk ->
    let '(lo, hi) := region_to_extent_var blocks i s s in
    lo <= hi <= lo + 1 /\ off <= lo /\ hi <= chrom_offset blocks (S i) /\
    (forall k : nat, lo <= Z.of_nat k < hi ->
       exists x, nth_error (table blocks) k = Some x /\ bchrom x = Z.of_nat i /\ bstart x < s <= bend x).
  Proof.
    intros Hs. rewrite var_unfold. destruct blk_tiled as [Hne HT].
    pose proof (ss_right_pos s ltac:(lia)) as Hr1.
    pose proof (ss_left_le_right starts s) as Hlr.
    pose proof (ss_right_le_left_succ starts s (tiled_starts_ssorted _ _ _ HT)) as Hrl.
    pose proof (ss_left_bounds starts s) as Hlb. unfold zlen, starts in Hlb. rewrite map_length in Hlb. fold starts in Hlb.
    rewrite (chrom_offset_S _ _ _ Hi). fold off. unfold zlen.
    repeat split; try lia.
    intros k Hk. set (j := Z.to_nat (Z.of_nat k - off)).
    assert (Hj : (j < length blk)%nat) by lia.
    destruct (nth_error blk j) as [x|] eqn:Hx; [|apply nth_error_None in Hx; lia].
    pose proof (nth_error_table _ _ _ j Hi Hj) as Ht. rewrite Hx in Ht.
    pose proof (chrom_offset_nonneg blocks i). fold off in H.
    replace (Z.to_nat (chrom_offset blocks i) + j)%nat with k in Ht by (unfold off in *; lia).
    exists x. split; [exact Ht|].
    destruct (tiled_select _ _ _ HT s s j x Hx) as [Ha Hb]. fold starts in Ha, Hb.
    split; [apply (tiled_chrom _ _ _ _ HT), (nth_error_In _ _ Hx)|].
    split; [apply Ha; lia|].
    assert (Hb' : s < bend x \/ S j = length blk) by (apply Hb; lia).
    destruct Hb' as [|Hlast]; [lia|]. rewrite (last_bin_end _ _ _ Hx Hlast). lia.
  Qed.
End VarPath.

(* ------------------------------------------------------------ fixed-width path *)
Lemma ideal_starts c L b n lo :
  map bstart (map (ideal_bin c L b) (zrange lo n)) = map (fun k => k * b) (zrange lo n).
Proof. rewrite map_map. apply map_ext. reflexivity. Qed.

Lemma ss_left_mul b : 1 <= b -> forall n lo x,
  searchsorted_left (map (fun k => k * b) (zrange lo n)) x = Z.max 0 (Z.min (Z.of_nat n) (cdiv x b - lo)).
Proof.
  intros Hb. induction n as [|n IH]; intros lo x.
  - cbn. lia.
  - rewrite zrange_cons. cbn [map searchsorted_left]. rewrite IH. unfold cdiv.
    destruct (lo * b <? x) eqn:E; nia.
Qed.

Lemma ss_right_mul b : 1 <= b -> forall n lo x,
  searchsorted_right (map (fun k => k * b) (zrange lo n)) x = Z.max 0 (Z.min (Z.of_nat n) (x / b + 1 - lo)).
Proof.
  intros Hb. induction n as [|n IH]; intros lo x.
  - cbn. lia.
  - rewrite zrange_cons. cbn [map searchsorted_right]. rewrite IH.
    destruct (lo * b <=? x) eqn:E; nia.
Qed.

Lemma tiled_len_pos c s0 blk : Tiled c s0 blk -> blk <> [] -> s0 < chrom_len blk.
Proof.
  intros HT Hne. destruct blk as [|x blk]; [congruence|].
  pose proof (tiled_end_le_len _ _ _ HT x (or_introl eq_refl)).
  inversion HT; subst. unfold bend in *; cbn [snd] in *. lia.
Qed.

Section FixedPath.
  Variable blocks : list (list bin).
  Variable i : nat.
  Variable blk : list bin.
  Variable b : Z.
  Hypothesis HV : ValidBlocks blocks.
  Hypothesis Hi : nth_error blocks i = Some blk.
  Hypothesis Hb : get_binsize (table blocks) = Some b.

  Let off := chrom_offset blocks i.
  Let L := chrom_len blk.

  Lemma fixed_shape : 1 <= b /\ 1 <= L /\ blk = ideal_chrom (Z.of_nat i) L b.
  Proof.
    destruct (binsize_truthful blocks b HV Hb) as [Hb1 Hid].
    destruct (HV i blk Hi) as [Hne HT]. pose proof (tiled_len_pos _ _ _ HT Hne).
    repeat split; auto; [unfold L; lia|]. exact (Hid i blk Hi).
  Qed.

  Lemma fixed_starts : map bstart blk = map (fun k => k * b) (zrange 0 (Z.to_nat (cdiv L b))).
  Proof.
    destruct fixed_shape as (_ & _ & Hid). rewrite Hid at 1. unfold ideal_chrom. apply ideal_starts.
  Qed.

  Lemma fixed_len : zlen blk = cdiv L b.
  Proof.
    destruct fixed_shape as (Hb1 & HL & Hid). unfold zlen. rewrite Hid at 1. unfold ideal_chrom.
    rewrite map_length, zrange_length. unfold cdiv. nia.
  Qed.

  (** when the table reports bin size b, integer arithmetic finds the same bins as the search *)
  Theorem extent_paths_agree s e : 0 <= s <= e -> e <= L -> s < L ->
    region_to_extent_fixed blocks i s e b = region_to_extent_var blocks i s e.
  Proof.
    intros Hse HeL HsL. rewrite (var_unfold blocks i blk Hi). unfold region_to_extent_fixed.
    destruct fixed_shape as (Hb1 & HL & _). rewrite fixed_starts.
    rewrite (ss_left_mul b Hb1), (ss_right_mul b Hb1). fold off. unfold cdiv. f_equal; nia.
  Qed.

  (** the upper end always agrees; the lower end differs only for the empty range at a chromosome
      end that is a multiple of b *)
  Lemma extent_paths_agree_hi s e : 0 <= s <= e -> e <= L ->
    snd (region_to_extent_fixed blocks i s e b) = snd (region_to_extent_var blocks i s e).
  Proof.
    intros Hse HeL. rewrite (var_unfold blocks i blk Hi). unfold region_to_extent_fixed.
    destruct fixed_shape as (Hb1 & HL & _). rewrite fixed_starts.
    rewrite (ss_left_mul b Hb1). cbn [snd]. fold off. unfold cdiv. nia.
  Qed.

  Theorem extent_fixed_empty s : 0 <= s <= L ->
    let '(lo, hi) := region_to_extent_fixed blocks i s s b in
    lo <= hi <= lo + 1 /\ off <= lo /\ hi <= chrom_offset blocks (S i) /\
    (forall k : nat, lo <= Z.of_nat k < hi ->
       exists x, nth_error (table blocks) k = Some x /\ bchrom x = Z.of_nat i /\ bstart x < s <= bend x).
  Proof.
    intros Hs. unfold region_to_extent_fixed. fold off.
    destruct fixed_shape as (Hb1 & HL & Hid). rewrite (chrom_offset_S _ _ _ Hi), fixed_len. fold off.
    pose proof (chrom_offset_nonneg blocks i) as Hoff. fold off in Hoff.
    assert (Hdiv : 0 <= s / b <= cdiv s b /\ cdiv s b <= s / b + 1) by (unfold cdiv; nia).
    assert (HsL : cdiv s b <= cdiv L b) by (unfold cdiv; nia).
    assert (Hbin : cdiv s b = s / b + 1 -> (s / b) * b < s /\ s <= Z.min ((s / b + 1) * b) L) by (unfold cdiv; nia).
    pose proof fixed_len as Hlen. unfold zlen in Hlen.
    remember (s / b) as q. remember (cdiv s b) as cq. remember (cdiv L b) as cL.
    repeat split; try lia.
    intros k Hk. set (j := Z.to_nat q).
    assert (Hkj : k = (Z.to_nat off + j)%nat) by lia.
    assert (Hjn : (j < Z.to_nat cL)%nat) by lia.
    assert (Hjl : (j < length blk)%nat) by lia.
    pose proof (nth_error_table _ _ _ j Hi Hjl) as Ht. fold off in Ht. rewrite <- Hkj in Ht.
    assert (Hx : nth_error blk j = Some (ideal_bin (Z.of_nat i) L b (Z.of_nat j))).
    { rewrite Hid at 1. unfold ideal_chrom. rewrite <- HeqcL. rewrite nth_error_map, (nth_error_zrange 0 _ j Hjn). reflexivity. }
    rewrite Hx in Ht. eexists. split; [exact Ht|]. unfold ideal_bin, bchrom, bstart, bend; cbn [fst snd].
    split; [reflexivity|]. replace (Z.of_nat j) with q by lia. apply Hbin. lia.
  Qed.
End FixedPath.

(* ------------------------------------------------------------ both paths: Cooler.extent *)
Theorem extent_overlap blocks i blk s e :
  ValidBlocks blocks -> nth_error blocks i = Some blk ->
  0 <= s < e -> e <= chrom_len blk ->
  let '(lo, hi) := region_to_extent blocks i s e in
  (forall k : nat, lo <= Z.of_nat k < hi <->
     exists x, nth_error (table blocks) k = Some x /\ bchrom x = Z.of_nat i /\ bstart x < e /\ s < bend x)
  /\ chrom_offset blocks i <= lo < hi /\ hi <= chrom_offset blocks (S i).
Proof.
  intros HV Hi Hse HeL. unfold region_to_extent.
  destruct (get_binsize (table blocks)) as [b|] eqn:Hb.
  - rewrite (extent_paths_agree blocks i blk b HV Hi Hb s e) by lia.
    now apply (extent_var_overlap blocks i blk HV Hi).
  - now apply (extent_var_overlap blocks i blk HV Hi).
Qed.

Theorem extent_empty blocks i blk s :
  ValidBlocks blocks -> nth_error blocks i = Some blk ->
  0 <= s <= chrom_len blk ->
  let '(lo, hi) := region_to_extent blocks i s s in
  lo <= hi <= lo + 1 /\ chrom_offset blocks i <= lo /\ hi <= chrom_offset blocks (S i) /\
  (forall k : nat, lo <= Z.of_nat k < hi ->
     exists x, nth_error (table blocks) k = Some x /\ bchrom x = Z.of_nat i /\ bstart x < s <= bend x).
Proof.
  intros HV Hi Hs. unfold region_to_extent.
  destruct (get_binsize (table blocks)) as [b|] eqn:Hb.
  - now apply (extent_fixed_empty blocks i blk b HV Hi Hb).
  - now apply (extent_var_empty blocks i blk HV Hi).
Qed.

(** the fixed path is only sound because the reported size is truthful: on a table whose last bin is
    longer (the input of the repaired defect D1) arithmetic with the common width selects a bin of the
    NEXT chromosome; get_binsize now reports None for it *)
Lemma extent_fixed_refuted :
  let blocks := [[(0,0,10);(0,10,20);(0,20,35)]; [(1,0,10);(1,10,20)]] in
  valid_blocks_b blocks = true /\
  region_to_extent_fixed blocks 0 25 35 10 = (2, 4) /\
  region_to_extent_var blocks 0 25 35 = (2, 3) /\
  get_binsize (table blocks) = None.
Proof. vm_compute. repeat split; reflexivity. Qed.

(** the two paths do differ in one corner: the empty range at a chromosome end that is a multiple of b *)
Lemma extent_paths_differ_at_end :
  let blocks := [[(0,0,10);(0,10,20)]; [(1,0,10)]] in
  get_binsize (table blocks) = Some 10 /\
  region_to_extent_fixed blocks 0 20 20 10 = (2, 2) /\ region_to_extent_var blocks 0 20 20 = (1, 2).
Proof. vm_compute. repeat split; reflexivity. Qed.

(* ------------------------------------------------------------ parse_region bounds *)
Definition dflt (d : Z) (o : option Z) : Z := match o with Some v => v | None => d end.

Theorem parse_region_spec sizes c s e :
  parse_region sizes c s e =
  match nth_error sizes c with
  | None => None
  | Some L => if (0 <=? dflt 0 s) && (dflt 0 s <=? dflt L e) && (dflt L e <=? L)
              then Some (c, dflt 0 s, dflt L e) else None
  end.
Proof.
  unfold parse_region, dflt. destruct (nth_error sizes c) as [L|]; [|reflexivity].
  destruct s as [s|], e as [e|];
  repeat match goal with |- context [if ?b then _ else _] => destruct b eqn:? end; try reflexivity; lia.
Qed.

Corollary parse_region_sound sizes c s e c' s' e' :
  parse_region sizes c s e = Some (c', s', e') ->
  exists L, nth_error sizes c = Some L /\ c' = c /\ s' = dflt 0 s /\ e' = dflt L e /\ 0 <= s' <= e' /\ e' <= L.
Proof.
  rewrite parse_region_spec. destruct (nth_error sizes c) as [L|]; [|discriminate].
  destruct ((0 <=? dflt 0 s) && (dflt 0 s <=? dflt L e) && (dflt L e <=? L)) eqn:E; [|discriminate].
  intros H. injection H as <- <- <-. exists L. repeat split; lia.
Qed.

Corollary parse_region_complete sizes c s e L :
  nth_error sizes c = Some L -> 0 <= dflt 0 s <= dflt L e -> dflt L e <= L ->
  parse_region sizes c s e = Some (c, dflt 0 s, dflt L e).
Proof.
  intros Hc H1 H2. rewrite parse_region_spec, Hc.
  destruct ((0 <=? dflt 0 s) && (dflt 0 s <=? dflt L e) && (dflt L e <=? L)) eqn:E; [reflexivity|lia].
Qed.

(* ------------------------------------------------------------ a slice selected by a predicate *)
Lemma filter_firstn_skipn {A} (p : A -> bool) : forall (l : list A) (lo hi : nat),
  (lo <= hi)%nat ->
  (forall k x, nth_error l k = Some x -> (p x = true <-> (lo <= k < hi)%nat)) ->
  filter p l = firstn (hi - lo) (skipn lo l).
Proof.
  induction l as [|a l IH]; intros lo hi Hle H.
  - now rewrite skipn_nil, firstn_nil.
  - destruct lo as [|lo].
    + destruct hi as [|hi].
      * cbn [Nat.sub firstn]. apply filter_none. intros x Hx. apply In_nth_error in Hx as [k Hk].
        destruct (p x) eqn:E; [|reflexivity]. rewrite (H k x Hk) in E. lia.
      * cbn [filter]. assert (Ha : p a = true) by (apply (H 0%nat a eq_refl); lia). rewrite Ha.
        cbn [Nat.sub skipn firstn]. f_equal.
        rewrite (IH 0%nat hi ltac:(lia)); [now rewrite Nat.sub_0_r|].
        intros k x Hk. rewrite (H (S k) x Hk). lia.
    + destruct hi as [|hi]; [lia|].
      cbn [filter]. assert (Ha : p a = false).
      { destruct (p a) eqn:E; [|reflexivity]. rewrite (H 0%nat a eq_refl) in E. lia. }
      rewrite Ha. cbn [Nat.sub skipn]. apply IH; [lia|].
      intros k x Hk. rewrite (H (S k) x Hk). lia.
Qed.

Lemma filter_slice {A} (p : A -> bool) (l : list A) (lo hi : Z) :
  0 <= lo <= hi ->
  (forall k x, nth_error l k = Some x -> (p x = true <-> lo <= Z.of_nat k < hi)) ->
  slice l lo hi = filter p l.
Proof.
  intros Hle H. unfold slice. rewrite (filter_firstn_skipn p l (Z.to_nat lo) (Z.to_nat hi)); [f_equal; lia|lia|].
  intros k x Hk. rewrite (H k x Hk). lia.
Qed.

(** Cooler.bins().fetch on a non-empty range returns exactly the overlapping bins of the chromosome,
    in table order *)
Theorem bins_fetch_overlap blocks i blk s e :
  ValidBlocks blocks -> nth_error blocks i = Some blk ->
  0 <= s < e -> e <= chrom_len blk ->
  bins_fetch blocks i (Some s) (Some e) = Some (filter (overlaps_b i s e) (table blocks)).
Proof.
  intros HV Hi Hse HeL. unfold bins_fetch, extent, chromsizes.
  rewrite (parse_region_complete _ i (Some s) (Some e) (chrom_len blk)); cbn [dflt]; try lia.
  2:{ now rewrite nth_error_map, Hi. }
  pose proof (extent_overlap blocks i blk s e HV Hi Hse HeL) as H.
  destruct (region_to_extent blocks i s e) as [lo hi]. destruct H as (Hiff & Hlo & Hhi).
  f_equal. apply filter_slice.
  - pose proof (chrom_offset_nonneg blocks i). lia.
  - intros k x Hk. rewrite (Hiff k). unfold overlaps_b. split.
    + intros Hp. exists x. split; [exact Hk|]. lia.
    + intros (x' & Hk' & Hc & H1 & H2). assert (x' = x) by congruence. subst x'. lia.
Qed.

(* ------------------------------------------------------------ pixels().fetch *)
Lemma sorted_split (px : list (Z * Z)) k : StronglySorted Z.le (map fst px) ->
  px = filter (fun p => fst p <? k) px ++ filter (fun p => negb (fst p <? k)) px.
Proof.
  induction px as [|a px IH]; intros HS; [reflexivity|].
  cbn [map] in HS. inversion HS as [|? ? HS' Hall]; subst. cbn [filter].
  destruct (fst a <? k) eqn:E; cbn [negb app].
  - f_equal. now apply IH.
  - rewrite (filter_none (fun p => fst p <? k) px), (filter_all (fun p => negb (fst p <? k)) px); [reflexivity| |].
    + intros x Hx. rewrite Forall_forall in Hall. specialize (Hall (fst x) (in_map fst _ _ Hx)). lia.
    + intros x Hx. rewrite Forall_forall in Hall. specialize (Hall (fst x) (in_map fst _ _ Hx)). lia.
Qed.

Lemma filter_filter {A} (p q : A -> bool) l : filter p (filter q l) = filter (fun x => q x && p x) l.
Proof.
  induction l as [|a l IH]; [reflexivity|]. cbn [filter]. destruct (q a); cbn [filter andb]; [destruct (p a)|]; now rewrite IH.
Qed.

Lemma sorted_filter (p : Z * Z -> bool) px :
  StronglySorted Z.le (map fst px) -> StronglySorted Z.le (map fst (filter p px)).
Proof.
  induction px as [|a px IH]; intros HS; [constructor|].
  cbn [map] in HS. inversion HS as [|? ? HS' Hall]; subst. cbn [filter].
  destruct (p a); [|now apply IH]. cbn [map]. constructor; [now apply IH|].
  rewrite Forall_forall in *. intros y Hy. apply in_map_iff in Hy as [x [<- Hx]].
  apply filter_In in Hx as [Hx _]. apply Hall. now apply in_map.
Qed.

(** Cooler.pixels().fetch: on a pixel table sorted by bin1_id the row range
    [bin1_offset lo, bin1_offset hi) holds exactly the pixels whose bin1_id lies in [lo, hi) *)
Theorem pixels_fetch_rows_spec px lo hi :
  StronglySorted Z.le (map fst px) -> lo <= hi ->
  pixels_fetch_rows px lo hi = filter (fun p => (lo <=? fst p) && (fst p <? hi)) px.
Proof.
  intros HS Hle. unfold pixels_fetch_rows, bin1_offset, slice, zlen.
  set (A := filter (fun p => fst p <? lo) px).
  set (R := filter (fun p => negb (fst p <? lo)) px).
  assert (Hpx : px = A ++ R) by (apply sorted_split; exact HS).
  assert (HSR : StronglySorted Z.le (map fst R)) by (apply sorted_filter; exact HS).
  set (B := filter (fun p => fst p <? hi) R).
  assert (HR : R = B ++ filter (fun p => negb (fst p <? hi)) R) by (apply sorted_split; exact HSR).
  assert (Hhi : filter (fun p => fst p <? hi) px = A ++ B).
  { rewrite Hpx at 1. rewrite filter_app. f_equal. unfold A. rewrite filter_filter.
    apply filter_ext. intros a. lia. }
  rewrite Hhi, app_length.
  replace (Z.to_nat (Z.of_nat (length A + length B) - Z.of_nat (length A))) with (length B) by lia.
  rewrite Nat2Z.id. rewrite Hpx at 1. rewrite skipn_app, skipn_all, Nat.sub_diag. cbn [app skipn].
  rewrite HR at 1. rewrite firstn_app, firstn_all, Nat.sub_diag. cbn [firstn]. rewrite app_nil_r.
  unfold B, R. rewrite filter_filter. apply filter_ext. intros a. lia.
Qed.

(* ------------------------------------------------------------ bedslice / GenomeSegmentation.fetch *)
Lemma tiled_ends_sorted c s0 blk : Tiled c s0 blk -> StronglySorted Z.le (map bend blk).
Proof.
  induction 1 as [|s e l Hse HT IH]; cbn [map]; constructor; auto.
  apply Forall_forall. intros y Hy. apply in_map_iff in Hy as [x [<- Hx]].
  pose proof (tiled_start_ge _ _ _ HT x Hx). pose proof (tiled_nonempty_width _ _ _ _ HT Hx).
  unfold bend at 1; cbn [snd]. lia.
Qed.

Lemma tiled_skipn c s0 blk n : Tiled c s0 blk -> exists s1, Tiled c s1 (skipn n blk).
Proof.
  intros HT. revert s0 blk HT. induction n as [|n IH]; intros s0 blk HT; [now exists s0|].
  destruct blk as [|x blk]; [exists s0; constructor|]. inversion HT; subst. cbn [skipn]. eauto.
Qed.

Lemma nth_error_skipn {A} (l : list A) n k : nth_error (skipn n l) k = nth_error l (n + k).
Proof.
  revert l. induction n as [|n IH]; intros l; [reflexivity|]. destruct l; [now destruct k|]. cbn. apply IH.
Qed.

(** bedslice returns exactly the bins of the block that overlap the range (for an empty range:
    the bin that strictly contains the position, if any) *)
Theorem bedslice_overlap c blk s e :
  Tiled c 0 blk -> 0 <= s <= e -> e <= chrom_len blk ->
  bedslice blk (chrom_len blk) s e = filter (fun x => (bstart x <? e) && (s <? bend x)) blk.
Proof.
  intros HT Hse HeL. unfold bedslice, bedslice_range.
  destruct ((0 <? s) || (e <? chrom_len blk)) eqn:Hcase.
  - set (lo := searchsorted_right (map bend blk) s).
    set (tl := skipn (Z.to_nat lo) blk).
    pose proof (ss_right_bounds (map bend blk) s) as Hlo. fold lo in Hlo. unfold zlen in Hlo. rewrite map_length in Hlo.
    pose proof (ss_left_bounds (map bstart tl) e) as Hhi. unfold zlen in Hhi. rewrite map_length in Hhi.
    apply filter_slice; [lia|].
    intros k x Hk.
    pose proof (ss_right_nth _ s (tiled_ends_sorted _ _ _ HT) k (bend x) ltac:(now rewrite nth_error_map, Hk)) as Hr.
    fold lo in Hr.
    destruct (Z.ltb_spec (Z.of_nat k) lo) as [Hlt|Hge].
    + split; [lia|]. lia.
    + destruct (tiled_skipn c 0 blk (Z.to_nat lo) HT) as [s1 HT1]. fold tl in HT1.
      assert (Hk' : nth_error tl (k - Z.to_nat lo) = Some x).
      { unfold tl. rewrite nth_error_skipn. replace (Z.to_nat lo + (k - Z.to_nat lo))%nat with k by lia. exact Hk. }
      pose proof (ss_left_nth _ e (tiled_starts_sorted _ _ _ HT1) _ (bstart x) ltac:(now rewrite nth_error_map, Hk')) as Hl.
      lia.
  - (* the whole chromosome *)
    assert (s = 0 /\ e = chrom_len blk) as [-> ->] by lia.
    unfold slice. rewrite Z.sub_0_r. unfold zlen. rewrite Nat2Z.id. cbn [Z.to_nat skipn]. rewrite firstn_all.
    symmetry. apply filter_all. intros x Hx.
    pose proof (tiled_start_ge _ _ _ HT x Hx). pose proof (tiled_nonempty_width _ _ _ _ HT Hx).
    pose proof (tiled_end_le_len _ _ _ HT x Hx). lia.
Qed.

Lemma nth_error_firstn_some {A} (l : list A) n j x :
  nth_error (firstn n l) j = Some x -> nth_error l j = Some x /\ (j < n)%nat.
Proof.
  revert l j. induction n as [|n IH]; intros l j H; [destruct j; discriminate|].
  destruct l as [|a l]; [destruct j; discriminate|]. destruct j as [|j]; cbn in *; [split; [assumption|lia]|].
  destruct (IH _ _ H). split; [assumption|lia].
Qed.

(** on a non-empty range bedslice and the extent select the same bins *)
Corollary bedslice_eq_extent blocks i blk s e :
  ValidBlocks blocks -> nth_error blocks i = Some blk ->
  0 <= s < e -> e <= chrom_len blk ->
  Some (bedslice blk (chrom_len blk) s e) = bins_fetch blocks i (Some s) (Some e).
Proof.
  intros HV Hi Hse HeL. rewrite (bins_fetch_overlap blocks i blk s e HV Hi Hse HeL). f_equal.
  destruct (HV i blk Hi) as [_ HT]. rewrite (bedslice_overlap _ _ _ _ HT) by lia.
  (* filter over the table = filter over the block *)
  unfold table. rewrite (concat_split _ _ _ Hi), !filter_app.
  rewrite (filter_none (overlaps_b i s e) (concat (firstn i blocks))), (filter_none (overlaps_b i s e) (concat (skipn (S i) blocks))).
  - rewrite app_nil_r. cbn [app]. apply filter_ext_in. intros x Hx. unfold overlaps_b.
    rewrite (tiled_chrom _ _ _ _ HT Hx), Z.eqb_refl. reflexivity.
  - intros x Hx. apply in_concat in Hx as [b0 [Hb0 Hx]]. apply In_nth_error in Hb0 as [j Hj].
    rewrite nth_error_skipn in Hj. destruct (HV _ _ Hj) as [_ HT'].
    unfold overlaps_b. rewrite (tiled_chrom _ _ _ _ HT' Hx). lia.
  - intros x Hx. apply in_concat in Hx as [b0 [Hb0 Hx]]. apply In_nth_error in Hb0 as [j Hj].
    apply nth_error_firstn_some in Hj as [Hj Hjl].
    destruct (HV _ _ Hj) as [_ HT']. unfold overlaps_b. rewrite (tiled_chrom _ _ _ _ HT' Hx). lia.
Qed.

(** whole chromosome (bare name, or both ends open): exactly the chromosome's span of the table *)
Theorem extent_whole_chrom blocks i blk :
  ValidBlocks blocks -> nth_error blocks i = Some blk ->
  extent blocks i None None = Some (chrom_offset blocks i, chrom_offset blocks (S i)).
Proof.
  intros HV Hi. destruct (HV i blk Hi) as [Hne HT].
  pose proof (tiled_len_pos _ _ _ HT Hne) as HL.
  unfold extent, chromsizes.
  rewrite (parse_region_complete _ i None None (chrom_len blk)); cbn [dflt]; try lia.
  2:{ now rewrite nth_error_map, Hi. }
  pose proof (extent_overlap blocks i blk 0 (chrom_len blk) HV Hi ltac:(lia) ltac:(lia)) as H.
  destruct (region_to_extent blocks i 0 (chrom_len blk)) as [lo hi]. destruct H as (Hiff & Hlo & Hhi).
  rewrite (chrom_offset_S _ _ _ Hi) in *. pose proof (chrom_offset_nonneg blocks i) as Hoff.
  assert (Hlen : (0 < length blk)%nat) by (destruct blk; [congruence|cbn; lia]).
  assert (Hall : forall j, (j < length blk)%nat -> lo <= chrom_offset blocks i + Z.of_nat j < hi).
  { intros j Hj. destruct (nth_error blk j) as [x|] eqn:Hx; [|apply nth_error_None in Hx; lia].
    pose proof (nth_error_table _ _ _ j Hi Hj) as Ht. rewrite Hx in Ht.
    pose proof (proj2 (Hiff (Z.to_nat (chrom_offset blocks i) + j)%nat)) as Hk.
    assert (Hin : In x blk) by (eapply nth_error_In; eauto).
    pose proof (tiled_start_ge _ _ _ HT x Hin). pose proof (tiled_nonempty_width _ _ _ _ HT Hin).
    pose proof (tiled_end_le_len _ _ _ HT x Hin).
    assert (lo <= Z.of_nat (Z.to_nat (chrom_offset blocks i) + j) < hi).
    { apply Hk. exists x. repeat split; auto; [apply (tiled_chrom _ _ _ _ HT Hin)|lia|lia]. }
    lia. }
  pose proof (Hall 0%nat Hlen). pose proof (Hall (length blk - 1)%nat ltac:(lia)).
  unfold zlen in *. do 2 f_equal; lia.
Qed.
(** the block-wise chrom_offset is the number of table rows of the chromosomes before c:
    the contract of indexes/chrom_offset read on the flat bin table *)
Theorem chrom_offset_counts blocks c :
  ValidBlocks blocks ->
  chrom_offset blocks c = zlen (filter (fun x => bchrom x <? Z.of_nat c) (table blocks)).
Proof.
  intros HV. unfold chrom_offset, table.
  rewrite <- (firstn_skipn c blocks) at 2. rewrite concat_app, filter_app.
  rewrite (filter_all _ (concat (firstn c blocks))), (filter_none _ (concat (skipn c blocks))).
  - now rewrite app_nil_r.
  - intros x Hx. apply in_concat in Hx as [b0 [Hb0 Hx]]. apply In_nth_error in Hb0 as [j Hj].
    rewrite nth_error_skipn in Hj. destruct (HV _ _ Hj) as [_ HT]. rewrite (tiled_chrom _ _ _ _ HT Hx). lia.
  - intros x Hx. apply in_concat in Hx as [b0 [Hb0 Hx]]. apply In_nth_error in Hb0 as [j Hj].
    apply nth_error_firstn_some in Hj as [Hj Hjl].
    destruct (HV _ _ Hj) as [_ HT]. rewrite (tiled_chrom _ _ _ _ HT Hx). lia.
Qed.
