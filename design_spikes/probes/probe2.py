import warnings; warnings.filterwarnings("ignore")
import numpy as np, pandas as pd, cooler, h5py, os, subprocess, sys
from cooler.create import sanitize_records, sanitize_pixels, aggregate_records
# C05: pos == clen zero-based
chromsizes=pd.Series({"a":30,"b":20})
bins=cooler.binnify(chromsizes,10)
san=sanitize_records(bins,schema="pairs",is_one_based=False,sort=True,validate=True)
df=pd.DataFrame({"chrom1":["a","a"],"pos1":[30,29],"chrom2":["b","b"],"pos2":[5,20]})
try:
    out=san(df.copy()); print("C05 pos==clen accepted:\n",out)
except Exception as e: print("C05 rejects:",type(e).__name__)
# variable bins
vbins=pd.DataFrame({"chrom":["a","a","b"],"start":[0,7,0],"end":[7,30,20]})
san=sanitize_records(vbins,schema="pairs",is_one_based=False,sort=True,validate=True)
try:
    out=san(df.copy()); print("C05 var pos==clen accepted:\n",out)
except Exception as e: print("C05 var rejects:",type(e).__name__)
# C07 overflow
px1=pd.DataFrame({"bin1_id":[0],"bin2_id":[1],"count":[2**31-1]})
cooler.create_cooler("o1.cool",bins,px1); cooler.create_cooler("o2.cool",bins,px1)
try:
    cooler.merge_coolers("om.cool",["o1.cool","o2.cool"],mergebuf=10)
    c=cooler.Cooler("om.cool"); print("C07 merged overflow value:",c.pixels()[:]["count"].values, c.pixels()[:]["count"].dtype, "sum attr",c.info["sum"])
except Exception as e: print("C07 raises",type(e).__name__,e)
# C09 multiple bases
px=pd.DataFrame({"bin1_id":[0,0,1,3],"bin2_id":[0,2,4,4],"count":[1,2,3,4]})
cooler.create_cooler("b10.cool",bins,px)
bins15=cooler.binnify(chromsizes,15)
px15=pd.DataFrame({"bin1_id":[0,1],"bin2_id":[1,3],"count":[5,6]})
cooler.create_cooler("b15.cool",bins15,px15)
try:
    cooler.zoomify_cooler(["b10.cool","b15.cool"],"z.mcool",[10,15,20,30],chunksize=100)
    print("C09 list:",cooler.fileops.list_coolers("z.mcool"))
except Exception as e: print("C09 multi-base raises",type(e).__name__,e)
# zoomify CLI 'b' suffix
r=subprocess.run([sys.executable,"-m","cooler","zoomify","-r","10b","-o","zb.mcool","b10.cool"],capture_output=True,text=True,env={**os.environ,"PYTHONPATH":"/repo/src"})
print("zoomify 10b rc",r.returncode,r.stderr.strip().splitlines()[-1:] )
r=subprocess.run([sys.executable,"-m","cooler","zoomify","-r","10n","-o","zn.mcool","b10.cool"],capture_output=True,text=True,env={**os.environ,"PYTHONPATH":"/repo/src"})
print("zoomify 10n rc",r.returncode,r.stderr.strip().splitlines()[-1:], cooler.fileops.list_coolers("zn.mcool") if os.path.exists("zn.mcool") else None)
