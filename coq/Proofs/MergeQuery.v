(** C07 composed with C03: what a user READS from a merged cooler.  For symmetric-upper inputs over one bin table, the
    dense range query on the merge result, for every window, chunk size and merge buffer, is the element-wise sum of the
    inputs' symmetric matrices (and each input's own dense query is its symmetric matrix, by the C03 theorems). *)
From Cooler Require Import Model.Query Model.Index Proofs.PixelsProofs Proofs.QueryProofs Proofs.SpansProofs Proofs.QueryMain
     Proofs.IndexProofs Proofs.HistoryProofs Proofs.EndToEnd.
From Coq Require Import Lia.
Open Scope Z_scope.

Lemma look_concat (ls : list (list pixel)) k : look (concat ls) k = sumZ (map (fun l => look l k) ls).
Proof.
  induction ls as [|l ls IH]; [reflexivity|]. cbn [concat map]. rewrite look_app, IH. reflexivity.
Qed.

Lemma symm_aggregate_concat (ls : list (list pixel)) i j :
  symm (aggregate (concat ls)) i j = sumZ (map (fun l => symm l i j) ls).
Proof.
  unfold symm. destruct (aggregate_canon (concat ls)) as (_ & _ & Hlook).
  destruct (i <=? j); rewrite Hlook, look_concat; reflexivity.
Qed.

Theorem merge_then_dense_query nc chroms (inputs : list Index.cooler) buf cs i0 i1 j0 j1 :
  inputs <> [] -> 1 <= zlen chroms -> 0 <= nc -> 0 <= buf -> 1 <= cs ->
  Forall IndexProofs.ValidCSR inputs -> Forall (SameAxes nc chroms true) inputs ->
  0 <= i0 -> i0 <= i1 -> i1 <= zlen chroms -> 0 <= j0 -> j0 <= j1 -> j1 <= zlen chroms ->
  exists c out,
    create_model nc chroms (aggregate (concat (map pixels_of inputs))) true = Some c /\
    fill_lower_query (epx_of (pixels_of c)) (bin1_offset c) (get_spans (bin1_offset c) cs) (i0, i1, j0, j1) = Some out /\
    dense_of out (i0, i1, j0, j1) =
    map (fun i => map (fun j => sumZ (map (fun ci => symm (pixels_of ci) i j) inputs)) (zrange j0 (Z.to_nat (j1 - j0))))
        (zrange i0 (Z.to_nat (i1 - i0))).
Proof.
  intros Hne Hn Hnc Hb Hcs HV HA Hi0 Hi Hi1 Hj0 Hj Hj1.
  destruct (merge_valid nc chroms true inputs buf Hne Hn Hnc Hb HV HA) as (_ & c & Hc & HVc & Hpx & HAc & _).
  assert (Hnb : nbins c = zlen chroms).
  { destruct HVc as (_ & _ & _ & _ & _ & _ & _ & Lc & _). destruct HAc as (_ & Hch & _). now rewrite <- Lc, Hch. }
  assert (Hs : symmetric_upper c = true) by (destruct HAc as (_ & _ & Hs); exact Hs).
  destruct (stored_cooler_range_queries c cs i0 i1 j0 j1 HVc Hcs) as (_ & Hq); try lia.
  destruct (Hq Hs) as (out & Ho & _ & Hd).
  exists c, out. split; [exact Hc|]. split; [exact Ho|]. rewrite Hd, Hpx.
  apply map_ext. intro i. apply map_ext. intro j. rewrite symm_aggregate_concat, map_map. reflexivity.
Qed.
