(** C18  Renaming chromosomes changes names only.
    Statements about the model of _rename_chroms over the object store (Model/Rename.v, Model/H5.v),
    each closed by a lemma of Proofs/RenameProofs.v.
    [shape w f g tc tb names]: g is a collection group whose chroms table tc and bins table tb are
    distinct group objects, chroms/name holds [names], bins/chrom is an enum or integer dataset. *)
From Cooler Require Import Model.Rename Proofs.RenameProofs.

(** names = the substitution applied to every name, in the original order; the collection keeps its shape *)
Theorem C18_names_substituted_in_order : forall w f g tc tb names m w',
  shape w f g tc tb names -> rename_chroms w f g m = Some w' ->
  shape w' f g tc tb (map (subst m) names) /\ chromnames w' f g = map (subst m) (chromnames w f g).
Proof. exact rename_names. Qed.
Print Assumptions C18_names_substituted_in_order.

(** names only: every other readable dataset of any table (lengths, starts, ends, extra columns,
    pixels, indexes) is the same object with the same payload *)
Theorem C18_everything_else_unchanged : forall w f g tc tb names m w' t col x,
  shape w f g tc tb names -> rename_chroms w f g m = Some w' ->
  ~ (t = tc /\ col = "name"%string) -> ~ (t = tb /\ col = "chrom"%string) ->
  ds_at w f t col = Some x -> ds_at w' f t col = Some x.
Proof. exact rename_frame. Qed.
Print Assumptions C18_everything_else_unchanged.

Theorem C18_tables_are_the_same_objects : forall w f g tc tb names m w' tbl o,
  shape w f g tc tb names -> rename_chroms w f g m = Some w' ->
  child w f g tbl = Some o -> child w' f g tbl = Some o.
Proof. exact rename_tables_kept. Qed.
Print Assumptions C18_tables_are_the_same_objects.

(** bin codes are kept; an enum header becomes the new names; an integer encoding is left alone *)
Theorem C18_bin_codes_unchanged : forall w f g tc tb names m w',
  shape w f g tc tb names -> rename_chroms w f g m = Some w' ->
  bin_codes w' f g = bin_codes w f g /\
  (forall hdr codes, ds_at w f tb "chrom"%string = Some (PEnum hdr codes) ->
                     ds_at w' f tb "chrom"%string = Some (PEnum (map (subst m) names) codes)) /\
  (forall codes, ds_at w f tb "chrom"%string = Some (PInts codes) ->
                 ds_at w' f tb "chrom"%string = Some (PInts codes)).
Proof. exact rename_codes. Qed.
Print Assumptions C18_bin_codes_unchanged.

(** bin labels are substituted, for both encodings *)
Theorem C18_bin_labels_substituted : forall w f g tc tb names m w',
  shape w f g tc tb names -> rename_chroms w f g m = Some w' ->
  Forall (fun c => 0 <= c < Z.of_nat (List.length names)) (bin_codes w f g) ->
  (forall hdr codes, ds_at w f tb "chrom"%string = Some (PEnum hdr codes) -> hdr = names) ->
  bin_labels w' f g = map (subst m) (bin_labels w f g).
Proof. exact rename_labels. Qed.
Print Assumptions C18_bin_labels_substituted.

(** for maps whose result is duplicate-free: the id of the new name is the id of the old name ... *)
Theorem C18_lookup_by_new_name : forall m names x,
  NoDup (map (subst m) names) -> In x names ->
  chromid (map (subst m) names) (subst m x) = chromid names x.
Proof. exact rename_chromid. Qed.
Print Assumptions C18_lookup_by_new_name.

(** ... and a region addressed by the new name has the extent the old name had *)
Theorem C18_extent_by_new_name : forall w f g tc tb names m w' x,
  shape w f g tc tb names -> rename_chroms w f g m = Some w' ->
  NoDup (map (subst m) names) -> In x names ->
  (forall ti, child w f g "indexes"%string = Some ti -> ti <> tc /\ ti <> tb) ->
  (forall ti, child w f g "indexes"%string = Some ti -> exists d, ds_at w f ti "chrom_offset"%string = Some d) ->
  extent w' f g (subst m x) = extent w f g x.
Proof. exact rename_extent. Qed.
Print Assumptions C18_extent_by_new_name.

(** a matrix query (stored pixels with both bins in the chromosome's extent) and a bins query addressed by the
    NEW name on the renamed collection return what the query by the OLD name returned on the original *)
Theorem C18_query_by_new_name : forall w f g tc tb names m w' x,
  shape w f g tc tb names -> rename_chroms w f g m = Some w' ->
  NoDup (map (subst m) names) -> In x names ->
  (forall ti, child w f g "indexes"%string = Some ti -> ti <> tc /\ ti <> tb) ->
  (forall ti, child w f g "indexes"%string = Some ti -> exists d, ds_at w f ti "chrom_offset"%string = Some d) ->
  (forall tp, child w f g "pixels"%string = Some tp -> tp <> tc /\ tp <> tb) ->
  (forall col, In col ["bin1_id"; "bin2_id"; "count"]%string -> exists d, column w f g "pixels"%string col = Some d) ->
  (forall col, In col ["start"; "end"]%string -> exists d, column w f g "bins"%string col = Some d) ->
  fetch_pixels w' f g (subst m x) = fetch_pixels w f g x /\
  fetch_bin_coords w' f g (subst m x) = fetch_bin_coords w f g x.
Proof. exact rename_fetch. Qed.
Print Assumptions C18_query_by_new_name.

(** histories: a chain of renamings substitutes map after map *)
Theorem C18_chains_compose : forall ms w f g tc tb names w',
  shape w f g tc tb names -> rename_chain w f g ms = Some w' ->
  let final := fold_left (fun ns m => map (subst m) ns) ms names in
  shape w' f g tc tb final /\ chromnames w' f g = final.
Proof. exact rename_chain_names. Qed.
Print Assumptions C18_chains_compose.

Theorem C18_two_renamings : forall w f g tc tb names m1 m2 w1 w2,
  shape w f g tc tb names -> rename_chroms w f g m1 = Some w1 -> rename_chroms w1 f g m2 = Some w2 ->
  chromnames w2 f g = map (fun x => subst m2 (subst m1 x)) names.
Proof. exact rename_twice. Qed.
Print Assumptions C18_two_renamings.

(** outside the claimed domain (DESIGN section 8): a map producing a duplicate name makes name lookups ambiguous *)
Theorem C18_duplicate_result_refuted :
  match rename_chroms w18 FA 0 [("chr1", "chr2")]%string with
  | Some w' => chromnames w' FA 0 = ["chr2"; "chr2"; "chrX"]%string /\
               extent w' FA 0 "chr2"%string = Some (3, 5) /\ extent w18 FA 0 "chr1"%string = Some (0, 3)
  | None => False
  end.
Proof. exact rename_duplicate_refuted. Qed.
Print Assumptions C18_duplicate_result_refuted.

(** non-vacuity: a concrete collection created by the model of [create] has the shape, and a swap behaves *)
Example ex_C18_shape : shape w18 FA 0 1 4 ["chr1"; "chr2"; "chrX"]%string.
Proof. exact ex_shape18. Qed.
Example ex_C18_swap :
  match rename_chroms w18 FA 0 swap12 with
  | Some w' => chromnames w' FA 0 = ["chr2"; "chr1"; "chrX"]%string /\
               bin_labels w' FA 0 = ["chr2"; "chr2"; "chr2"; "chr1"; "chr1"; "chrX"]%string /\
               extent w' FA 0 "chr2"%string = Some (0, 3) /\ extent w18 FA 0 "chr1"%string = Some (0, 3) /\
               column w' FA 0 "pixels"%string "count"%string = Some (PInts [1; 5])
  | None => False
  end.
Proof. exact ex_swap18. Qed.
Example ex_C18_fetch :
  match rename_chroms w18 FA 0 swap12 with
  | Some w' => fetch_pixels w' FA 0 "chr2"%string = Some [(1, 2, 5)] /\ fetch_pixels w18 FA 0 "chr1"%string = Some [(1, 2, 5)] /\
               fetch_bin_coords w' FA 0 "chr2"%string = Some [(0, 10); (10, 20); (20, 25)]
  | None => False
  end.
Proof. exact ex_fetch18. Qed.

(** the statements of _rename_chroms / rename_chroms that the rename model rests on are pinned in the source on every run
    (tools/py2v.py, whole-body pins): chroms/name is rewritten from the renamed index; whenever bins/chrom is categorical its enum is
    rebuilt from the NEW names in chromosome order over the unchanged codes (no shortcut that keeps an old mapping); the Cooler
    object is refreshed afterwards *)
From Cooler Require Import Gen.Translated.
Theorem C18_source_pins : Gen.rename_chroms_source_pins = true.
Proof. reflexivity. Qed.
Print Assumptions C18_source_pins.
