import warnings; warnings.filterwarnings("ignore")
import patch_gb
import numpy as np, pandas as pd, cooler, itertools, time, os
import multiprocess as mp
from click.testing import CliRunner
from cooler.cli import cli
rng=np.random.default_rng(4)
def pix(u): c=cooler.Cooler(u); return c.bins()[:][["chrom","start","end"]].values.tolist(), c.pixels()[:].values.tolist()
cs=pd.Series({"a":57,"b":23,"c":4}); bins=cooler.binnify(cs,2); n=len(bins)
M=np.triu((rng.random((n,n))<0.3)*rng.integers(1,9,(n,n))); i,j=np.nonzero(M)
cooler.create_cooler("base.cool",bins,pd.DataFrame({"bin1_id":i,"bin2_id":j,"count":M[i,j]}))
# B zoomify ladders
bad=0
for ladder in ([4,8,16],[2,6,12,4],[6,4,12,24],[2],[10,20,4]):
    cooler.zoomify_cooler("base.cool","z.mcool",ladder,chunksize=7)
    lst=cooler.fileops.list_coolers("z.mcool")
    exp=sorted({2,*ladder}); 
    if lst!=[f"/resolutions/{r}" for r in exp]: print("LIST",ladder,lst)
    for r in exp:
        if r==2: ok=pix("z.mcool::resolutions/2")==pix("base.cool")
        else:
            cooler.coarsen_cooler("base.cool","d.cool",r//2,chunksize=1000); ok=pix(f"z.mcool::resolutions/{r}")==pix("d.cool")
        if not ok: bad+=1; print("ZOOM MISMATCH",ladder,r)
    print(ladder,"multires:",cooler.fileops.is_multires_file("z.mcool"))
try: cooler.zoomify_cooler("base.cool","z.mcool",[4,7],chunksize=7); print("7 accepted?!")
except ValueError as e: print("refused:",e)
print("zoom bad",bad)
# C nproc
t=time.time(); cooler.coarsen_cooler("base.cool","p2.cool",3,chunksize=5,nproc=2); cooler.coarsen_cooler("base.cool","p1.cool",3,chunksize=5,nproc=1)
print("nproc2==nproc1",pix("p2.cool")==pix("p1.cool"),round(time.time()-t,1),"s")
# D balance maps/chunks
c=cooler.Cooler("base.cool")
ref,_=cooler.balance_cooler(c,ignore_diags=1,min_nnz=2,mad_max=2,tol=1e-8,chunksize=None)
def revmap(f,it): return list(map(f,list(it)))[::-1]
pool=mp.Pool(3)
for cz,mp_ in ((1,map),(3,revmap),(10**6,map),(5,pool.imap_unordered),(2,pool.map)):
    w,st=cooler.balance_cooler(c,ignore_diags=1,min_nnz=2,mad_max=2,tol=1e-8,chunksize=cz,map=mp_)
    print("balance chunksize",cz,"max rel diff",np.nanmax(np.abs(w/ref-1)),"nan eq",np.array_equal(np.isnan(w),np.isnan(ref)))
pool.close()
# E selectors
b=c.bins(); p=c.pixels(); nn=c.info["nnz"]
full=p[:]
for sl in (slice(None),slice(2,5),slice(-3,None),slice(None,-2),slice(4,4),slice(-nn,nn),3,-1):
    got=p[sl]; exp=full.iloc[sl] if isinstance(sl,slice) else full.iloc[[sl % nn]]
    if not (got.equals(exp)): print("SEL MISMATCH",sl)
print(p[["count"]][2:4].index.tolist(), p["count"][2:4].tolist()==full["count"].iloc[2:4].tolist())
# F dump -> load round trip
runner=CliRunner(); open("cs.txt","w").write("a\t57\nb\t23\nc\t4\n")
r=runner.invoke(cli,["dump","--join","-o","x.bg2","base.cool"]); r2=runner.invoke(cli,["dump","-o","x.coo","base.cool"])
r3=runner.invoke(cli,["load","-f","bg2","cs.txt:2","x.bg2","lb.cool"]); r4=runner.invoke(cli,["load","-f","coo","cs.txt:2","x.coo","lc.cool"])
print(r.exit_code,r2.exit_code,r3.exit_code,r4.exit_code, pix("lb.cool")==pix("base.cool"), pix("lc.cool")==pix("base.cool"))
