(** C16  Text export agrees with the API; re-importing it reproduces the cooler.
    Only statements; proofs are in Proofs/DumpProofs.v.  Model: Model/Dump.v. *)
From Coq Require Import String Ascii QArith Permutation Sorted.
From Coq Require Import List.
From Cooler Require Import Model.Dump Proofs.PixelsProofs Proofs.DumpProofs Proofs.DumpSpansProofs Proofs.DumpIntegration.
From Cooler Require Model.Query Model.Index Proofs.QueryProofs Proofs.SpansProofs Proofs.IndexProofs.
Open Scope Z_scope.

(** dump_eq_query (direct engine): for every option setting, every row-sorted stored table and EVERY admissible
    chunking of the row range, the dump is: nothing when the engine yields no chunk; otherwise the annotated
    window filter of the stored table in storage order, preceded by the header line when -H is given. *)
Theorem C16_dump_eq_query_direct : forall c o cuts,
  o_fill o && d_symm c = false ->
  RowSorted (d_px c) ->
  AdmissibleCuts (d_px c) (bbox_of c o) (cuts (bbox_of c o)) ->
  dump_pixels c o cuts =
    if o_balanced o && no_weights c then None
    else match spans_of (cuts (bbox_of c o)) with
         | [] => Some []
         | _ :: _ =>
             match annot_chunk c o (window_select (d_px c) (bbox_of c o)) with
             | None => None
             | Some rows =>
                 match o_header o, header_of c o with
                 | true, Some h => Some (Header h :: body_of rows)
                 | _, _ => Some (body_of rows)
                 end
             end
         end.
Proof. exact dump_eq_query_direct. Qed.
Print Assumptions C16_dump_eq_query_direct.

(** chunk-size independence: the concatenation of the direct engine's chunks is the window filter for every
    admissible chunking, hence the same for any two *)
Theorem C16_direct_chunks_independent : forall px bb cuts1 cuts2,
  RowSorted px -> AdmissibleCuts px bb (cuts1 bb) -> AdmissibleCuts px bb (cuts2 bb) ->
  concat (direct_chunks px bb cuts1) = window_select px bb /\
  concat (direct_chunks px bb cuts1) = concat (direct_chunks px bb cuts2).
Proof.
  intros px bb cuts1 cuts2 Hs H1 H2. split; [now apply direct_chunks_concat|now apply direct_chunks_independent].
Qed.
Print Assumptions C16_direct_chunks_independent.

Theorem C16_dump_chunk_independent : forall c o cuts1 cuts2,
  o_fill o && d_symm c = false ->
  RowSorted (d_px c) ->
  AdmissibleCuts (d_px c) (bbox_of c o) (cuts1 (bbox_of c o)) ->
  AdmissibleCuts (d_px c) (bbox_of c o) (cuts2 (bbox_of c o)) ->
  (spans_of (cuts1 (bbox_of c o)) = [] <-> spans_of (cuts2 (bbox_of c o)) = []) ->
  dump_pixels c o cuts1 = dump_pixels c o cuts2.
Proof. exact dump_chunk_independent. Qed.
Print Assumptions C16_dump_chunk_independent.

(** a strictly (bin1, bin2)-sorted table — what every cooler stores — is row-sorted *)
Theorem C16_stored_tables_are_row_sorted : forall px, SSorted px -> RowSorted px.
Proof. exact ssorted_rowsorted. Qed.
Print Assumptions C16_stored_tables_are_row_sorted.

(** read_fields_spec: ANY injective assignment of column numbers *)
Theorem C16_read_fields_spec : forall names nums rec,
  NoDup (map (num_of nums) names) ->
  (forall n, In n names -> 0 <= num_of nums n < Z.of_nat (length rec)) ->
  exists r, read_fields names nums rec = Some r /\
            Permutation (map fst r) names /\
            forall n, In n names -> assoc n r = Some (nth (Z.to_nat (num_of nums n)) rec EmptyString).
Proof. exact read_fields_spec. Qed.
Print Assumptions C16_read_fields_spec.

(** the defect D8 (repaired): the same statement is false of the old code *)
Theorem C16_read_fields_old_refuted :
  exists names nums rec n,
    In n names /\ NoDup (map (num_of nums) names) /\
    exists r, read_fields_old names nums rec = Some r /\
              assoc n r <> Some (nth (Z.to_nat (num_of nums n)) rec EmptyString).
Proof. exact read_fields_old_refuted. Qed.
Print Assumptions C16_read_fields_old_refuted.

Theorem C16_parse_print_Z : forall z, parse_Z (print_Z z) = Some z.
Proof. exact parse_print_Z. Qed.
Print Assumptions C16_parse_print_Z.

(** dump_eq_query (fill-lower engine, -f on a symmetric-upper cooler), membership: for every upper-triangular stored
    table, every window and every admissible chunking of every sub-box of the engine's plan, a record is produced iff
    it belongs to the symmetric completion and lies inside the window; the engine never reaches "This shouldn't happen" *)
Theorem C16_dump_eq_query_fill_in : forall px i0 i1 j0 j1 cuts q,
  Upper px -> i0 <= i1 -> j0 <= j1 -> PlanAdmissible px (i0, i1, j0, j1) cuts ->
  match fill_chunks px (i0, i1, j0, j1) cuts with
  | Some chunks => In q (concat chunks) <-> (InSymm px q /\ i0 <= row q < i1 /\ j0 <= col q < j1)
  | None => False
  end.
Proof. exact fill_chunks_in. Qed.
Print Assumptions C16_dump_eq_query_fill_in.

(** the text for given chunks: annotator and projection are record-wise, so the text depends on the chunk list only
    through its concatenation and through whether there is a chunk at all (header: finding D18) *)
Theorem C16_dump_of_chunks : forall c o cuts chunks,
  engine_chunks c o cuts = Some chunks ->
  dump_pixels c o cuts =
    if o_balanced o && no_weights c then None
    else match chunks with
         | [] => Some []
         | _ :: _ =>
             match annot_chunk c o (concat chunks) with
             | None => None
             | Some rows =>
                 match o_header o, header_of c o with
                 | true, Some h => Some (Header h :: body_of rows)
                 | _, _ => Some (body_of rows)
                 end
             end
         end.
Proof. exact dump_of_chunks. Qed.
Print Assumptions C16_dump_of_chunks.

(** option lemmas, each for EVERY setting of the other options *)
Theorem C16_one_based_ids_effect : forall c o p,
  annot_row c (with_ids1 o true) p
  = option_map (bump ["bin1_id"; "bin2_id"]%string) (annot_row c (with_ids1 o false) p).
Proof. exact one_based_ids_effect. Qed.
Print Assumptions C16_one_based_ids_effect.

Theorem C16_one_based_starts_effect : forall c o p,
  annot_row c (with_starts1 o true) p
  = option_map (bump ["start1"; "start2"]%string) (annot_row c (with_starts1 o false) p).
Proof. exact one_based_starts_effect. Qed.
Print Assumptions C16_one_based_starts_effect.

(** what [bump] does: the named columns' integer cells + 1, every other cell and the column names/order unchanged *)
Theorem C16_bump_spec : forall names r n,
  assoc n (bump names r) = option_map (fun v => if mem_str n names then inc_cell v else v) (assoc n r)
  /\ map fst (bump names r) = map fst r.
Proof. intros names r n. split; [apply assoc_bump|apply bump_names]. Qed.
Print Assumptions C16_bump_spec.

Theorem C16_columns_effect : forall c o cols p,
  annot_row c (with_columns o (Some cols)) p
  = match annot_row c (with_columns o None) p with Some r => project cols r | None => None end.
Proof. exact columns_effect. Qed.
Print Assumptions C16_columns_effect.

Theorem C16_project_spec : forall cols r r',
  project cols r = Some r' -> map fst r' = cols /\ forall n, In n cols -> assoc n r' = assoc n r.
Proof. exact project_spec. Qed.
Print Assumptions C16_project_spec.

Theorem C16_join_effect : forall c o p,
  o_join o = true -> o_annot o = None -> o_columns o = None ->
  annot_row c o p =
    Some (let d := if o_starts1 o then 1 else 0 in
          let b1 := bin_at c (row p) in let b2 := bin_at c (col p) in
          [("chrom1", CS (chrom_name c b1)); ("start1", CZ (bstart b1 + d)); ("end1", CZ (bend b1));
           ("chrom2", CS (chrom_name c b2)); ("start2", CZ (bstart b2 + d)); ("end2", CZ (bend b2));
           ("count", CZ (val p))]%string
          ++ (if o_balanced o then [("balanced"%string, CQ (balanced_value c p))] else [])).
Proof. exact join_effect. Qed.
Print Assumptions C16_join_effect.

Theorem C16_plain_effect : forall c o p,
  o_join o = false -> o_annot o = None -> o_columns o = None ->
  annot_row c o p =
    Some (let d := if o_ids1 o then 1 else 0 in
          [("bin1_id", CZ (row p + d)); ("bin2_id", CZ (col p + d)); ("count", CZ (val p))]%string
          ++ (if o_balanced o then [("balanced"%string, CQ (balanced_value c p))] else [])).
Proof. exact plain_effect. Qed.
Print Assumptions C16_plain_effect.

(** load_dump_roundtrip, COO *)
Theorem C16_load_dump_roundtrip_coo : forall ob t chunk px,
  SSorted px -> tril_harmless t px ->
  load_schema false [] = Some coo_schema /\
  load_coo coo_schema "count" ob t chunk (coo_text ob px) = Some px.
Proof. intros ob t chunk px Hs Ht. split; [reflexivity|now apply load_dump_roundtrip_coo]. Qed.
Print Assumptions C16_load_dump_roundtrip_coo.

(** dump_eq_query (fill-lower engine), full strength: for every upper-triangular duplicate-free row-sorted stored table
    (every symmetric-upper cooler), every window and EVERY admissible chunking, the concatenated chunks are a
    rearrangement of the symmetric completion inside the window, each record exactly once *)
Theorem C16_dump_eq_query_fill_perm : forall px i0 i1 j0 j1 cuts,
  Upper px -> NoDup px -> RowSorted px -> i0 <= i1 -> j0 <= j1 -> PlanAdmissible px (i0, i1, j0, j1) cuts ->
  match fill_chunks px (i0, i1, j0, j1) cuts with
  | Some chunks => Permutation (concat chunks) (fill_spec px (i0, i1, j0, j1)) /\ NoDup (concat chunks)
  | None => False
  end.
Proof. exact fill_chunks_perm. Qed.
Print Assumptions C16_dump_eq_query_fill_perm.

Theorem C16_fill_spec_is_symm_completion : forall px i0 i1 j0 j1 q,
  In q (fill_spec px (i0, i1, j0, j1)) <-> InSymm px q /\ i0 <= row q < i1 /\ j0 <= col q < j1.
Proof. exact in_fill_spec. Qed.
Print Assumptions C16_fill_spec_is_symm_completion.

(** the chunking the correspondence run evaluates the model with (CSRReader.get_spans for chunksize >= nnz: one span from
    the first row of the box to the first row at which the offsets stop growing) satisfies the hypothesis of the theorems,
    and yields a chunk exactly when a stored pixel lies in the row range of a non-degenerate box (cf. finding D18) *)
Theorem C16_edges1_admissible : forall px i0 i1 j0 j1,
  i0 <= i1 -> AdmissibleCuts px (i0, i1, j0, j1) (edges1 px (i0, i1, j0, j1)).
Proof. exact edges1_admissible. Qed.
Print Assumptions C16_edges1_admissible.

Theorem C16_edges1_has_span : forall px i0 i1 j0 j1,
  i0 <= i1 ->
  (spans_of (edges1 px (i0, i1, j0, j1)) <> [] <->
   degenerate (i0, i1, j0, j1) = false /\ exists p, In p px /\ i0 <= row p < i1).
Proof. exact edges1_has_span. Qed.
Print Assumptions C16_edges1_has_span.

Theorem C16_dump1_eq_query_direct : forall c o,
  o_fill o && d_symm c = false -> RowSorted (d_px c) ->
  (let '(i0, i1, _, _) := bbox_of c o in i0 <= i1) ->
  dump1 c o =
    if o_balanced o && no_weights c then None
    else match spans_of (edges1 (d_px c) (bbox_of c o)) with
         | [] => Some []
         | _ :: _ =>
             match annot_chunk c o (window_select (d_px c) (bbox_of c o)) with
             | None => None
             | Some rows =>
                 match o_header o, header_of c o with
                 | true, Some h => Some (Header h :: body_of rows)
                 | _, _ => Some (body_of rows)
                 end
             end
         end.
Proof. exact dump1_eq_query_direct. Qed.
Print Assumptions C16_dump1_eq_query_direct.

(** load_dump_roundtrip, BG2: `dump --join [--one-based-starts]` re-imported with `load -f bg2 [--one-based]` over the
    same bin table (any table passing the executable check [bins_ok_b]: distinct names, non-empty bins listed by
    (chromosome, start) without overlap inside a chromosome — every valid tiling), any chunk size *)
Theorem C16_load_dump_roundtrip_bg2 : forall bins names ob t chunk px,
  bins_ok_b bins names = true -> InRange bins px -> SSorted px -> tril_harmless t px ->
  load_schema true [] = Some bg2_schema /\
  load_bg2 bins names bg2_schema "count" ob t chunk (bg2_text bins names ob px) = Some px.
Proof.
  intros bins names ob t chunk px Hb Hr Hs Ht. split; [reflexivity|].
  apply load_dump_roundtrip_bg2; try assumption. now apply bins_ok_b_sound.
Qed.
Print Assumptions C16_load_dump_roundtrip_bg2.

(** the canonical aggregate of distinct sorted records is itself; a chunk holding a pixel twice is refused *)
Theorem C16_load_pixels_roundtrip : forall ob t chunk px,
  SSorted px -> tril_harmless t px -> load_pixels ob t chunk (map (shift_ids ob) px) = Some px.
Proof. exact load_pixels_roundtrip. Qed.
Print Assumptions C16_load_pixels_roundtrip.

(** `cooler cload pairs -c1 a -p1 b -c2 c -p2 d` for ANY pairwise distinct one-based field numbers (every permutation,
    with gaps): the schema is accepted, `count` is the output column, every positional field gets its own column's text *)
Theorem C16_cload_positional_any_layout : forall c1 p1 c2 p2 rec,
  1 <= c1 <= Z.of_nat (length rec) -> 1 <= p1 <= Z.of_nat (length rec) ->
  1 <= c2 <= Z.of_nat (length rec) -> 1 <= p2 <= Z.of_nat (length rec) ->
  NoDup [c1; p1; c2; p2] ->
  exists s r, cload_schema c1 p1 c2 p2 [] = Some s /\ s_out s = ["count"%string] /\
    read_fields (s_in s) (s_num s) rec = Some r /\
    assoc "chrom1" r = Some (nth (Z.to_nat (c1 - 1)) rec EmptyString) /\
    assoc "pos1" r = Some (nth (Z.to_nat (p1 - 1)) rec EmptyString) /\
    assoc "chrom2" r = Some (nth (Z.to_nat (c2 - 1)) rec EmptyString) /\
    assoc "pos2" r = Some (nth (Z.to_nat (p2 - 1)) rec EmptyString).
Proof. exact cload_positional_any_layout. Qed.
Print Assumptions C16_cload_positional_any_layout.

(** parse_field_param on the documented form NAME=NUMBER (name free of ':' and '='): zero-based column = NUMBER - 1 for
    every NUMBER >= 1; NUMBER = 0 is refused ("Field numbers start at 1") *)
Theorem C16_parse_field_param_name_number : forall name k agg,
  has_char ":" name = false -> has_char "=" name = false -> 1 <= k ->
  parse_field_param (append name (String "=" (print_Z k))) true agg = FP name (Some (k - 1)) None None.
Proof. exact parse_field_param_name_number. Qed.
Print Assumptions C16_parse_field_param_name_number.

Theorem C16_parse_field_param_zero_refused : forall name agg,
  has_char ":" name = false -> has_char "=" name = false ->
  parse_field_param (append name (String "=" (print_Z 0))) true agg = FPBad.
Proof. exact parse_field_param_zero_refused. Qed.
Print Assumptions C16_parse_field_param_zero_refused.

(* ---------------------------------------------------------------- integration with C03 (real get_spans) and C02 (schema) *)
(** the edge list of CSRReader.get_spans as modelled in Model/Query.v (arg_prune_partition, every chunk size k >= 1) is
    an admissible chunking for the dump's engine model; [OffsetsFor px n off]: off[i] = #records with bin1 < i, i = 0..n *)
Theorem C16_get_spans_admissible : forall px n off k i0 i1 j0 j1,
  OffsetsFor px n off -> 1 <= k -> 0 <= i0 -> i0 <= i1 -> i1 <= n ->
  Query.get_spans off k (i0, i1, j0, j1) = spans_of (get_edges off k (i0, i1, j0, j1)) /\
  AdmissibleCuts px (i0, i1, j0, j1) (get_edges off k (i0, i1, j0, j1)).
Proof. intros. split; [apply get_spans_edges|now apply (get_edges_admissible px n)]. Qed.
Print Assumptions C16_get_spans_admissible.

(** dump_eq_query (direct engine) for EVERY -k >= 1, no admissibility hypothesis *)
Theorem C16_dump_direct_every_chunksize : forall c o n off k,
  o_fill o && d_symm c = false ->
  RowSorted (d_px c) -> OffsetsFor (d_px c) n off -> BoxIn n (bbox_of c o) -> 1 <= k ->
  dump_pixels c o (get_edges off k) =
    if o_balanced o && no_weights c then None
    else match Query.get_spans off k (bbox_of c o) with
         | [] => Some []
         | _ :: _ =>
             match annot_chunk c o (window_select (d_px c) (bbox_of c o)) with
             | None => None
             | Some rows =>
                 match o_header o, header_of c o with
                 | true, Some h => Some (Header h :: body_of rows)
                 | _, _ => Some (body_of rows)
                 end
             end
         end.
Proof. exact dump_direct_every_chunksize. Qed.
Print Assumptions C16_dump_direct_every_chunksize.

(** dump_eq_query (fill-lower engine) for EVERY -k >= 1 *)
Theorem C16_fill_every_chunksize : forall px n off k i0 i1 j0 j1,
  Upper px -> NoDup px -> RowSorted px -> OffsetsFor px n off -> BoxIn n (i0, i1, j0, j1) -> 1 <= k ->
  exists chunks, fill_chunks px (i0, i1, j0, j1) (get_edges off k) = Some chunks /\
    Permutation (concat chunks) (fill_spec px (i0, i1, j0, j1)) /\ NoDup (concat chunks).
Proof. exact fill_every_chunksize. Qed.
Print Assumptions C16_fill_every_chunksize.

(** the dump's engine model and the engines of Model/Query.v (C03) agree on every stored table and chunk size:
    direct = same list; fill-lower = rearrangements of one another *)
Theorem C16_direct_engine_agrees_with_C03 : forall px n off k i0 i1 j0 j1,
  QueryProofs.ValidCSR n (Query.epx_of px) off -> RowSorted px -> OffsetsFor px n off ->
  1 <= k -> 0 <= i0 -> i0 <= i1 -> i1 <= n ->
  concat (direct_chunks px (i0, i1, j0, j1) (get_edges off k))
  = map snd (Query.direct_query (Query.epx_of px) off (Query.get_spans off k) (i0, i1, j0, j1)).
Proof. exact direct_engine_agrees. Qed.
Print Assumptions C16_direct_engine_agrees_with_C03.

Theorem C16_fill_engine_agrees_with_C03 : forall px n off k i0 i1 j0 j1,
  QueryProofs.ValidCSR n (Query.epx_of px) off -> Upper px -> NoDup px -> RowSorted px -> OffsetsFor px n off ->
  BoxIn n (i0, i1, j0, j1) -> 1 <= k ->
  exists chunks out,
    fill_chunks px (i0, i1, j0, j1) (get_edges off k) = Some chunks /\
    Query.fill_lower_query (Query.epx_of px) off (Query.get_spans off k) (i0, i1, j0, j1) = Some out /\
    Permutation (concat chunks) (map snd out).
Proof. exact fill_engine_agrees. Qed.
Print Assumptions C16_fill_engine_agrees_with_C03.

(** the real get_spans yields a span iff a stored record lies in the row range of a non-degenerate box, for every -k
    (the exact condition of finding D18: no chunk -> no header) *)
Theorem C16_get_spans_nonempty_iff_pixel : forall px n off k i0 i1 j0 j1,
  OffsetsFor px n off -> 1 <= k -> 0 <= i0 -> i0 <= i1 -> i1 <= n ->
  (Query.get_spans off k (i0, i1, j0, j1) <> [] <->
   degenerate (i0, i1, j0, j1) = false /\ exists p, In p px /\ i0 <= row p < i1).
Proof. exact get_spans_nonempty_iff_pixel. Qed.
Print Assumptions C16_get_spans_nonempty_iff_pixel.

(** C16 over C02: every collection satisfying the published schema (IndexProofs.ValidCSR), every option setting, every
    window inside the bin table, EVERY -k >= 1: dump rows = annotated stored records in the window in storage order,
    resp. (with -f on a symmetric-upper collection) the annotated rearrangement of the symmetric completion in the window *)
Theorem C16_stored_collection_dump : forall (c : Index.cooler) (dc : dcooler) o k,
  IndexProofs.ValidCSR c -> Describes dc c -> BoxIn (Index.nbins c) (bbox_of dc o) -> 1 <= k ->
  let cuts := get_edges (Index.bin1_offset c) k in
  (o_fill o && d_symm dc = false ->
     dump_pixels dc o cuts =
       if o_balanced o && no_weights dc then None
       else match Query.get_spans (Index.bin1_offset c) k (bbox_of dc o) with
            | [] => Some []
            | _ :: _ =>
                match annot_chunk dc o (window_select (Index.pixels_of c) (bbox_of dc o)) with
                | None => None
                | Some rows =>
                    match o_header o, header_of dc o with
                    | true, Some h => Some (Header h :: body_of rows)
                    | _, _ => Some (body_of rows)
                    end
                end
            end) /\
  (o_fill o && d_symm dc = true ->
     exists chunks,
       engine_chunks dc o cuts = Some chunks /\
       Permutation (concat chunks) (fill_spec (Index.pixels_of c) (bbox_of dc o)) /\ NoDup (concat chunks) /\
       dump_pixels dc o cuts =
         if o_balanced o && no_weights dc then None
         else match chunks with
              | [] => Some []
              | _ :: _ =>
                  match annot_chunk dc o (concat chunks) with
                  | None => None
                  | Some rows =>
                      match o_header o, header_of dc o with
                      | true, Some h => Some (Header h :: body_of rows)
                      | _, _ => Some (body_of rows)
                      end
                  end
              end).
Proof. exact stored_collection_dump. Qed.
Print Assumptions C16_stored_collection_dump.

Theorem C16_stored_collection_dump_chunksize_independent : forall (c : Index.cooler) (dc : dcooler) o k1 k2,
  IndexProofs.ValidCSR c -> Describes dc c -> BoxIn (Index.nbins c) (bbox_of dc o) -> 1 <= k1 -> 1 <= k2 ->
  o_fill o && d_symm dc = false ->
  dump_pixels dc o (get_edges (Index.bin1_offset c) k1) = dump_pixels dc o (get_edges (Index.bin1_offset c) k2).
Proof. exact stored_collection_dump_chunksize_independent. Qed.
Print Assumptions C16_stored_collection_dump_chunksize_independent.

(** the same for EVERY admissible cut function in place of the exact-arithmetic linspace (numpy computes the interior
    cuts in floating point): SpansProofs.AdmissibleCuts = contains lo and hi, all cuts <= hi *)
Theorem C16_dump_direct_every_cut_sequence : forall c o n off cutsf,
  (forall seq, StronglySorted Z.le seq -> seq <> [] -> SpansProofs.AdmissibleCuts seq (cutsf seq)) ->
  o_fill o && d_symm c = false ->
  RowSorted (d_px c) -> OffsetsFor (d_px c) n off -> BoxIn n (bbox_of c o) ->
  dump_pixels c o (edges_with cutsf off) =
    if o_balanced o && no_weights c then None
    else match SpansProofs.spans_with cutsf off (bbox_of c o) with
         | [] => Some []
         | _ :: _ =>
             match annot_chunk c o (window_select (d_px c) (bbox_of c o)) with
             | None => None
             | Some rows =>
                 match o_header o, header_of c o with
                 | true, Some h => Some (Header h :: body_of rows)
                 | _, _ => Some (body_of rows)
                 end
             end
         end.
Proof. exact dump_direct_every_cut_sequence. Qed.
Print Assumptions C16_dump_direct_every_cut_sequence.

Theorem C16_fill_every_cut_sequence : forall px n off cutsf i0 i1 j0 j1,
  (forall seq, StronglySorted Z.le seq -> seq <> [] -> SpansProofs.AdmissibleCuts seq (cutsf seq)) ->
  Upper px -> NoDup px -> RowSorted px -> OffsetsFor px n off -> BoxIn n (i0, i1, j0, j1) ->
  exists chunks, fill_chunks px (i0, i1, j0, j1) (edges_with cutsf off) = Some chunks /\
    Permutation (concat chunks) (fill_spec px (i0, i1, j0, j1)) /\ NoDup (concat chunks).
Proof. exact fill_every_cut_sequence. Qed.
Print Assumptions C16_fill_every_cut_sequence.

(* ---------------------------------------------------------------- non-vacuity *)
Definition ex_cool : dcooler :=
  {| d_bins := [(0,0,10);(0,10,20);(0,20,25);(1,0,10);(1,10,17)]; d_names := ["a";"b"]%string;
     d_weight := Some [Some (1#2)%Q; None; Some (5#4)%Q; Some (2#1)%Q; Some (3#4)%Q];
     d_px := [((0,0),3);((0,3),1);((1,1),4);((2,2),1);((2,4),5);((4,4),9)]; d_symm := true |}.
Definition ex_opts (fill : bool) (r : option (range * option range)) : dopts :=
  {| o_range := r; o_fill := fill; o_balanced := true; o_join := true; o_annot := None; o_ids1 := true;
     o_starts1 := true; o_columns := Some ["chrom1"; "start2"; "balanced"]%string; o_header := true |}.

(** the hypotheses of the theorems hold of a concrete non-trivial cooler, and the dump is non-trivial *)
Example ex_C16_hypotheses :
  ssorted_b (d_px ex_cool) = true /\ upper_b (d_px ex_cool) = true /\
  bins_ok_b (d_bins ex_cool) (d_names ex_cool) = true /\
  inrange_b 5 (d_px ex_cool) = true.
Proof. vm_compute. repeat split; reflexivity. Qed.

Example ex_C16_dump_direct :
  dump1 ex_cool (ex_opts false (Some ((0, 3), Some (2, 5)))) =
  Some [Header ["chrom1"; "start2"; "balanced"]%string;
        Data [CS "a"; CZ 1; CQ (Some ((1#2) * (2#1) * inject_Z 1)%Q)];
        Data [CS "a"; CZ 21; CQ (Some ((5#4) * (5#4) * inject_Z 1)%Q)];
        Data [CS "a"; CZ 11; CQ (Some ((5#4) * (3#4) * inject_Z 5)%Q)]].
Proof. vm_compute. reflexivity. Qed.

(** finding D18 in the model: header requested, the row range holds no pixel -> nothing at all is printed *)
Example ex_C16_header_missing_D18 :
  dump1 ex_cool (ex_opts false (Some ((3, 4), None))) = Some [].
Proof. vm_compute. reflexivity. Qed.

(** the fill-lower engine on a window below the diagonal: the mirrored records *)
Example ex_C16_fill_lower :
  option_map (@concat pixel) (fill_chunks (d_px ex_cool) (3, 5, 0, 3) (edges1 (d_px ex_cool)))
  = Some [((3,0),1); ((4,2),5)].
Proof. vm_compute. reflexivity. Qed.

Example ex_C16_roundtrips :
  load_coo coo_schema "count" true Reflect 2%nat (coo_text true (d_px ex_cool)) = Some (d_px ex_cool) /\
  load_bg2 (d_bins ex_cool) (d_names ex_cool) bg2_schema "count" true Reflect 4%nat
           (bg2_text (d_bins ex_cool) (d_names ex_cool) true (d_px ex_cool)) = Some (d_px ex_cool).
Proof. vm_compute. split; reflexivity. Qed.

(** D8 regression: `cload pairs -c1 4 -p1 3 -c2 2 -p2 1` and `load --field foo=5 --field count=3` *)
Example ex_C16_D8 :
  (match cload_schema 4 3 2 1 [] with
   | Some s => read_fields (s_in s) (s_num s) ["7"; "b"; "3"; "a"]%string
   | None => None end)
  = Some [("pos2", "7"); ("chrom2", "b"); ("pos1", "3"); ("chrom1", "a")]%string /\
  (match load_schema false [parse_field_param "foo=5" true false; parse_field_param "count=3" true false] with
   | Some s => coo_record s "count" ["0"; "1"; "42"; "x"; "9"]%string
   | None => None end) = Some ((0, 1), 42).
Proof. vm_compute. split; reflexivity. Qed.

(** the integration hypotheses hold of the concrete cooler, and the real get_spans with -k 1 gives the same dump as the
    single-span chunking the correspondence run evaluates *)
Example ex_C16_every_chunksize :
  let off := Query.offsets_of 5 (d_px ex_cool) in
  Query.valid_csr_b 5 (Query.epx_of (d_px ex_cool)) off = true /\
  Query.get_spans off 1 (0, 3, 2, 5) = [(0, 1); (1, 2); (2, 3)] /\
  dump_pixels ex_cool (ex_opts false (Some ((0, 3), Some (2, 5)))) (get_edges off 1)
  = dump1 ex_cool (ex_opts false (Some ((0, 3), Some (2, 5)))).
Proof. vm_compute. repeat split; reflexivity. Qed.
