#!/usr/bin/env python3
"""Mutation smoke test: apply one textual replacement to a scratch worktree of /repo and run a check against it.
usage: tools/muttest.py PROP relative/file.py 'old text' 'new text' [--count N] [--tier quick]
Prints the last lines of the check output; the scratch worktree is removed afterwards."""
import os, subprocess, sys, tempfile, shutil
prop, rel, old, new = sys.argv[1:5]
count = 1
if "--count" in sys.argv:
    count = int(sys.argv[sys.argv.index("--count") + 1])
d = tempfile.mkdtemp(prefix=f"mut_{prop}_", dir="/tmp")
os.rmdir(d)
subprocess.run(["git", "-C", "/repo", "worktree", "add", "--detach", d, "HEAD"], check=True, capture_output=True)
try:
    p = os.path.join(d, rel)
    s = open(p).read()
    if s.count(old) < 1:
        print("MUTATION TEXT NOT FOUND"); sys.exit(3)
    s = s.replace(old, new, count)
    open(p, "w").write(s)
    env = dict(os.environ, VERIF_REPO=d)
    pr = subprocess.run(["/verif/check", prop, "--no-proofs"], env=env, capture_output=True, text=True, timeout=3000)
    out = (pr.stdout + pr.stderr).strip().splitlines()
    print("\n".join(out[-6:]))
    print("exit", pr.returncode)
    for line in out:
        if line.startswith("VIOLATION") and "replay=" in line:
            rp = line.split("replay=")[1].split()[0]
            try:
                print(open(rp).read()[:1200])
            except Exception:
                pass
            break
finally:
    subprocess.run(["git", "-C", "/repo", "worktree", "remove", "--force", d], capture_output=True)
    shutil.rmtree(d, ignore_errors=True)
