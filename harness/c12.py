"""C12 — balanced reads equal raw values times the two bin weights.

Correspondence: Cooler.matrix(balance=..., divisive_weights=..., sparse/as_pixels)[window] against the Gallina model
(coq/Model/Balanced.v, exact rationals, None = NaN) on ALL windows of small matrices with several weight columns, and
against the primitive-float model (coq/Model/BalancedF.v) BIT FOR BIT, including zero / infinite / negative /
subnormal / overflowing weights that the rational model excludes.
Property oracle (independent of the query code): count x w(row bin) x w(col bin) computed with fractions from the
raw stored columns; floats are compared with the exact rational within 4 ulp (two float multiplications).
"""
from __future__ import annotations

import itertools
import math
import os
from concurrent.futures import ProcessPoolExecutor
from fractions import Fraction

import numpy as np

import coqio as C
from c03 import windows, make_bins

PROP = "C12"
RULE = ("coolers with n<=4 (quick) / n<=5 (thorough) bins, symmetric-upper and square, with weight columns 'weight', 'KR', 'VC', 'VC_SQRT', 'w2' "
        "holding dyadic and non-dyadic floats and NaNs; for each: ALL windows x {dense, sparse, pixels} x balance in {True, 'weight', 'KR', 'VC', "
        "'VC_SQRT', 'w2', missing name} x divisive_weights in {None, True, False} (quick: a rotating subset of the option grid per cooler); "
        "one evaluation = one (cooler, option set, window, form) query; non-trivial = non-empty window on a non-empty matrix; "
        "distinct by (cooler, options, window)")
TRUSTED = ["h5py raw reads of pixel columns, bin1_offset and the weight columns (model input and oracle reference)"]
ASSUMPTIONS = ["rational pass: a float64 product of three factors differs from the exact rational product by at most 4 ulp (two roundings), "
               "weights used with divisive=True are non-zero; binary64 pass: no tolerance — Coq's primitive floats and numpy's float64 are both "
               "IEEE-754 binary64 with round-to-nearest-even, integer counts convert exactly below 2^53 and with one rounding above"]
RESIDUE = ["`cooler dump -b` is driven here through the oracle only (its text model is C16's); NaN payloads and the sign of NaN are not compared (NaN is one class)"]
# Print Assumptions lists the kernel's primitive integers/floats as "Axioms:" (they are primitives, not ours) and, for
# C12_float_masked_bin_gives_nan only, the standard library's IEEE statements Floats.FloatAxioms.mul_spec / div_spec
_PRIMS = ["int", "float", "sub", "lsl", "lsr", "lor", "land", "eqb", "ltb", "opp", "abs", "mul", "div", "of_uint63", "normfr_mantissa", "frshiftexp"]
ALLOW_AXIOMS = tuple(_PRIMS + ["PrimInt63." + x for x in _PRIMS] + ["PrimFloat." + x for x in _PRIMS] + ["Uint63." + x for x in _PRIMS]
                     + ["FloatAxioms.mul_spec", "FloatAxioms.div_spec"])

NAMES = ["weight", "KR", "VC", "VC_SQRT", "w2"]
REL = 1e-12


def gen_cases(ctx):
    rng = ctx.rng
    thorough = ctx.tier == "thorough"
    cases = []
    for n in ((2, 3, 4, 5) if thorough else (2, 3, 4)):
        for rep in range(4 if thorough else 3):
            symm = rep != 2
            cells = [(i, j) for i in range(n) for j in (range(i, n) if symm else range(n))]
            dens = [0.9, 0.5, 0.7, 0.3][rep]
            pix = [[i, j, rng.randint(1, 50)] for (i, j) in cells if rng.random() < dens]
            cols = {}
            for name in NAMES:
                vals = []
                for k in range(n):
                    r = rng.random()
                    if r < 0.2:
                        vals.append(None)                       # NaN = masked bin
                    elif r < 0.6:
                        vals.append(rng.choice([0.5, 0.25, 1.5, 2.0, 0.125, 3.0]))   # dyadic
                    else:
                        vals.append(rng.uniform(0.05, 3.0))     # arbitrary float
                cols[name] = vals
            cases.append({"n": n, "pixels": pix, "symm": symm, "weights": cols})
    grid = [(b, d) for b in [True, "weight", "KR", "VC", "VC_SQRT", "w2", "nope"] for d in [None, True, False]]
    for k, c in enumerate(cases):
        if thorough:
            c["options"] = [[b, d] for b, d in grid]
        else:
            sel = [grid[(k * 5 + t * 4) % len(grid)] for t in range(6)]
            sel += [("KR", None), (True, None), ("nope", None)]
            c["options"] = [list(x) for x in dict.fromkeys(sel)]
        c["chunk"] = [1, 2, 10 ** 7][k % 3]
    return cases


def frac(x):
    return None if x is None else Fraction(x)


def close(got, exact):
    """float result vs exact rational"""
    if exact is None:
        return isinstance(got, float) and math.isnan(got)
    if isinstance(got, float) and math.isnan(got):
        return False
    return abs(Fraction(float(got)) - exact) <= Fraction(4, 2 ** 52) * abs(exact)


def _worker(arg):
    path, case = arg
    import h5py
    import pandas as pd
    import cooler
    n = case["n"]
    df = pd.DataFrame(case["pixels"], columns=["bin1_id", "bin2_id", "count"]).astype(np.int64)
    bins = make_bins(n)
    for name, vals in case["weights"].items():
        bins[name] = [np.nan if v is None else v for v in vals]
    cooler.create_cooler(path, bins, df, symmetric_upper=case["symm"], dtypes={"count": np.int64})
    with h5py.File(path, "r") as f:
        b1 = f["pixels/bin1_id"][:].tolist(); b2 = f["pixels/bin2_id"][:].tolist(); cnt = f["pixels/count"][:].tolist()
        off = f["indexes/bin1_offset"][:].tolist()
        wraw = {name: [None if np.isnan(v) else float(v) for v in f["bins/" + name][:]] for name in case["weights"]}
    F = [[0] * n for _ in range(n)]
    for r, c, v in zip(b1, b2, cnt):
        F[r][c] += v
        if case["symm"] and r != c:
            F[c][r] += v
    stored = list(zip(range(len(b1)), b1, b2, cnt))
    res = {"raw": [b1, b2, cnt, off], "wraw": wraw, "cks": [], "fails": [], "nq": 0}
    fh = h5py.File(path, "r")
    clr = cooler.Cooler(fh)
    wins = windows(n)
    try:
        for bal, dw in case["options"]:
            name = "weight" if bal is True else bal
            divisive = dw if dw is not None else (name in ("KR", "VC", "VC_SQRT"))
            wq = None
            if name in wraw:
                wq = [frac(v) for v in wraw[name]]
                if divisive:
                    wq = [None if v is None else (None if v == 0 else 1 / v) for v in wq]
            row = {"dense": [], "sparse": [], "pixels": []}
            for form in ("dense", "sparse", "pixels"):
                kw = dict(balance=bal, chunksize=case["chunk"])
                if dw is not None:
                    # the flag as Python bool, numpy bool (what h5py hands back for the attribute `cooler balance` writes) or 0/1
                    kw["divisive_weights"] = [dw, np.bool_(dw), int(dw)][case.get("flag_type", 0)]
                if form == "sparse":
                    kw["sparse"] = True
                if form == "pixels":
                    kw.update(as_pixels=True, join=False, ignore_index=False)
                sel = clr.matrix(**kw)
                for (i0, i1, j0, j1) in wins:
                    res["nq"] += 1
                    try:
                        got = sel[i0:i1, j0:j1]
                    except ValueError as e:
                        row[form].append((-1, 0, Fraction(0)))
                        if wq is not None and len(res["fails"]) < 4:
                            res["fails"].append({"options": [bal, dw], "form": form, "window": [i0, i1, j0, j1], "error": repr(e)})
                        continue
                    except Exception as e:
                        row[form].append((-9, 0, Fraction(0)))
                        if len(res["fails"]) < 4:
                            res["fails"].append({"options": [bal, dw], "form": form, "window": [i0, i1, j0, j1], "error": repr(e)})
                        continue
                    if wq is None:     # a missing column must be an error, never an unbalanced result
                        row[form].append((-8, 0, Fraction(0)))
                        if len(res["fails"]) < 4:
                            res["fails"].append({"options": [bal, dw], "form": form, "window": [i0, i1, j0, j1], "error": "missing weight column did not raise"})
                        continue
                    ok = True
                    nans = 0
                    tot = Fraction(0)
                    if form == "dense":
                        ok = got.shape == (i1 - i0, j1 - j0)
                        for a in range(i1 - i0):
                            for b_ in range(j1 - j0):
                                w1, w2 = wq[i0 + a], wq[j0 + b_]
                                exact = None if (w1 is None or w2 is None) else w1 * w2 * F[i0 + a][j0 + b_]
                                g = float(got[a, b_]) if ok else float("nan")
                                ok = ok and close(g, exact)
                                if math.isnan(g):
                                    nans += 1
                                else:
                                    tot += (1 + 31 * a + 1009 * b_) * Fraction(g)
                        ck = (1, nans, tot)
                    elif form == "sparse":
                        ents = sorted(zip((got.row + i0).tolist(), (got.col + j0).tolist(), got.data.tolist()))
                        exp_keys = sorted((r, c) for r in range(i0, i1) for c in range(j0, j1) if F[r][c] != 0)
                        ok = [(r, c) for r, c, _ in ents] == exp_keys
                        for r, c, g in ents:
                            w1, w2 = wq[r], wq[c]
                            exact = None if (w1 is None or w2 is None) else w1 * w2 * F[r][c]
                            ok = ok and close(float(g), exact)
                            if math.isnan(g):
                                nans += 1
                            else:
                                tot += (1 + 7 * r + 131 * c) * Fraction(float(g))
                        ck = (2, nans + 1000 * len(ents), tot)
                    else:
                        recs = list(zip(got.index.tolist(), got["bin1_id"].tolist(), got["bin2_id"].tolist(), got["count"].tolist(),
                                        got["balanced"].tolist() if "balanced" in got.columns else [None] * len(got)))
                        exp = [t for t in stored if i0 <= t[1] < i1 and j0 <= t[2] < j1]
                        ok = [t[:4] for t in recs] == exp and "balanced" in got.columns
                        for k, (ix, r, c, v, g) in enumerate(recs):
                            w1, w2 = wq[r], wq[c]
                            exact = None if (w1 is None or w2 is None) else w1 * w2 * v
                            ok = ok and g is not None and close(float(g), exact)
                            if g is None or math.isnan(g):
                                nans += 1
                            else:
                                tot += (k + 1) * (1 + 7 * r + 131 * c) * Fraction(float(g))
                        ck = (3, nans + 1000 * len(recs), tot)
                    row[form].append(ck)
                    if not ok and len(res["fails"]) < 4:
                        res["fails"].append({"options": [bal, dw], "form": form, "window": [i0, i1, j0, j1],
                                             "got": np.asarray(got.toarray() if form == "sparse" else got).tolist() if form != "pixels" else got.to_dict("list")})
            # pixel output with join=True: same balanced values, ids replaced by the bins' own coordinates (oracle only)
            if wq is not None:
                for (i0, i1, j0, j1) in wins[:: max(1, len(wins) // 10)]:
                    try:
                        kwj = dict(balance=bal, as_pixels=True, join=True, chunksize=case["chunk"])
                        if dw is not None:
                            kwj["divisive_weights"] = dw
                        gj = clr.matrix(**kwj)[i0:i1, j0:j1]
                        exp = [t for t in stored if i0 <= t[1] < i1 and j0 <= t[2] < j1]
                        okj = len(gj) == len(exp) and "balanced" in gj.columns
                        for k, t in enumerate(exp):
                            if not okj:
                                break
                            w1, w2 = wq[t[1]], wq[t[2]]
                            exact = None if (w1 is None or w2 is None) else w1 * w2 * t[3]
                            okj = (close(float(gj["balanced"].iloc[k]), exact) and int(gj["start1"].iloc[k]) == int(bins["start"][t[1]])
                                   and int(gj["end2"].iloc[k]) == int(bins["end"][t[2]]) and str(gj["chrom2"].iloc[k]) == str(bins["chrom"][t[2]]))
                        res["nq"] += 1
                        if not okj and len(res["fails"]) < 4:
                            res["fails"].append({"options": [bal, dw], "form": "pixels+join", "window": [i0, i1, j0, j1], "got": gj.to_dict("list")})
                    except Exception as e:
                        if len(res["fails"]) < 4:
                            res["fails"].append({"options": [bal, dw], "form": "pixels+join", "window": [i0, i1, j0, j1], "error": repr(e)})
            res["cks"].append(row)
    finally:
        fh.close()
    os.unlink(path)
    return res


# ---------------------------------------------------------------------------------------------------------------
# binary64, bit for bit: the primitive-float model (coq/Model/BalancedF.v) against the implementation's floats
def fcode(x):
    """(is NaN, signed infinity, signed integer code of the bit pattern of a finite value) — mirrors BalancedF.fcode"""
    x = float(x)
    if math.isnan(x):
        return (1, 0, 0)
    if math.isinf(x):
        return (0, 1 if x > 0 else -1, 0)
    if x == 0.0:
        return (0, 0, 0)
    m, e = math.frexp(abs(x))
    M, E = int(m * (1 << 53)), e - 53
    if E < -1074:
        M >>= (-1074 - E)
        E = -1074
    return (0, 0, (-1 if x < 0 else 1) * (M * 4096 + (E + 1100)))


def fsum(cells):
    a = b_ = c = 0
    for coef, x in cells:
        n, i, v = fcode(x)
        a += n
        b_ += i * coef
        c += coef * v
    return a, b_, c


def flit(x):
    if x is None or math.isnan(x):
        return "PrimFloat.nan"
    if math.isinf(x):
        return "PrimFloat.infinity" if x > 0 else "PrimFloat.neg_infinity"
    h = float(x).hex()
    return f"({h})%float" if not h.startswith("-") else f"(- {h[1:]})%float"


def bits_eq(a, b_):
    a, b_ = float(a), float(b_)
    return (math.isnan(a) and math.isnan(b_)) or (a == b_ and math.copysign(1, a) == math.copysign(1, b_))


def _fworker(arg):
    """float checksums of every (option, form, window) + an independent float oracle: the products in numpy's order,
    computed with Python floats from the raw stored columns"""
    path, case = arg
    import h5py
    import pandas as pd
    import cooler
    n = case["n"]
    df = pd.DataFrame(case["pixels"], columns=["bin1_id", "bin2_id", "count"]).astype(np.int64)
    bins = make_bins(n)
    for name, vals in case["weights"].items():
        bins[name] = [np.nan if v is None else v for v in vals]
        if case.get("wdtype", {}).get(name):          # a weight column STORED with an integer dtype (e.g. a raw coverage vector)
            bins[name] = bins[name].astype(case["wdtype"][name])
    cooler.create_cooler(path, bins, df, symmetric_upper=case["symm"], dtypes={"count": np.int64})
    with h5py.File(path, "r") as f:
        b1 = f["pixels/bin1_id"][:].tolist(); b2 = f["pixels/bin2_id"][:].tolist(); cnt = f["pixels/count"][:].tolist()
        off = f["indexes/bin1_offset"][:].tolist()
        wraw = {name: [float(v) for v in f["bins/" + name][:]] for name in case["weights"]}
        for name, dt in case.get("wdtype", {}).items():
            if name in case["weights"] and str(f["bins/" + name].dtype) != dt:
                res_dtype_note = f"bins/{name} stored as {f['bins/' + name].dtype}, asked {dt}"
                raise AssertionError(res_dtype_note)
    F = [[0] * n for _ in range(n)]
    for r, c, v in zip(b1, b2, cnt):
        F[r][c] += v
        if case["symm"] and r != c:
            F[c][r] += v
    stored = list(zip(range(len(b1)), b1, b2, cnt))
    res = {"raw": [b1, b2, cnt, off], "wraw": wraw, "cks": [], "fails": [], "nq": 0}
    wins = windows(n)
    clr = cooler.Cooler(path)
    with np.errstate(all="ignore"):
        for bal, dw in case["options"]:
            name = "weight" if bal is True else bal
            divisive = dw if dw is not None else (name in ("KR", "VC", "VC_SQRT"))
            wf = None
            if name in wraw:
                wf = [float(np.float64(1.0) / np.float64(v)) if divisive else v for v in wraw[name]]
            row = {"dense": [], "sparse": [], "pixels": []}
            for form in ("dense", "sparse", "pixels"):
                kw = dict(balance=bal, chunksize=case["chunk"])
                if dw is not None:
                    # the flag as Python bool, numpy bool (what h5py hands back for the attribute `cooler balance` writes) or 0/1
                    kw["divisive_weights"] = [dw, np.bool_(dw), int(dw)][case.get("flag_type", 0)]
                if form == "sparse":
                    kw["sparse"] = True
                if form == "pixels":
                    kw.update(as_pixels=True, join=False, ignore_index=False)
                sel = clr.matrix(**kw)
                for (i0, i1, j0, j1) in wins:
                    res["nq"] += 1
                    try:
                        got = sel[i0:i1, j0:j1]
                    except ValueError:
                        row[form].append((-1, 0, 0, 0))
                        continue
                    except Exception as e:
                        row[form].append((-9, 0, 0, 0))
                        if len(res["fails"]) < 4:
                            res["fails"].append({"options": [bal, dw], "form": form, "window": [i0, i1, j0, j1], "error": repr(e)})
                        continue
                    if wf is None:
                        row[form].append((-8, 0, 0, 0))
                        continue
                    ok = True
                    if form == "dense":
                        ok = got.shape == (i1 - i0, j1 - j0)
                        cells = []
                        for a in range(i1 - i0):
                            for b_ in range(j1 - j0):
                                g = float(got[a, b_]) if ok else float("nan")
                                ok = ok and bits_eq(g, float(F[i0 + a][j0 + b_]) * (wf[i0 + a] * wf[j0 + b_]))
                                cells.append((1 + 31 * a + 1009 * b_, g))
                        s3 = fsum(cells)
                        ck = (1, s3[0], s3[1], s3[2])
                    elif form == "sparse":
                        ents = sorted(zip((got.row + i0).tolist(), (got.col + j0).tolist(), got.data.tolist()))
                        for r, c, g in ents:
                            ok = ok and bits_eq(g, (wf[r] * wf[c]) * float(F[r][c]))
                        s3 = fsum([(1 + 7 * r + 131 * c, g) for r, c, g in ents])
                        ck = (2, s3[0] + 1000 * len(ents), s3[1], s3[2])
                    else:
                        bal_col = got["balanced"].tolist() if "balanced" in got.columns else None
                        recs = list(zip(got["bin1_id"].tolist(), got["bin2_id"].tolist(), got["count"].tolist(), bal_col or [float("nan")] * len(got)))
                        ok = bal_col is not None
                        for r, c, v, g in recs:
                            ok = ok and bits_eq(g, (wf[r] * wf[c]) * float(v))
                        s3 = fsum([((k + 1) * (1 + 7 * r + 131 * c), g) for k, (r, c, v, g) in enumerate(recs)])
                        ck = (3, s3[0] + 1000 * len(recs), s3[1], s3[2])
                    row[form].append(ck)
                    if not ok and len(res["fails"]) < 4:
                        res["fails"].append({"options": [bal, dw], "form": form, "window": [i0, i1, j0, j1], "float_oracle": True,
                                             "got": np.asarray(got.toarray() if form == "sparse" else got).tolist() if form != "pixels" else got.to_dict("list")})
            res["cks"].append(row)
    os.unlink(path)
    return res


def fmodel_exprs(case, r):
    b1, b2, cnt, off = r["raw"]
    px = C.lst([C.tup(C.tup(C.z(a), C.z(b_)), C.z(v)) for a, b_, v in zip(b1, b2, cnt)])
    exprs = []
    for bal, dw in case["options"]:
        name = "weight" if bal is True else bal
        balance = "(Some None)" if bal is True else f"(Some (Some {C.s(bal)}))"
        dwl = "None" if dw is None else f"(Some {C.b(dw)})"
        w = "(Some None)" if name not in r["wraw"] else "(Some (Some " + C.lst([flit(v) for v in r["wraw"][name]]) + "))"
        for form in ("Dense", "Sparse", "AsPixels"):
            exprs.append(f"all_window_fbal_cksums {C.z(case['n'])} {px} {C.zl(off)} {C.z(case['chunk'])} {C.b(case['symm'])} {form} {w} "
                         f"(effective_divisive {balance} {dwl})")
    return exprs


def gen_float_cases(ctx, base):
    """the rational cases again (rounding now compared exactly) plus weights the rational model excludes:
    zeros of both signs, infinities, negative, subnormal and huge values (overflowing products)"""
    rng = ctx.rng
    special = [0.0, -0.0, float("inf"), float("-inf"), -1.5, 5e-324, 1e-310, 1.7e308, 1e200, 1e-200, 0.1, 1 / 3, 3.0000000000000004]
    out = [dict(c, float_only=False) for c in base]
    for k in range(6 if ctx.tier == "quick" else 24):
        n = rng.choice([2, 3, 4])
        symm = k % 3 != 2
        cells = [(i, j) for i in range(n) for j in (range(i, n) if symm else range(n))]
        pix = [[i, j, rng.choice([1, 2, 3, 7, 2 ** 31, 2 ** 53 + 1, 10 ** 15 + 1])] for (i, j) in cells if rng.random() < 0.7]
        cols = {name: [None if rng.random() < 0.15 else rng.choice(special) for _ in range(n)] for name in NAMES}
        grid = [(b, d) for b in [True, "KR", "VC_SQRT", "w2", "nope"] for d in [None, True, False]]
        out.append({"n": n, "pixels": pix, "symm": symm, "weights": cols, "chunk": [1, 2, 10 ** 7][k % 3], "float_only": True,
                    "options": [list(grid[(k * 4 + t * 3) % len(grid)]) for t in range(5)]})
    # weight columns stored with INTEGER dtypes (values 1..9, small counts: every product is exact, so the three output forms
    # and the model must agree bit for bit whatever dtype numpy carries the intermediate in)
    for k in range(4 if ctx.tier == "quick" else 12):
        n = rng.choice([2, 3, 4])
        symm = k % 2 == 0
        cells = [(i, j) for i in range(n) for j in (range(i, n) if symm else range(n))]
        pix = [[i, j, rng.randint(1, 9)] for (i, j) in cells if rng.random() < 0.8]
        cols = {name: [rng.randint(1, 9) for _ in range(n)] for name in NAMES}
        dts = ["int64", "int32", "uint8", "int16"]
        grid = [(b, d) for b in [True, "KR", "VC", "VC_SQRT", "w2"] for d in [None, True, False]]
        out.append({"n": n, "pixels": pix, "symm": symm, "weights": cols, "chunk": [1, 2, 10 ** 7][k % 3], "float_only": True,
                    "wdtype": {name: dts[(k + t) % len(dts)] for t, name in enumerate(NAMES)},
                    "options": [list(grid[(k * 4 + t * 3) % len(grid)]) for t in range(6)]})
    for k, c in enumerate(out):
        c["flag_type"] = k % 3
    return out


def run_dump_cli(ctx):
    """`cooler dump -b` (cli/dump.py annotator): balanced = count x w(bin1) x w(bin2) on every printed row, also for the
    mirrored rows of --fill-lower, for sparse tables (fewer pixels than bins), sub-ranges, small chunks and --join"""
    import io
    import pandas as pd
    import cooler
    from click.testing import CliRunner
    from cooler.cli import cli
    rng = ctx.rng
    runner = CliRunner()
    for rep in range(4 if ctx.tier == "quick" else 12):
        n1, n2 = rng.choice([(5, 4), (6, 6), (3, 9), (8, 2)])
        n = n1 + n2
        bins = pd.DataFrame({"chrom": ["chr1"] * n1 + ["chr2"] * n2, "start": [10 * k for k in range(n1)] + [10 * k for k in range(n2)],
                             "end": [10 * k + 10 for k in range(n1)] + [10 * k + 10 for k in range(n2)]})
        w = [float("nan") if rng.random() < 0.15 else rng.choice([0.5, 1.25, 2.0, rng.uniform(0.1, 3.0)]) for _ in range(n)]
        bins["weight"] = w
        cells = [(i, j) for i in range(n) for j in range(i, n)]
        pix = sorted(rng.sample(cells, rng.choice([2, 3, 4, n - 1, n + 3, 2 * n])))      # mostly fewer pixels than bins
        df = pd.DataFrame({"bin1_id": [p[0] for p in pix], "bin2_id": [p[1] for p in pix], "count": [rng.randint(1, 40) for _ in pix]})
        path = str(ctx.tmp / f"dump{rep}.cool")
        cooler.create_cooler(path, bins, df)
        cnt = {(a, b_): c for a, b_, c in zip(df["bin1_id"], df["bin2_id"], df["count"])}
        L1, L2 = 10 * n1, 10 * n2
        regions = [None, ("chr1", None), ("chr2", "chr1"), (f"chr1:10-{L1}", f"chr1:0-{max(L1 - 10, 10)}"), ("chr1:0-20", "chr2"),
                   (f"chr2:10-{L2}", "chr2:0-20")]
        for fill in (False, True):
            for reg in regions:
                for k, join in ((None, False), (1, False), (2, True), (3, False)):
                    if reg is None and k == 2:
                        continue
                    args = ["dump", "-b", "-H", "--na-rep", "nan", "--float-format", ".17g"]
                    if fill:
                        args.append("-f")
                    if reg is not None:
                        args += ["-r", reg[0]] + (["-r2", reg[1]] if reg[1] else [])
                    if k is not None:
                        args += ["-k", str(k)]
                    if join:
                        args.append("--join")
                    case = {"fn": "cooler dump", "args": args, "bins": [n1, n2], "weight": [None if math.isnan(x) else x.hex() for x in w],
                            "pixels": [[a, b_, cnt[(a, b_)]] for a, b_ in pix]}
                    ctx.case(case, kind="cli dump -b" + (" -f" if fill else "") + (" --join" if join else ""))
                    res = runner.invoke(cli, args + [path])
                    if res.exit_code != 0:
                        ctx.fail(case, {"exit": res.exit_code, "error": repr(res.exception)[:300]}, None)
                        continue
                    if not res.output.strip():
                        continue      # no row printed (and no header: that is C16's known finding D18); nothing for C12 to judge
                    try:
                        out = pd.read_csv(io.StringIO(res.output), sep="\t", float_precision="round_trip")
                        bad = None
                        if "balanced" not in out.columns:
                            bad = "no balanced column"
                        for _, r in out.iterrows():
                            if bad:
                                break
                            if join:
                                off = {"chr1": 0, "chr2": n1}
                                a, b_ = off[r["chrom1"]] + int(r["start1"]) // 10, off[r["chrom2"]] + int(r["start2"]) // 10
                            else:
                                a, b_ = int(r["bin1_id"]), int(r["bin2_id"])
                            c = cnt.get((min(a, b_), max(a, b_)))
                            if c is None or int(r["count"]) != c or (a > b_ and not fill):
                                bad = f"row ({a},{b_}) is not a stored pixel (or a mirrored one without -f)"
                                break
                            exp = (w[a] * w[b_]) * float(c)
                            g = float(r["balanced"])
                            if not bits_eq(g, exp):
                                bad = f"row ({a},{b_}): balanced {g!r} != count x w1 x w2 = {exp!r}"
                        if bad:
                            ctx.fail(case, {"detail": bad, "output": res.output[:600]}, None)
                    except Exception as e:
                        ctx.fail(case, {"error": repr(e), "output": res.output[:400]}, None)
        os.unlink(path)


def qlit(x):
    return "None" if x is None else "(Some " + C.q(Fraction(x)) + ")"


def model_exprs(case, r):
    b1, b2, cnt, off = r["raw"]
    px = C.lst([C.tup(C.tup(C.z(a), C.z(b_)), C.z(v)) for a, b_, v in zip(b1, b2, cnt)])
    cols = C.lst([C.tup(C.s(name), C.lst([qlit(v) for v in vals])) for name, vals in r["wraw"].items()])
    exprs = []
    for bal, dw in case["options"]:
        balance = "(Some None)" if bal is True else f"(Some (Some {C.s(bal)}))"
        dwl = "None" if dw is None else f"(Some {C.b(dw)})"
        for form in ("Dense", "Sparse", "AsPixels"):
            exprs.append(f"all_window_bal_cksums {C.z(case['n'])} {px} {C.zl(off)} {C.z(case['chunk'])} {C.b(case['symm'])} {form} {cols} {balance} {dwl}")
    return exprs


def same(im, mo):
    """(tag, nans, sum) from the implementation (floats summed exactly) vs the model (exact rationals)"""
    if im[0] != mo[0] or im[1] != mo[1]:
        return False
    a, b_ = Fraction(im[2]), Fraction(mo[2])
    return abs(a - b_) <= Fraction(REL) * max(abs(b_), Fraction(1, 10 ** 6))


def _history_worker(arg):
    """the same cases again, one after the other at ONE path in ONE process (see c03)"""
    path, cs = arg
    out = []
    for c in cs:
        r = _worker((path, c))
        out.append({"cks": r["cks"], "fails": r["fails"]})
    return out


def run(ctx):
    import common
    cases = gen_cases(ctx)
    args = [(str(ctx.tmp / f"b{k}.cool"), c) for k, c in enumerate(cases)]
    with ProcessPoolExecutor(max_workers=int(os.environ.get("VERIF_JOBS", "8"))) as ex:
        results = list(ex.map(_worker, args))
    exprs, owners = [], []
    for k, (c, r) in enumerate(zip(cases, results)):
        es = model_exprs(c, r)
        exprs += es
        owners += [(k, oi, form) for oi in range(len(c["options"])) for form in ("dense", "sparse", "pixels")]
    model = C.coq_eval("From Cooler Require Import Model.Balanced.", exprs, shard=12, tmpdir=ctx.tmp / "model")
    for (k, oi, form), mo in zip(owners, model):
        c, r = cases[k], results[k]
        wins = windows(c["n"])
        im = r["cks"][oi][form]
        keys = [common.short_hash((k, oi, w)) for w in wins if w[1] > w[0] and w[3] > w[2]] if c["pixels"] else []
        ctx.count(len(wins), nontrivial_keys=keys, kind=f"n={c['n']}/{form}/balance={c['options'][oi][0]}/divisive={c['options'][oi][1]}")
        for w, a, b_ in zip(wins, im, mo):
            b_ = (b_[0], b_[1], Fraction(b_[2], b_[3]))
            if not same(a, b_):
                ctx.disagree("balanced window checksum (tag, NaN count, weighted sum)",
                             {"n": c["n"], "pixels": c["pixels"], "symm": c["symm"], "weights": c["weights"], "options": c["options"][oi], "form": form, "window": list(w), "chunk": c["chunk"]},
                             [a[0], a[1], str(a[2])], [b_[0], b_[1], str(b_[2])])
                break
    for c, r in zip(cases, results):
        for f in r["fails"]:
            ctx.fail({"n": c["n"], "pixels": c["pixels"], "symm": c["symm"], "weights": c["weights"], "chunk": c["chunk"],
                      "options": f["options"], "form": f["form"], "window": f["window"]}, f, None)
    # history pass: a sample of the cases, grouped by bin count, replayed in one process on one path
    pick = sorted(ctx.rng.sample(range(len(cases)), min(len(cases), 32 if ctx.tier == "quick" else 128)), key=lambda k: (cases[k]["n"], k))
    groups = [pick[i::4] for i in range(4)]
    with ProcessPoolExecutor(max_workers=4) as ex:
        hres = list(ex.map(_history_worker, [(str(ctx.tmp / f"hist{g}.cool"), [cases[k] for k in grp]) for g, grp in enumerate(groups)]))
    for grp, hr in zip(groups, hres):
        for pos, (k, r2) in enumerate(zip(grp, hr)):
            c = cases[k]
            ctx.case({"history_of": k, "pos": pos}, nontrivial=pos > 0 and bool(c["pixels"]), kind="history:same-path")
            if r2["cks"] != results[k]["cks"] or r2["fails"]:
                ctx.fail({"n": c["n"], "pixels": c["pixels"], "symm": c["symm"], "weights": c["weights"], "chunk": c["chunk"], "options": c["options"],
                          "history": f"case {pos + 1} of {len(grp)} created and queried at the same path in one process",
                          "previous_case_at_path": {kk: cases[grp[pos - 1]][kk] for kk in ("n", "pixels", "weights")} if pos else None},
                         {"detail": "balanced queries differ from the same cooler stored at a fresh path", "fails": r2["fails"][:2]}, None)
    # binary64 pass: primitive-float model, bit for bit
    fcases = gen_float_cases(ctx, cases)
    with ProcessPoolExecutor(max_workers=int(os.environ.get("VERIF_JOBS", "8"))) as ex:
        fres = list(ex.map(_fworker, [(str(ctx.tmp / f"f{k}.cool"), c) for k, c in enumerate(fcases)]))
    fexprs, fown = [], []
    for k, (c, r) in enumerate(zip(fcases, fres)):
        fexprs += fmodel_exprs(c, r)
        fown += [(k, oi, form) for oi in range(len(c["options"])) for form in ("dense", "sparse", "pixels")]
    fmodel = C.coq_eval("From Cooler Require Import Model.Balanced Model.BalancedF.", fexprs, shard=12, tmpdir=ctx.tmp / "fmodel")
    for (k, oi, form), mo in zip(fown, fmodel):
        c, r = fcases[k], fres[k]
        wins = windows(c["n"])
        im = r["cks"][oi][form]
        keys = [common.short_hash(("f", k, oi, w)) for w in wins if w[1] > w[0] and w[3] > w[2]] if c["pixels"] else []
        ctx.count(len(wins), nontrivial_keys=keys, kind=f"binary64/{'integer-dtype' if c.get('wdtype') else ('special' if c['float_only'] else 'ordinary')} weights/{form}")
        for w, a, b_ in zip(wins, im, mo):
            if a[0] in (-1, -8, -9) and b_[0] == -1 and a[0] != -8:
                continue
            if tuple(a) != tuple(b_):
                ctx.disagree("binary64 window checksum (tag, NaN cells, infinities, exact sum of bit-pattern codes)",
                             {"n": c["n"], "pixels": c["pixels"], "symm": c["symm"], "weights": {kk: [None if v is None else float(v).hex() for v in vv] for kk, vv in c["weights"].items()},
                              "options": c["options"][oi], "form": form, "window": list(w), "chunk": c["chunk"], "binary64": True},
                             list(a), list(b_))
                break
    for c, r in zip(fcases, fres):
        for f in r["fails"]:
            ctx.fail({"n": c["n"], "pixels": c["pixels"], "symm": c["symm"], "weights": {kk: [None if v is None else float(v).hex() for v in vv] for kk, vv in c["weights"].items()},
                      "chunk": c["chunk"], "options": f["options"], "form": f["form"], "window": f["window"], "binary64": True}, f, None)
    ctx.extra["binary64_coolers"] = len(fcases)
    ctx.extra["binary64_queries"] = sum(r["nq"] for r in fres)
    run_dump_cli(ctx)
    # source pin: the three conventional divisive names
    import cooler.api as api
    ctx.case({"fn": "_4DN_DIVISIVE_WEIGHTS"}, kind="pin")
    if set(api._4DN_DIVISIVE_WEIGHTS) != {"KR", "VC", "VC_SQRT"}:
        ctx.fail({"fn": "_4DN_DIVISIVE_WEIGHTS", "value": sorted(api._4DN_DIVISIVE_WEIGHTS)}, {"expected": ["KR", "VC", "VC_SQRT"]}, None)
    ctx.exhaustive = True
    ctx.extra["coolers"] = len(cases)
    ctx.extra["queries"] = sum(r["nq"] for r in results)


def replay(ctx, case):
    if "pixels" not in case:
        print("replay: function-level case:", case)
        return True
    c = dict(case)
    c["options"] = [case["options"]]
    r = _worker((str(ctx.tmp / "replay.cool"), c))
    for f in r["fails"][:3]:
        print("  failing:", f)
    return not r["fails"]
