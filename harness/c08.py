"""C08 — coarsening by k is exact block aggregation within each chromosome.

Correspondence: cooler.coarsen_cooler / `cooler coarsen` / CoolerCoarsener (edges, chunk stream,
coarsen_bins) / _greedy_prune_partition against the Gallina model coq/Model/Coarsen.v on the same
inputs.  Property oracle (never calls the code under test for its expected value): index-based
block aggregation of the INPUT pixels and bins (gen_c08.oracle_*).
"""
from __future__ import annotations

import ast
import itertools
import os
import pathlib

import numpy as np
import pandas as pd

import coqio as C
import common
from gen_bins import compositions, blocks_from_widths, names_for, table_from_blocks
import gen_c08 as G

PROP = "C08"
RULE = ("coarsen_bins: every valid bin table with 1 chromosome of length <=7 and 2 chromosomes of length <=3 (all compositions; length 4: 25 sampled, all in the thorough tier) x k in {2,3,4,5,n+1}; "
        "_greedy_prune_partition: every non-decreasing edge list from 0 of length 2..5 with values <=5 x maxlen 1..6; "
        "coarsen_cooler: corpus (D1 longer-last-bin tables, chromosomes shorter than k, empty cooler, empty rows at chunk edges, variable tables whose coarsening looks fixed, bin size 1, one-bin chromosomes) x k in {2,3,5,n+1} x chunksize in {1,2,7,nnz+1} (all 16 combinations for the first 4 corpus coolers, 1 chunk size per k for the other corpus coolers, 2 for the random ones), "
        "seeded random coolers (fixed / variable / longer-last / variable-that-coarsens-to-fixed tables, 1-4 chromosomes, symmetric and square storage, 9 pixel patterns) x all four k x two chunk sizes, "
        "fixed-width tables of EVERY width 1..45 x k in {2,7} and 1..20 x k in {3,5} (thorough: 1..200 x {2,3,5,7}) at function level (chunk stream of CoolerCoarsener vs exact integer division) and end to end for widths 7,49,98,103,107,161,187,196 + random widths <= 2000 with >= 3 coarse bins per chromosome; nproc=2 and the CLI on a few, chains k1;k2 vs k1*k2 (fixed and variable tables), merge/coarsen interleavings, a second value column with agg max/min/sum incl. the D20 corpus (columns=[count,w], columns=[w]); "
        "variable-width tables with gaps between consecutive bins and a first bin not starting at 0 (gaps on and off group boundaries, k in {2,3}, chunk sizes 1/7, nproc 1/2): new bin = (chrom, start of the first, end of the last old bin of its group); coarse bin sizes B = base*k for base in {1,7,10,11,1000,11000} x k in 2..60 and random B <= 10^5 on a cooler whose bins start exactly on the multiples of B, at least 10 B whose float64 reciprocal rounds down next to friendly ones; `cooler coarsen` (and one `cooler zoomify`) with every order of 1..3 --field options over count/w/s (source holds all three), each with / without agg= and dtype=, per column vs the requested aggregate (sum by default) of the block and vs the model; every output judged also by its header attributes (storage-mode, bin-type/size, nbins, nchroms, nnz, sum, format) and by Cooler.matrix(balance=False)[:] vs the (symmetric completion of the) block aggregation; bases in legacy form (11 optional attributes removed one at a time, format-version 2; symmetric and square; merge inputs); LARGE genomes with few bins (total length just below / at / above 2^31 and 2^32, every chromosome < 2^31; fixed bins of 100 Mb..1 Gb and variable tables; symmetric and square; k = 2, 3 and k collapsing every chromosome to one bin; chunk sizes 1/7/nnz+1; nproc 1 and 2; zoomify on the same bases); HISTORIES in one process (the same source and destination URI strings while the source file is rewritten in between: re-binned coarser/finer, other chromsizes, variable widths, fewer/more bins, square, nproc 1 then 2 and 2 then 1, several chunk sizes; a hand-made ladder over two alternating file names), every output judged for the data stored now; every level (copied bases included, k=1) of zoomify_cooler / `cooler zoomify --base-uri` files built from 1, 2 and 3 base coolers in every listing order (bases that are / are not multiples of each other) vs the block aggregation of its own base; fixed parameter scenarios (output URI in a nested group, append into an existing file, same-file in/out, re-run onto an existing group, mode=w, nproc 2/3 with an uneven span count, CLI -p/--append/-a/-o URI, dtypes full/partial dict, lock=, float64 counts, weight bin column on the input, trailing empty rows, CoolerCoarsener batchsize 2/3); non-trivial = nnz>0 and at least 2 old bins; distinct by input hash")
TRUSTED = ["pandas groupby(sort=True).aggregate('sum') is modelled as the canonical aggregate (Model/Pixels.v) and observed through CoolerCoarsener",
           "create() stores the concatenation of the chunk stream (property C01/C02, observed here through the output cooler)",
           "multiprocess.Pool.map is order preserving (source-pattern assertion on coarsen_cooler + nproc=2 runs)"]
ASSUMPTIONS = ["numpy float64 true division is the correctly rounded IEEE-754 binary64 quotient (then C08_binary64_relative_bin_exact PROVES np.floor(start / binsize) exact below 2^53)",
               "clr.chromsizes[c] equals the end of the last bin of c (create() derives the chroms table from the bins)"]
RESIDUE = ["process scheduling, the HDF5 lock and fork/HDF5 interaction are not modelled (Pool.map assumed order preserving)",
           "the theorems hold for every aggregation function; the executable correspondence drives sum, max and min on integer columns through the model (coarsen_cooler_g), float value columns and other pandas aggregations are not exercised"]
# standard-library axioms behind Coq's classical real numbers (used only by the binary64 division theorem, via Flocq)
ALLOW_AXIOMS = ("ClassicalDedekindReals.sig_not_dec", "ClassicalDedekindReals.sig_forall_dec",
                "FunctionalExtensionality.functional_extensionality_dep", "Classical_Prop.classic")

HDR = "From Cooler Require Import Model.Coarsen."


# ------------------------------------------------------------ source pattern
def source_pattern(ctx):
    """fail-closed: coarsen_cooler hands an order-preserving map (pool.map or the builtin) to the
    coarsener, the coarsener stores it as self._map and __iter__ yields the results in order."""
    path = common.REPO / "src" / "cooler" / "_reduce.py"
    try:
        tree = ast.parse(path.read_text())
    except Exception as e:  # pragma: no cover
        ctx.broke(f"source-pattern: cannot parse {path}: {e}")
        return
    problems = []

    def ok_map(node):
        if isinstance(node, ast.Name) and node.id == "map":
            return True
        if (isinstance(node, ast.Attribute) and node.attr in ("map", "imap")
                and isinstance(node.value, ast.Name) and node.value.id == "pool"):
            return True
        if isinstance(node, ast.IfExp):
            return ok_map(node.body) and ok_map(node.orelse)
        return False

    fn = [n for n in tree.body if isinstance(n, ast.FunctionDef) and n.name == "coarsen_cooler"]
    if len(fn) != 1:
        problems.append("coarsen_cooler not found")
    else:
        calls = [n for n in ast.walk(fn[0]) if isinstance(n, ast.Call)
                 and isinstance(n.func, ast.Name) and n.func.id == "CoolerCoarsener"]
        if len(calls) != 1:
            problems.append("expected exactly one CoolerCoarsener(...) call in coarsen_cooler")
        else:
            kws = {k.arg: k.value for k in calls[0].keywords}
            if "map" not in kws:
                problems.append("CoolerCoarsener called without map=")
            elif not ok_map(kws["map"]):
                problems.append("coarsen_cooler passes map=" + ast.unparse(kws["map"]) + " (not pool.map / builtin map)")
            if "batchsize" not in kws or ast.unparse(kws["batchsize"]) != "nproc":
                problems.append("batchsize is not nproc")
    cls = [n for n in tree.body if isinstance(n, ast.ClassDef) and n.name == "CoolerCoarsener"]
    if len(cls) != 1:
        problems.append("class CoolerCoarsener not found")
    else:
        meths = {n.name: n for n in cls[0].body if isinstance(n, ast.FunctionDef)}
        init_src = ast.unparse(meths["__init__"]) if "__init__" in meths else ""
        if "self._map = map" not in init_src:
            problems.append("CoolerCoarsener.__init__ does not store map as self._map")
        it = meths.get("__iter__")
        if it is None:
            problems.append("CoolerCoarsener.__iter__ not found")
        else:
            src = ast.unparse(it)
            want = ["spans = list(zip(self.edges[:-1], self.edges[1:]))",
                    "results = self._map(self.aggregate, spans[i:i + batchsize])",
                    "for df in results:"]
            for w in want:
                if w not in src:
                    problems.append("CoolerCoarsener.__iter__ no longer contains: " + w)
    for p in problems:
        ctx.broke("source-pattern (hypothesis of C08_coarsen_canon: order-preserving map): " + p)
    ctx.extra["source_pattern_ok"] = not problems


# --------------------------------------------------------------- part 1: bins
def impl_coarsen_bins(blocks, k):
    from cooler._reduce import CoolerCoarsener
    from cooler.util import get_binsize
    names = names_for(len(blocks))
    df = table_from_blocks(blocks)
    cs = pd.Series(index=names, data=G.sizes_of(blocks), dtype=np.int64)
    out = CoolerCoarsener.coarsen_bins(df, cs, k)
    idx = {n: i for i, n in enumerate(names)}
    rows = [[idx[str(c)], int(s), int(e)] for c, s, e in zip(out["chrom"].astype(str), out["start"], out["end"])]
    bs = get_binsize(out)
    return rows, (None if bs is None else int(bs))


def part_bins(ctx):
    thorough = ctx.tier == "thorough"
    tables = []
    comps = {L: compositions(L) for L in range(1, 9)}
    for L in range(1, (9 if thorough else 8)):
        for comp in comps[L]:
            tables.append([comp])
    m2 = 5 if thorough else 3
    for L1 in range(1, m2 + 1):
        for L2 in range(1, m2 + 1):
            for c1 in comps[L1]:
                for c2 in comps[L2]:
                    tables.append([c1, c2])
    if not thorough:   # two chromosomes with one of length 4: a seeded sample (exhaustive in the thorough tier)
        more = [[c1, c2] for L1 in range(1, 5) for L2 in range(1, 5) if max(L1, L2) == 4 for c1 in comps[L1] for c2 in comps[L2]]
        tables += ctx.rng.sample(more, 25)
    tables += [[[10, 10, 15]], [[7, 23]], [[10, 10], [35]], [[5, 5, 5], [5, 9]], [[3, 7, 3, 7]], [[3, 7, 3, 7, 4]], [[1], [1], [1]]]
    cases = []
    for widths in tables:
        n = max(len(w) for w in widths)
        for k in sorted({2, 3, 4, 5, n + 1}):
            cases.append((widths, k))
    exprs = []
    for widths, k in cases:
        blocks = blocks_from_widths(widths)
        t = G.coq_bins(G.flat_of(blocks))
        sz = C.zl(G.sizes_of(blocks))
        exprs.append(f"(let nt := coarsen_bins {t} {sz} {C.z(k)} in (nt, get_binsize nt, rebin_table {t} {sz} {C.z(k)}))")
    model = C.coq_eval(HDR, exprs, tmpdir=ctx.tmp / "bins")
    for (widths, k), mo in zip(cases, model):
        blocks = blocks_from_widths(widths)
        case = {"fn": "coarsen_bins", "widths": widths, "k": k}
        ctx.case(case, nontrivial=any(len(w) >= 2 for w in widths), kind="coarsen_bins")
        st, res = G.guarded(lambda: impl_coarsen_bins(blocks, k), 20)
        mbins, mbs, mtbl = mo
        mbs = None if mbs is None else mbs[1]
        if st != "ok":
            ctx.compare("coarsen_bins", case, st, "ok")
            ctx.fail(case, {"exception": st, "type": res}, None)
            continue
        rows, bs = res
        ctx.compare("coarsen_bins", case, rows, [list(r) for r in mbins])
        ctx.compare("get_binsize(new bins)", case, bs, mbs)
        exp = G.oracle_bins(blocks, k)
        if rows != exp:
            ctx.fail(case, {"got": rows[:20], "expected": exp[:20]}, None)
        # model-side validation of the index reading (theorem rebin_eq_index): start-coordinate table = index table
        ctx.compare("model rebin_table vs index reading", case, G.oracle_index_table(blocks, k), list(mtbl))
    return len(cases)


# -------------------------------------------------------------- part 2: prune
def part_prune(ctx):
    from cooler._reduce import _greedy_prune_partition
    thorough = ctx.tier == "thorough"
    top = 6 if thorough else 5
    maxl = 6 if thorough else 5
    lists = []
    for L in range(2, maxl + 1):
        for tail in itertools.combinations_with_replacement(range(0, top + 1), L - 1):
            lists.append([0] + list(tail))
    cases = [(e, m) for e in lists for m in range(1, top + 2)]
    for _ in range(200 if thorough else 60):
        L = ctx.rng.randint(2, 12)
        e = [0]
        for _ in range(L - 1):
            e.append(e[-1] + ctx.rng.choice([0, 0, 1, 2, 5, 40]))
        cases.append((e, ctx.rng.choice([1, 2, 3, 7, 10, 39, 40, 41, 10 ** 7])))
    # the model evaluates whole families per Eval
    groups = {}
    for e, m in cases:
        groups.setdefault(tuple(e), []).append(m)
    keys = list(groups)
    exprs = [f"map (greedy_prune_partition {C.zl(e)}) {C.zl(groups[e])}" for e in keys]
    model = C.coq_eval(HDR, exprs, tmpdir=ctx.tmp / "prune")
    mres = {}
    for e, mo in zip(keys, model):
        for m, r in zip(groups[e], mo):
            mres[(e, m)] = list(r)
    nt = []
    for e, m in cases:
        case = {"fn": "_greedy_prune_partition", "edges": e, "maxlen": m}
        st, res = G.guarded(lambda: [int(x) for x in _greedy_prune_partition(np.array(e), m)], 10)
        got = res if st == "ok" else st
        ctx.compare("_greedy_prune_partition", case, got, mres[(tuple(e), m)])
        if st != "ok" or not G.oracle_prune(e, m, got):
            ctx.fail(case, {"got": got}, None)
        if e[-1] > m and len(set(e)) < len(e):
            nt.append(case)
    ctx.count(len(cases), nontrivial_keys=nt, kind="prune")
    return len(cases)


# --------------------------------------------------------- part 3: public API
CORPUS = [
    # (widths, symmetric, pixels or pattern, note)
    ([[10, 10, 15]], True, "dense", "D1: longer last bin"),
    ([[7, 23]], True, "dense", "D1: a:[0,7),[7,30)"),
    ([[10, 10], [35]], True, "dense", "D1: one-bin chromosome longer than b"),
    ([[5, 5, 5], [5, 9]], False, "dense", "D1: second chromosome longer last, square"),
    ([[10, 10, 10, 10, 3], [10, 4], [2]], True, "dense", "chromosomes shorter than k"),
    ([[10] * 6], True, [(0, 0, 1), (0, 5, 2), (3, 3, 1), (3, 4, 1), (5, 5, 7)], "empty rows 1,2,4 at chunk edges"),
    ([[10] * 4, [10] * 3], True, [(3, 3, 1), (3, 4, 2), (4, 4, 3), (6, 6, 1)], "leading empty rows, chromosome boundary inside a k-group of the flat table"),
    ([[10, 10, 10]], True, [], "empty cooler"),
    ([[3, 7, 3, 7], [5, 5]], True, "dense", "variable table whose k=2 coarsening reports a fixed size"),
    ([[3, 7, 3, 7, 4]], False, "dense", "variable, k=2 coarsening fixed with shorter last"),
    ([[1], [1], [1]], True, "dense", "one-bin chromosomes"),
    ([[2, 2, 2, 2, 2, 2, 2]], True, "firstrow", "single populated row"),
    ([[2, 2, 2, 2, 2, 2, 1]], True, "lastrow", "only the last row / column"),
    ([[1] * 7, [1] * 3], True, "dense", "bin size 1 (start+1 hits a multiple of the new bin size)"),
    ([[1000] * 4 + [17], [1000, 1]], False, "dense", "large fixed bins, square"),
]


def build_case(rng, widths, symmetric, pix):
    blocks = blocks_from_widths(widths)
    n = sum(len(w) for w in widths)
    if isinstance(pix, str):
        pixels = G.random_pixels(rng, n, symmetric, pix)
    else:
        pixels = list(pix)
    return blocks, [list(p) for p in pixels]


def run_api_case(ctx, tmpdir, tag, case, cooler_path=None, via="api"):
    """one coarsen run through the public API (or CLI); returns canonical result or an exception tag"""
    import cooler
    from click.testing import CliRunner
    blocks = blocks_from_widths(case["widths"])
    if cooler_path is None:
        cooler_path = tmpdir / f"{tag}_in.cool"
        G.make_cooler(cooler_path, blocks, case["pixels"], case["symmetric"])
    out = tmpdir / f"{tag}_out.cool"
    if out.exists():
        os.remove(out)
    k, cs, nproc = case["k"], case["chunksize"], case.get("nproc", 1)

    def go():
        if via == "cli":
            from cooler.cli import cli
            res = CliRunner().invoke(cli, ["coarsen", "-k", str(k), "-c", str(cs), "-n", str(nproc), "-o", str(out), str(cooler_path)])
            if res.exit_code != 0:
                raise ValueError(f"cli exit {res.exit_code}: {res.exception!r}")
        else:
            cooler.coarsen_cooler(str(cooler_path), str(out), k, chunksize=cs, nproc=nproc)
        return G.read_cooler(out)
    st, res = G.guarded(go, 60)
    if out.exists() and st != "ok":
        os.remove(out)
    return st, res, out


def oracle_check(case, res):
    """the property, decided from the input alone; returns None or a dict describing the violation"""
    blocks = blocks_from_widths(case["widths"])
    k = case["k"]
    ebins, epx = G.oracle_coarsen(blocks, case["pixels"], k)
    if res["bins"] != ebins:
        return {"what": "bin table", "got": res["bins"][:30], "expected": ebins[:30]}
    if res["pixels"] != epx:
        return {"what": "pixel table", "got": res["pixels"][:40], "expected": epx[:40]}
    tot = sum(p[2] for p in case["pixels"])
    if res["sum"] != tot or res["nnz"] != len(epx):
        return {"what": "totals", "sum": res["sum"], "expected_sum": tot, "nnz": res["nnz"], "expected_nnz": len(epx)}
    if res["mode"] != ("symmetric-upper" if case["symmetric"] else "square"):
        return {"what": "storage mode", "got": res["mode"]}
    if res["chromsizes"] != G.sizes_of(blocks) or res["names"] != names_for(len(blocks)):
        return {"what": "chromosome table", "got": [res["names"], res["chromsizes"]]}
    sem = G.semantics_bad(res, ebins, epx, case["symmetric"], tot)
    if sem:
        return sem
    if res["binsize"] is not None:
        b = res["binsize"]
        for blk in G.blocks_of_flat(ebins):
            L = blk[-1][2]
            if any(s != q * b or e != min((q + 1) * b, L) for q, (_, s, e) in enumerate(blk)):
                return {"what": "reported bin size is not true of the new table", "binsize": b}
    return None


def model_expr(case, batchsize):
    blocks = blocks_from_widths(case["widths"])
    t = G.coq_bins(G.flat_of(blocks))
    sz = C.zl(G.sizes_of(blocks))
    px = G.coq_pixels(case["pixels"])
    k, cs = C.z(case["k"]), C.z(case["chunksize"])
    return (f"(let t := {t} in let sz := {sz} in let px := {px} in let e := coarsener_edges t px {k} {cs} in "
            f"(coarsen_cooler t sz px {k} {cs} {C.z(batchsize)}, e, coarsener_iter px (rebin_table t sz {k}) e {C.z(batchsize)}))")


def impl_coarsener(cooler_path, case, batchsize):
    from cooler._reduce import CoolerCoarsener
    cc = CoolerCoarsener(str(cooler_path), case["k"], case["chunksize"], ["count"], None, batchsize)
    edges = [int(x) for x in cc.edges]
    chunks = []
    for ch in cc:
        chunks.append([[int(a), int(b), int(c)] for a, b, c in zip(ch["bin1_id"], ch["bin2_id"], ch["count"])])
    return edges, chunks


def chunks_ok(chunks):
    """no coarse row split or duplicated across work units: every chunk strictly sorted, and all
    bin1 ids of a chunk larger than those of the previous chunks (an empty chunk is harmless)"""
    prev = -1
    for ch in chunks:
        if not ch:
            continue
        keys = [(p[0], p[1]) for p in ch]
        if keys != sorted(set(keys)):
            return False
        if ch[0][0] <= prev:
            return False
        prev = ch[-1][0]
    return True


def part_api(ctx):
    thorough = ctx.tier == "thorough"
    rng = ctx.rng
    tmpdir = ctx.tmp / "api"
    tmpdir.mkdir(exist_ok=True)
    inputs = []   # (widths, symmetric, pixels, note, full?)
    for widths, symm, pix, note in CORPUS:
        blocks, pixels = build_case(rng, widths, symm, pix)
        inputs.append((widths, symm, pixels, note, thorough or len(inputs) < 4))
    for i in range(60 if thorough else 7):
        widths, kind = G.random_widths(rng)
        symm = rng.random() < 0.6
        n = sum(len(w) for w in widths)
        pixels = [list(p) for p in G.random_pixels(rng, n, symm)]
        inputs.append((widths, symm, pixels, "random:" + kind, False))
    runs = []
    for ci, (widths, symm, pixels, note, full) in enumerate(inputs):
        nmax = max(len(w) for w in widths)
        nnz = len(pixels)
        ks = [2, 3, 5, nmax + 1]
        css = [1, 2, 7, nnz + 1]
        for k in dict.fromkeys(ks):
            use = css if (full or thorough) else rng.sample(css, 2 if ci >= len(CORPUS) else 1)
            for cs in dict.fromkeys(use):
                runs.append((ci, {"fn": "coarsen_cooler", "widths": widths, "symmetric": symm, "pixels": pixels,
                                  "k": k, "chunksize": cs, "nproc": 1, "note": note}))
    # nproc = 2 (order of results through Pool.map) and the CLI on a few inputs with many spans
    multi = [ci for ci, inp in enumerate(inputs) if len(inp[2]) >= 6]
    for ci in multi[: (12 if thorough else 5)]:
        widths, symm, pixels, note, _ = inputs[ci]
        runs.append((ci, {"fn": "coarsen_cooler", "widths": widths, "symmetric": symm, "pixels": pixels,
                          "k": 2, "chunksize": 1, "nproc": 2, "note": note + " nproc=2"}))
    for ci in multi[-(8 if thorough else 4):]:
        widths, symm, pixels, note, _ = inputs[ci]
        runs.append((ci, {"fn": "cooler coarsen (CLI)", "widths": widths, "symmetric": symm, "pixels": pixels,
                          "k": rng.choice([2, 3]), "chunksize": rng.choice([1, 2, 3]), "nproc": 1, "note": note + " cli"}))
    if thorough:
        widths, symm, pixels, note, _ = inputs[multi[0]]
        runs.append((multi[0], {"fn": "coarsen_cooler", "widths": widths, "symmetric": symm, "pixels": pixels,
                                "k": 2, "chunksize": 2, "nproc": 4, "note": note + " nproc=4"}))
    exprs = [model_expr(case, case["nproc"]) for _, case in runs]
    model = C.coq_eval(HDR, exprs, tmpdir=ctx.tmp / "apiv")
    paths = {}
    for ri, ((ci, case), mo) in enumerate(zip(runs, model)):
        if ci not in paths:
            paths[ci] = tmpdir / f"in{ci}.cool"
            G.make_cooler(paths[ci], blocks_from_widths(case["widths"]), case["pixels"], case["symmetric"])
        via = "cli" if "CLI" in case["fn"] else "api"
        nbins = sum(len(w) for w in case["widths"])
        ctx.case(case, nontrivial=len(case["pixels"]) > 0 and nbins >= 2,
                 kind=f"{via}:{case['note'].split(':')[0].split(' ')[0]}:{'symm' if case['symmetric'] else 'square'}")
        mbins, mpx, medges, mchunks = mo
        mbins = [list(r) for r in mbins]
        mpx = [list(p) for p in mpx]
        st, res, out = run_api_case(ctx, tmpdir, f"r{ri}", case, cooler_path=paths[ci], via=via)
        if st != "ok":
            ctx.compare(case["fn"], case, st, "ok")
            ctx.fail(case, {"exception": st, "type": res}, None)
            continue
        os.remove(out)
        ctx.compare(case["fn"] + " bins", case, res["bins"], mbins)
        ctx.compare(case["fn"] + " pixels", case, res["pixels"], mpx)
        bad = oracle_check(case, res)
        if bad:
            ctx.fail(case, bad, None)
        # function level: edges and the chunk stream of the coarsener itself
        # (a single span cannot split a coarse row: skipped for chunksize > nnz in the quick tier)
        if via == "api" and case["nproc"] == 1 and (thorough or case["chunksize"] <= len(case["pixels"])):
            st2, r2 = G.guarded(lambda: impl_coarsener(paths[ci], case, 1), 30)
            if st2 != "ok":
                ctx.compare("CoolerCoarsener", case, st2, "ok")
                continue
            edges, chunks = r2
            ctx.compare("CoolerCoarsener.edges", case, edges, list(medges))
            ctx.compare("CoolerCoarsener chunk stream", case, chunks, [[list(p) for p in ch] for ch in mchunks])
            if not chunks_ok(chunks):
                ctx.fail(case, {"what": "a coarse row is split or duplicated across chunks", "edges": edges, "chunks": chunks[:10]}, None)
    return len(runs)


# ------------------------------- part 3b: many fixed bin widths (float slips in the division path)
WIDTH_CORPUS = [7, 49, 98, 103, 107, 161, 187, 196]


def width_case(w, k):
    """a fixed-width table (22 and 9 bins, last bin of the 2nd chromosome shorter when w > 1) with the whole
    diagonal and the whole first row populated: every old bin id is re-binned as bin1 and as bin2"""
    widths = [[w] * 22, [w] * 8 + [max(1, w // 2)]]
    n = 31
    pixels = [[0, j, 1] for j in range(n)] + [[i, i, 2] for i in range(1, n)]
    return {"fn": "CoolerCoarsener (bin width sweep)", "widths": widths, "symmetric": True, "pixels": sorted(pixels), "k": k,
            "chunksize": 10 ** 6, "nproc": 1, "width": w}


def width_stream(path, case):
    edges, chunks = impl_coarsener(path, case, 1)
    return [p for ch in chunks for p in ch]


def part_widths(ctx):
    thorough = ctx.tier == "thorough"
    rng = ctx.rng
    tmpdir = ctx.tmp / "widths"
    tmpdir.mkdir(exist_ok=True)
    ks = [2, 3, 5, 7]
    # (a) function level: every width 1..60 (thorough: 1..200) x k; exact integer division in the model and the oracle
    wmax = 200 if thorough else 45
    exprs = []
    def ks_of(w):          # quick tier: k = 2 and 7 for every width, 3 and 5 for the widths up to 20
        return ks if (thorough or w <= 20) else [2, 7]
    for w in range(1, wmax + 1):
        c0 = width_case(w, 2)
        blocks = blocks_from_widths(c0["widths"])
        exprs.append(f"(let t := {G.coq_bins(G.flat_of(blocks))} in let sz := {C.zl(G.sizes_of(blocks))} in let px := {G.coq_pixels(c0['pixels'])} in "
                     f"map (fun k => coarsen_pixels t sz px k 1000000 1) {C.zl(ks_of(w))})")
    model = C.coq_eval(HDR, exprs, tmpdir=ctx.tmp / "widthsv")
    n = 0
    for w, mo in zip(range(1, wmax + 1), model):
        path = tmpdir / f"w{w}.cool"
        c0 = width_case(w, 2)
        blocks = blocks_from_widths(c0["widths"])
        G.make_cooler(path, blocks, c0["pixels"], True)
        for k, mpx in zip(ks_of(w), mo):
            case = width_case(w, k)
            n += 1
            ctx.case(case, nontrivial=True, kind="width-sweep")
            st, got = G.guarded(lambda: width_stream(path, case), 30)
            if st != "ok":
                ctx.compare("CoolerCoarsener stream", case, st, "ok")
                ctx.fail(case, {"exception": st, "type": got}, None)
                continue
            ctx.compare("CoolerCoarsener stream (bin width sweep)", case, got, [list(p) for p in mpx])
            exp = G.oracle_pixels(blocks, case["pixels"], k)
            if got != exp:
                ctx.fail(case, {"what": "re-binned pixels differ from index-based block aggregation", "width": w, "new_binsize": w * k,
                                "got": got[:12], "expected": exp[:12]}, None)
        os.remove(path)
    # (b) end to end: a dozen widths incl. the known float-unfriendly ones, every chromosome with >= 3 coarse bins
    ws = WIDTH_CORPUS + [rng.randint(2, 2000) for _ in range(12 if thorough else 2)]
    runs = []
    for w in ws:
        nb = [rng.randint(21, 24), rng.randint(21, 23)]
        widths = [[w] * nb[0], [w] * (nb[1] - 1) + [rng.randint(1, w)]]
        ntot = sum(nb)
        symm = rng.random() < 0.7
        pixels = [list(p) for p in G.random_pixels(rng, ntot, symm, rng.choice(["sparse", "band", "diag"]))]
        # factors whose new bin size w*k has a reciprocal that rounds down in binary floating point come first
        bad_ks = [k for k in ks if any(int(np.floor(n_ * (w * k) * (1.0 / (w * k)))) < n_ for n_ in range(1, 40))]
        use = ks if thorough else (bad_ks[:2] or [rng.choice(ks)])
        for k in use:
            runs.append({"fn": "coarsen_cooler", "widths": widths, "symmetric": symm, "pixels": pixels, "k": k,
                         "chunksize": rng.choice([1, 7, len(pixels) + 1]), "nproc": 1, "note": f"width:{w}"})
    model = C.coq_eval(HDR, [model_expr(c, 1) for c in runs], tmpdir=ctx.tmp / "widthsv2")
    paths = {}
    for ri, (case, mo) in enumerate(zip(runs, model)):
        key = case["note"]
        if key not in paths:
            paths[key] = tmpdir / f"e{len(paths)}.cool"
            G.make_cooler(paths[key], blocks_from_widths(case["widths"]), case["pixels"], case["symmetric"])
        ctx.case(case, nontrivial=len(case["pixels"]) > 0, kind="width-e2e")
        mbins, mpx, medges, mchunks = mo
        st, res, out = run_api_case(ctx, tmpdir, f"x{ri}", case, cooler_path=paths[key])
        if st != "ok":
            ctx.compare(case["fn"], case, st, "ok")
            ctx.fail(case, {"exception": st, "type": res}, None)
            continue
        os.remove(out)
        ctx.compare("coarsen_cooler bins (width sweep)", case, res["bins"], [list(r) for r in mbins])
        ctx.compare("coarsen_cooler pixels (width sweep)", case, res["pixels"], [list(p) for p in mpx])
        bad = oracle_check(case, res)
        if bad:
            ctx.fail(case, bad, None)
    return n + len(runs)


# ------------------------------------------------- part 4: chains and merging
def part_chain(ctx):
    import cooler
    thorough = ctx.tier == "thorough"
    rng = ctx.rng
    tmpdir = ctx.tmp / "chain"
    tmpdir.mkdir(exist_ok=True)
    specs = [([[10] * 7, [10] * 3 + [4]], True), ([[10] * 6 + [1]], False), ([[3, 7, 3, 7, 4, 6, 2], [5, 1]], True), ([[10, 10, 15]], True)]
    for _ in range(10 if thorough else 2):
        widths, kind = G.random_widths(rng, kind=rng.choice(["fixed", "fixed", "variable"]), maxbins=9)
        specs.append((widths, rng.random() < 0.6))
    cases = []
    for widths, symm in specs:
        n = sum(len(w) for w in widths)
        pixels = [list(p) for p in G.random_pixels(rng, n, symm, rng.choice(["dense", "sparse", "emptyrows"]))]
        for k1, k2 in ([(2, 2), (2, 3), (3, 2)] if thorough else [rng.choice([(2, 2), (2, 3)]), (3, 2)]):
            cases.append({"fn": "chain", "widths": widths, "symmetric": symm, "pixels": pixels, "k1": k1, "k2": k2,
                          "chunksize": rng.choice([1, 2, 7])})
    exprs = []
    for case in cases:
        blocks = blocks_from_widths(case["widths"])
        t, sz, px = G.coq_bins(G.flat_of(blocks)), C.zl(G.sizes_of(blocks)), G.coq_pixels(case["pixels"])
        k1, k2, cs = C.z(case["k1"]), C.z(case["k2"]), C.z(case["chunksize"])
        exprs.append(f"(let sz := {sz} in let s1 := coarsen_cooler {t} sz {px} {k1} {cs} 1 in "
                     f"(coarsen_cooler (fst s1) sz (snd s1) {k2} {cs} 1, coarsen_cooler {t} sz {px} ({k1} * {k2}) {cs} 1))")
    model = C.coq_eval(HDR, exprs, tmpdir=ctx.tmp / "chainv")
    for i, (case, mo) in enumerate(zip(cases, model)):
        ctx.case(case, nontrivial=len(case["pixels"]) > 0, kind="chain")
        res = chain_run(tmpdir, f"c{i}", case)
        mb2, mp2, (mbd, mpd) = mo
        if res[0] != "ok":
            ctx.compare("chain", case, res[0], "ok")
            ctx.fail(case, {"exception": res[0]}, None)
            continue
        _, two, direct = res
        ctx.compare("chain k1;k2 bins", case, two["bins"], [list(r) for r in mb2])
        ctx.compare("chain k1;k2 pixels", case, two["pixels"], [list(p) for p in mp2])
        ctx.compare("direct k1*k2 pixels", case, direct["pixels"], [list(p) for p in mpd])
        bad = chain_oracle(case, two, direct)
        if bad:
            ctx.fail(case, bad, None)
    return len(cases)


def chain_run(tmpdir, tag, case):
    import cooler
    blocks = blocks_from_widths(case["widths"])
    a, b, c, d = (tmpdir / f"{tag}_{x}.cool" for x in "abcd")

    def go():
        G.make_cooler(a, blocks, case["pixels"], case["symmetric"])
        cooler.coarsen_cooler(str(a), str(b), case["k1"], chunksize=case["chunksize"])
        cooler.coarsen_cooler(str(b), str(c), case["k2"], chunksize=case["chunksize"])
        cooler.coarsen_cooler(str(a), str(d), case["k1"] * case["k2"], chunksize=case["chunksize"])
        mid = G.read_cooler(b)
        eb, ep = G.oracle_coarsen(blocks, case["pixels"], case["k1"])
        if mid["bins"] != eb or mid["pixels"] != ep:
            raise AssertionError("intermediate level of the chain is not the block aggregation by k1")
        return G.read_cooler(c), G.read_cooler(d)
    st, res = G.guarded(go, 60)
    for p in (a, b, c, d):
        if p.exists():
            os.remove(p)
    if st != "ok":
        return (st,)
    return ("ok", res[0], res[1])


def chain_oracle(case, two, direct):
    blocks = blocks_from_widths(case["widths"])
    ebins, epx = G.oracle_coarsen(blocks, case["pixels"], case["k1"] * case["k2"])
    for name, r in (("k1 then k2", two), ("k1*k2", direct)):
        if r["bins"] != ebins or r["pixels"] != epx:
            return {"what": f"{name} differs from block aggregation by k1*k2", "bins": r["bins"][:20], "pixels": r["pixels"][:30],
                    "expected_bins": ebins[:20], "expected_pixels": epx[:30]}
    return None


def part_merge(ctx):
    thorough = ctx.tier == "thorough"
    rng = ctx.rng
    tmpdir = ctx.tmp / "merge"
    tmpdir.mkdir(exist_ok=True)
    cases = []
    specs = [([[10] * 5, [10, 10, 3]], True), ([[4, 9, 2, 2, 8], [6]], True), ([[10] * 4 + [2]], False)]
    for _ in range(6 if thorough else 2):
        widths, kind = G.random_widths(rng, maxbins=6)
        specs.append((widths, rng.random() < 0.6))
    for widths, symm in specs:
        n = sum(len(w) for w in widths)
        pa = [list(p) for p in G.random_pixels(rng, n, symm, rng.choice(["dense", "sparse", "band"]))]
        pb = [list(p) for p in G.random_pixels(rng, n, symm, rng.choice(["sparse", "emptyrows", "diag", "empty"]))]
        cases.append({"fn": "merge/coarsen", "widths": widths, "symmetric": symm, "pixels_a": pa, "pixels_b": pb,
                      "k": rng.choice([2, 3]), "chunksize": rng.choice([1, 2, 7]), "mergebuf": rng.choice([2, 5, 1000])})
    exprs = []
    for case in cases:
        blocks = blocks_from_widths(case["widths"])
        t, sz = G.coq_bins(G.flat_of(blocks)), C.zl(G.sizes_of(blocks))
        pa, pb = G.coq_pixels(case["pixels_a"]), G.coq_pixels(case["pixels_b"])
        k, cs = C.z(case["k"]), C.z(case["chunksize"])
        exprs.append(f"(let t := {t} in let sz := {sz} in "
                     f"(coarsen_pixels t sz (aggregate ({pa} ++ {pb})) {k} {cs} 1, "
                     f"aggregate (coarsen_pixels t sz {pa} {k} {cs} 1 ++ coarsen_pixels t sz {pb} {k} {cs} 1)))")
    model = C.coq_eval(HDR, exprs, tmpdir=ctx.tmp / "mergev")
    for i, (case, mo) in enumerate(zip(cases, model)):
        ctx.case(case, nontrivial=len(case["pixels_a"]) > 0 and len(case["pixels_b"]) > 0, kind="merge")
        res = merge_run(tmpdir, f"m{i}", case)
        if res[0] != "ok":
            ctx.compare("merge/coarsen", case, res[0], "ok")
            ctx.fail(case, {"exception": res[0]}, None)
            continue
        _, mc, cm = res
        ctx.compare("coarsen(merge) pixels", case, mc["pixels"], [list(p) for p in mo[0]])
        ctx.compare("merge(coarsen) pixels", case, cm["pixels"], [list(p) for p in mo[1]])
        bad = merge_oracle(case, mc, cm)
        if bad:
            ctx.fail(case, bad, None)
    return len(cases)


def merge_run(tmpdir, tag, case):
    import cooler
    blocks = blocks_from_widths(case["widths"])
    f = {x: tmpdir / f"{tag}_{x}.cool" for x in ("a", "b", "m", "mc", "ca", "cb", "cm")}

    def go():
        G.make_cooler(f["a"], blocks, case["pixels_a"], case["symmetric"])
        G.make_cooler(f["b"], blocks, case["pixels_b"], case["symmetric"])
        cooler.merge_coolers(str(f["m"]), [str(f["a"]), str(f["b"])], mergebuf=case["mergebuf"])
        cooler.coarsen_cooler(str(f["m"]), str(f["mc"]), case["k"], chunksize=case["chunksize"])
        cooler.coarsen_cooler(str(f["a"]), str(f["ca"]), case["k"], chunksize=case["chunksize"])
        cooler.coarsen_cooler(str(f["b"]), str(f["cb"]), case["k"], chunksize=case["chunksize"])
        cooler.merge_coolers(str(f["cm"]), [str(f["ca"]), str(f["cb"])], mergebuf=case["mergebuf"])
        return G.read_cooler(f["mc"]), G.read_cooler(f["cm"])
    st, res = G.guarded(go, 60)
    for p in f.values():
        if p.exists():
            os.remove(p)
    if st != "ok":
        return (st,)
    return ("ok", res[0], res[1])


def merge_oracle(case, mc, cm):
    blocks = blocks_from_widths(case["widths"])
    allpx = sorted([list(p) for p in case["pixels_a"]] + [list(p) for p in case["pixels_b"]])
    ebins, epx = G.oracle_coarsen(blocks, allpx, case["k"])
    for name, r in (("coarsen(merge)", mc), ("merge(coarsen)", cm)):
        if r["bins"] != ebins or r["pixels"] != epx:
            return {"what": f"{name} differs from block aggregation of the union of the inputs", "pixels": r["pixels"][:30], "expected": epx[:30]}
    return None


# --------------------------------------- part 5: second value column, other agg
# regression corpus of defect D20 (fixed): coarsen_cooler used to drop every requested value column but `count`
AGG_CORPUS = [
    {"fn": "coarsen_cooler(columns=...)", "widths": [[10, 10, 10, 10]], "symmetric": True, "columns": ["count", "w"],
     "pixels": [[0, 0, 1], [0, 1, 2], [2, 3, 4]], "extra": [5, 7, 9], "k": 2, "chunksize": 10, "agg": "max"},
    {"fn": "coarsen_cooler(columns=...)", "widths": [[10, 10, 10, 10]], "symmetric": True, "columns": ["w"],
     "pixels": [[0, 0, 1], [0, 1, 2], [2, 3, 4]], "extra": [5, 7, 9], "k": 2, "chunksize": 10, "agg": "sum"},
    {"fn": "coarsen_cooler(columns=...)", "widths": [[3, 4, 5], [6]], "symmetric": False, "columns": ["count", "w"],
     "pixels": [[0, 0, 1], [1, 0, 2], [2, 3, 4], [3, 3, 1]], "extra": [5, -7, 9, 0], "k": 3, "chunksize": 1, "agg": "min"},
    # a requested aggregation on `count` itself, API and CLI (--field count:agg=max --field w:agg=min)
    {"fn": "coarsen_cooler(columns=...)", "widths": [[10] * 5, [10, 10, 3]], "symmetric": True, "columns": ["count", "w"],
     "pixels": [[0, 0, 4], [0, 1, 9], [1, 1, 2], [1, 6, 5], [2, 7, 8], [3, 3, 1], [5, 5, 6], [5, 6, 7], [6, 6, 3]],
     "extra": [5, -7, 9, 0, 3, 3, 8, -1, 2], "k": 2, "chunksize": 2, "agg": "min", "agg_count": "max"},
    {"fn": "coarsen_cooler(columns=...)", "widths": [[10] * 5, [10, 10, 3]], "symmetric": True, "columns": ["count", "w"],
     "pixels": [[0, 0, 4], [0, 1, 9], [1, 1, 2], [1, 6, 5], [2, 7, 8], [3, 3, 1], [5, 5, 6], [5, 6, 7], [6, 6, 3]],
     "extra": [5, -7, 9, 0, 3, 3, 8, -1, 2], "k": 3, "chunksize": 1, "agg": "max", "agg_count": "min", "via": "cli"},
]


def part_agg(ctx):
    thorough = ctx.tier == "thorough"
    rng = ctx.rng
    tmpdir = ctx.tmp / "agg"
    tmpdir.mkdir(exist_ok=True)
    cases = [dict(c) for c in AGG_CORPUS]
    for i in range(10 if thorough else 4):
        widths, kind = G.random_widths(rng, maxbins=6)
        symm = rng.random() < 0.5
        nb = sum(len(w) for w in widths)
        pixels = [list(p) for p in G.random_pixels(rng, nb, symm, rng.choice(["dense", "sparse"]))]
        extra = [rng.randint(-5, 20) for _ in pixels]
        cases.append({"fn": "coarsen_cooler(columns=...)", "widths": widths, "symmetric": symm, "pixels": pixels, "extra": extra,
                      "columns": rng.choice([["count", "w"], ["count", "w"], ["w"]]),
                      "k": rng.choice([2, 3]), "chunksize": rng.choice([1, 2, 7]), "agg": rng.choice(["max", "min", "sum"])})
    # the model with the requested aggregation, column by column:  coarsen_cooler_g (agg_of op)
    exprs, owners = [], []
    for i, case in enumerate(cases):
        blocks = blocks_from_widths(case["widths"])
        t, sz = G.coq_bins(G.flat_of(blocks)), C.zl(G.sizes_of(blocks))
        for c in case["columns"]:
            vals_ = [p[2] for p in case["pixels"]] if c == "count" else list(case["extra"])
            f = case.get("agg_count", "sum") if c == "count" else case["agg"]
            px = G.coq_pixels([[p[0], p[1], v] for p, v in zip(case["pixels"], vals_)])
            exprs.append(f"snd (coarsen_cooler_g {G.coq_agg(f)} {t} {sz} {px} {C.z(case['k'])} {C.z(case['chunksize'])} 1)")
            owners.append((i, c))
    model = C.coq_eval(HDR, exprs, tmpdir=ctx.tmp / "aggv")
    mcols = {}
    for (i, c), mo in zip(owners, model):
        mcols[(i, c)] = [list(p) for p in mo]
    for i, case in enumerate(cases):
        ctx.case(case, nontrivial=len(case["pixels"]) > 0, kind="agg:" + case["agg"] + ":" + "+".join(case["columns"]))
        got = {}
        for bad in agg_run(tmpdir, f"g{i}", case, got):
            ctx.fail(case, bad, None)
        for c in case["columns"]:
            if c in got:
                ctx.compare(f"coarsen_cooler column {c} (model with the requested aggregation)", case, got[c], mcols[(i, c)])
    return len(cases)


def agg_run(tmpdir, tag, case, got_out=None):
    """returns the list of violations: every requested value column must be present in the output and
    hold the requested aggregate of the block (sum unless said otherwise)"""
    import cooler
    blocks = blocks_from_widths(case["widths"])
    a, o = tmpdir / f"{tag}_a.cool", tmpdir / f"{tag}_o.cool"
    want = list(case["columns"])

    def go():
        G.make_cooler(a, blocks, case["pixels"], case["symmetric"], extra=case["extra"])
        agg = {"w": case["agg"]}
        if case.get("agg_count", "sum") != "sum":
            agg["count"] = case["agg_count"]
        if case.get("via") == "cli":
            from cooler.cli import cli
            from click.testing import CliRunner
            args = ["coarsen", "-k", str(case["k"]), "-c", str(case["chunksize"]), "-o", str(o)]
            for c in want:
                args += ["--field", c + (":agg=" + agg[c] if c in agg else "")]
            r = CliRunner().invoke(cli, args + [str(a)])
            if r.exit_code != 0:
                raise RuntimeError(f"exit {r.exit_code}: {r.exception!r}")
        else:
            cooler.coarsen_cooler(str(a), str(o), case["k"], chunksize=case["chunksize"], columns=want, agg=agg)
        cols = [c for c in cooler.Cooler(str(o)).pixels()[:0].columns if c not in ("bin1_id", "bin2_id")]
        p = cooler.Cooler(str(o)).pixels()[:]
        keys = [[int(x), int(y)] for x, y in zip(p["bin1_id"].values, p["bin2_id"].values)]
        vals = {c: [int(v) for v in p[c].values] for c in cols}
        return cols, keys, vals
    st, res = G.guarded(go, 60)
    for p in (a, o):
        if p.exists():
            os.remove(p)
    if st != "ok":
        return [{"exception": st, "type": res}]
    cols, keys, vals = res
    px4 = [[p[0], p[1], p[2], w] for p, w in zip(case["pixels"], case["extra"])]
    exp = {"count": G.oracle_pixels(blocks, px4, case["k"], case.get("agg_count", "sum"), 2),
           "w": G.oracle_pixels(blocks, px4, case["k"], case["agg"], 3)}
    bad = []
    for c in want:
        if c not in cols:
            bad.append({"what": f"requested value column '{c}' is missing from the coarsened cooler", "columns": cols})
        else:
            got = [k_ + [v] for k_, v in zip(keys, vals[c])]
            if got_out is not None:
                got_out[c] = got
            if got != exp[c]:
                bad.append({"what": f"value column {c}", "got": got[:30], "expected": exp[c][:30]})
    return bad


# ---------------------------- part 7: audit of the public parameters (glue), fixed deterministic scenarios
P_WIDTHS = [[10], [10] * 5 + [4], [10]]           # single-bin chromosomes first and last, a short last bin
P_PX = [[0, 0, 1], [0, 1, 2], [1, 1, 3], [1, 4, 1], [2, 3, 5], [3, 3, 1], [3, 7, 2], [6, 7, 4], [7, 7, 9]]
P_PX_TAIL_EMPTY = [[0, 0, 1], [0, 5, 2], [1, 1, 3], [1, 7, 1], [2, 2, 5], [2, 3, 1]]      # rows 3..7 empty


def _p_expect(k, px=None):
    return G.oracle_coarsen(blocks_from_widths(P_WIDTHS), px or P_PX, k)


def _p_bad(label, uri, k, px=None, extra=None):
    """None or a violation: the cooler stored at uri must be the block aggregation by k of the fixed input"""
    r = G.read_cooler(uri)
    eb, ep = _p_expect(k, px)
    if r["bins"] != eb or r["pixels"] != ep or r["sum"] != sum(p[2] for p in (px or P_PX)) or r["nnz"] != len(ep):
        return {"what": label, "uri": str(uri), "k": k, "bins": r["bins"], "pixels": r["pixels"][:20], "expected_pixels": ep[:20]}
    return None


def _p_base(d, name="a.cool", px=None, **kw):
    p = d / name
    G.make_cooler(p, blocks_from_widths(P_WIDTHS), px or P_PX, True, **kw)
    return p


def sc_nested_append_samefile(d):
    import cooler
    a = _p_base(d)
    o = d / "o1.cool"
    cooler.coarsen_cooler(str(a), f"{o}::/x/y", 2, chunksize=2)                  # output URI in a nested group of a new file
    bad = _p_bad("output in a nested group", f"{o}::/x/y", 2)
    cooler.coarsen_cooler(str(a), f"{o}::/z", 3, chunksize=3)                    # default append=True: a second cooler in the same file
    bad = bad or _p_bad("second cooler appended to an existing file", f"{o}::/z", 3) or _p_bad("first cooler after the append", f"{o}::/x/y", 2)
    cooler.coarsen_cooler(f"{o}::/x/y", f"{o}::/xx", 2, chunksize=1)             # input and output in the same file (base = URI into a multi-collection file)
    eb, ep = _p_expect(4)
    r = G.read_cooler(f"{o}::/xx")
    if not bad and (r["bins"] != eb or r["pixels"] != ep):
        bad = {"what": "same-file coarsening of an already coarsened group (2 then 2 = 4)", "pixels": r["pixels"], "expected": ep}
    cooler.coarsen_cooler(str(a), f"{o}::/z", 2, chunksize=7)                    # re-running onto an existing group replaces it
    bad = bad or _p_bad("re-run onto an existing group", f"{o}::/z", 2)
    got = sorted(cooler.fileops.list_coolers(str(o)))
    if not bad and got != ["/x/y", "/xx", "/z"]:
        bad = {"what": "groups in the output file", "got": got}
    cooler.coarsen_cooler(str(a), str(o), 2, chunksize=3, mode="w")              # mode='w' truncates
    bad = bad or _p_bad("mode='w'", str(o), 2)
    got = sorted(cooler.fileops.list_coolers(str(o)))
    if not bad and got != ["/"]:
        bad = {"what": "mode='w' must truncate the file", "got": got}
    return bad


def sc_nproc_uneven(d):
    import cooler
    from cooler._reduce import CoolerCoarsener
    a = _p_base(d)
    nspans = len(CoolerCoarsener(str(a), 2, 1, ["count"], None, 1).edges) - 1
    bad = None
    for nproc in (2, 3):
        if nspans % nproc == 0:
            return {"what": "generator: span count must not be divisible by nproc", "spans": nspans, "nproc": nproc}
        o = d / f"n{nproc}.cool"
        cooler.coarsen_cooler(str(a), str(o), 2, chunksize=1, nproc=nproc)
        bad = bad or _p_bad(f"nproc={nproc} with {nspans} spans", str(o), 2)
    return bad


def sc_cli_flags(d):
    import cooler
    from cooler.cli import cli
    from click.testing import CliRunner
    a = _p_base(d)
    o = d / "c.cool"
    r = CliRunner().invoke(cli, ["coarsen", "-k", "2", "-c", "1", "-p", "2", "-o", f"{o}::/g", str(a)])
    if r.exit_code != 0:
        return {"what": "cooler coarsen -p 2 -o file::/g", "exit": r.exit_code, "exception": repr(r.exception)}
    bad = _p_bad("cooler coarsen -p 2 -o file::/g", f"{o}::/g", 2)
    r = CliRunner().invoke(cli, ["coarsen", "-k", "3", "-c", "2", "--append", "-o", f"{o}::/h", str(a)])
    if r.exit_code != 0:
        return {"what": "cooler coarsen --append", "exit": r.exit_code, "exception": repr(r.exception)}
    bad = bad or _p_bad("cooler coarsen --append (second group)", f"{o}::/h", 3) or _p_bad("first group after --append", f"{o}::/g", 2)
    r = CliRunner().invoke(cli, ["coarsen", "-k", "2", "-c", "2", "-a", "-o", f"{o}::/gg", f"{o}::/g"])     # same file: the CLI passes the lock
    if r.exit_code != 0:
        return {"what": "cooler coarsen within one file", "exit": r.exit_code, "exception": repr(r.exception)}
    eb, ep = _p_expect(4)
    rr = G.read_cooler(f"{o}::/gg")
    if not bad and (rr["bins"] != eb or rr["pixels"] != ep):
        bad = {"what": "cooler coarsen within one file (2 then 2 = 4)", "pixels": rr["pixels"], "expected": ep}
    return bad


def sc_dtypes_lock(d):
    import cooler
    a = _p_base(d)
    bad = None
    o = d / "t1.cool"
    cooler.coarsen_cooler(str(a), str(o), 2, chunksize=3, dtypes={"count": np.float64})          # full dtypes dict
    bad = bad or _p_bad("dtypes={'count': float64}", str(o), 2)
    dt = str(cooler.Cooler(str(o)).pixels().dtypes["count"])
    if not bad and dt != "float64":
        bad = {"what": "requested dtype of count", "got": dt}
    o = d / "t2.cool"
    cooler.coarsen_cooler(str(a), str(o), 3, chunksize=2, lock=cooler.parallel.lock)             # lock kwarg
    bad = bad or _p_bad("lock=", str(o), 3)
    # partial dtypes dict with an extra column: count keeps the input dtype
    b = d / "w.cool"
    G.make_cooler(b, blocks_from_widths(P_WIDTHS), P_PX, True, extra=[3, 1, 4, 1, 5, 9, 2, 6, 5])
    o = d / "t3.cool"
    cooler.coarsen_cooler(str(b), str(o), 2, chunksize=2, columns=["count", "w"], dtypes={"w": np.float64}, agg={"w": "max"})
    p = cooler.Cooler(str(o)).pixels()[:]
    px4 = [[q[0], q[1], q[2], w] for q, w in zip(P_PX, [3, 1, 4, 1, 5, 9, 2, 6, 5])]
    blocks = blocks_from_widths(P_WIDTHS)
    e1 = G.oracle_pixels(blocks, px4, 2, "sum", 2)
    e2 = G.oracle_pixels(blocks, px4, 2, "max", 3)
    got1 = [[int(x), int(y), int(v)] for x, y, v in zip(p["bin1_id"], p["bin2_id"], p["count"])]
    got2 = [[int(x), int(y), float(v)] for x, y, v in zip(p["bin1_id"], p["bin2_id"], p["w"])]
    if not bad and (got1 != e1 or got2 != [[x, y, float(v)] for x, y, v in e2] or str(p["count"].dtype) != "int32" or str(p["w"].dtype) != "float64"):
        bad = {"what": "partial dtypes dict {'w': float64} with agg {'w': 'max'}", "count": got1[:10], "w": got2[:10],
               "dtypes": [str(p["count"].dtype), str(p["w"].dtype)]}
    return bad


def sc_shapes(d):
    import cooler
    bad = None
    # float counts (multiples of 1/4: sums are exact), an extra bin column on the input, trailing empty rows
    fpx = [[p[0], p[1], p[2] / 4.0 + 0.25] for p in P_PX]
    a = d / "f.cool"
    G.make_cooler(a, blocks_from_widths(P_WIDTHS), fpx, True, count_dtype="float64", bin_weight=[0.5 + i for i in range(8)])
    o = d / "f2.cool"
    cooler.coarsen_cooler(str(a), str(o), 2, chunksize=2)
    p = cooler.Cooler(str(o)).pixels()[:]
    got = [[int(x), int(y), float(v)] for x, y, v in zip(p["bin1_id"], p["bin2_id"], p["count"])]
    exp = [[x, y, float(v)] for x, y, v in G.oracle_pixels(blocks_from_widths(P_WIDTHS), fpx, 2)]
    if got != exp or str(p["count"].dtype) != "float64":
        bad = {"what": "float64 counts on a base with a weight bin column", "got": got[:10], "expected": exp[:10], "dtype": str(p["count"].dtype)}
    b = _p_base(d, "e.cool", px=P_PX_TAIL_EMPTY)
    for k, cs in ((2, 1), (3, 2), (9, 1)):
        o = d / f"e{k}.cool"
        cooler.coarsen_cooler(str(b), str(o), k, chunksize=cs)
        bad = bad or _p_bad(f"trailing empty rows, k={k}", str(o), k, px=P_PX_TAIL_EMPTY)
    return bad


def sc_batchsize(d):
    """CoolerCoarsener with batchsize 2 and 3 over the builtin map: same stream as batchsize 1"""
    a = _p_base(d)
    case = {"k": 2, "chunksize": 1}
    ref = impl_coarsener(a, case, 1)
    for bsz in (2, 3):
        got = impl_coarsener(a, case, bsz)
        if got != ref or not chunks_ok(got[1]):
            return {"what": f"chunk stream with batchsize={bsz} differs from batchsize=1", "got": got[1][:6], "expected": ref[1][:6]}
    flat = [p for ch in ref[1] for p in ch]
    if flat != _p_expect(2)[1]:
        return {"what": "chunk stream", "got": flat}
    return None


def _read_typed(uri, col="count"):
    import cooler
    p = cooler.Cooler(str(uri)).pixels()[:]
    dt = p[col].dtype
    conv = float if dt.kind == "f" else int
    return str(dt), [[int(a), int(b), conv(v)] for a, b, v in zip(p["bin1_id"], p["bin2_id"], p[col])]


def sc_reused_argument_objects(d):
    """regression input of D34 (fixed): the SAME dtypes / agg / columns objects passed to consecutive calls on inputs
    with different value dtypes; every output must have the dtype and the sums of ITS input, and the caller's
    objects must be unchanged after each call"""
    import copy
    import cooler
    blocks = blocks_from_widths(P_WIDTHS)
    src, dst = d / "r_src.cool", d / "r_dst.cool"
    for dtypes, columns, agg in (({}, ["count"], {}), ({"w": np.dtype("float64")}, ["count", "w"], {"w": "max"})):
        before = copy.deepcopy((dtypes, columns, agg))
        for cdt, scale in (("int32", 1), ("float64", 0.25), ("int64", 3), ("float64", 0.5), ("int32", 2)):
            conv = float if cdt == "float64" else int
            px = [[p[0], p[1], conv(p[2] * scale)] for p in P_PX]
            extra = [3, 1, 4, 1, 5, 9, 2, 6, 5] if "w" in columns else None
            G.make_cooler(src, blocks, px, True, count_dtype=cdt, extra=extra)
            k = 2 if cdt != "int64" else 3
            cooler.coarsen_cooler(str(src), str(dst), k, chunksize=2, columns=columns, dtypes=dtypes, agg=agg, mode="w")
            if (dtypes, columns, agg) != before:
                return {"what": "coarsen_cooler changed the caller's dtypes/columns/agg objects", "after": repr((dtypes, columns, agg)), "before": repr(before)}
            dt, got = _read_typed(dst)
            exp = [[a, b, conv(v)] for a, b, v in G.oracle_pixels(blocks, px, k)]
            if dt != cdt or got != exp:
                return {"what": f"reused argument objects: output for a {cdt} input", "stored_dtype": dt, "got": got[:10], "expected": exp[:10]}
            if "w" in columns:
                dtw, gotw = _read_typed(dst, "w")
                px4 = [[p[0], p[1], p[2], w] for p, w in zip(px, extra)]
                expw = [[a, b, float(v)] for a, b, v in G.oracle_pixels(blocks, px4, k, "max", 3)]
                if dtw != "float64" or gotw != expw:
                    return {"what": "reused argument objects: column w", "stored_dtype": dtw, "got": gotw[:10], "expected": expw[:10]}
    return None


LEGACY_ATTRS = ["storage-mode", "bin-type", "sum", "nchroms", "format", "format-version:2", "format-url", "generated-by",
                "creation-date", "metadata", "genome-assembly"]


def sc_legacy_attrs(d):
    """bases in legacy form: optional header attributes removed one at a time (format-version set to 2); the result
    follows the documented defaults of the reader (a missing storage-mode means symmetric-upper)"""
    import cooler
    blocks = blocks_from_widths(P_WIDTHS)
    sq_px = sorted(P_PX + [[4, 1, 2], [7, 0, 5], [5, 5, 1]])
    for symm, px in ((True, P_PX), (False, sq_px)):
        for attr in (LEGACY_ATTRS if symm else ["bin-type", "sum", "nchroms", "format-version:2"]):
            if attr == "storage-mode" and not symm:
                continue        # lower-triangle data without the attribute is not a valid (symmetric-upper by default) cooler
            a, o = d / "lg.cool", d / "lg_o.cool"
            G.make_cooler(a, blocks, px, symm)
            G.strip_attr(a, attr)
            cooler.coarsen_cooler(str(a), str(o), 2, chunksize=3, mode="w")
            bad = oracle_check({"widths": P_WIDTHS, "symmetric": symm, "pixels": px, "k": 2}, G.read_cooler(o))
            if bad:
                return dict(bad, legacy=f"base without '{attr}'", symmetric=symm)
    # upper-triangular data stored as square, attribute removed: read as symmetric-upper by default
    a, o = d / "lg.cool", d / "lg_o.cool"
    G.make_cooler(a, blocks, P_PX, False)
    G.strip_attr(a, "storage-mode")
    cooler.coarsen_cooler(str(a), str(o), 3, chunksize=1, mode="w")
    bad = oracle_check({"widths": P_WIDTHS, "symmetric": True, "pixels": P_PX, "k": 3}, G.read_cooler(o))
    if bad:
        return dict(bad, legacy="square-tagged upper-triangular base without 'storage-mode'")
    # merge inputs in legacy form, then coarsen
    b, m = d / "lg_b.cool", d / "lg_m.cool"
    px_b = [[0, 0, 2], [2, 3, 1], [6, 7, 1]]
    G.make_cooler(a, blocks, P_PX, True)
    G.make_cooler(b, blocks, px_b, True)
    for f_ in (a, b):
        G.strip_attr(f_, "storage-mode")
        G.strip_attr(f_, "sum")
    cooler.merge_coolers(str(m), [str(a), str(b)], mergebuf=4)
    cooler.coarsen_cooler(str(m), str(o), 2, chunksize=2, mode="w")
    allpx = sorted([list(p) for p in P_PX] + px_b)
    bad = oracle_check({"widths": P_WIDTHS, "symmetric": True, "pixels": allpx, "k": 2}, G.read_cooler(o))
    if bad:
        return dict(bad, legacy="coarsen(merge) of two inputs without 'storage-mode' and 'sum'")
    return None


SCENARIOS = {"nested/append/same-file/mode": sc_nested_append_samefile, "nproc with uneven span count": sc_nproc_uneven,
             "CLI -p/--append/-o URI": sc_cli_flags, "dtypes dict / lock": sc_dtypes_lock,
             "float counts, weight column, trailing empty rows": sc_shapes, "CoolerCoarsener batchsize": sc_batchsize,
             "the same dtypes/agg/columns objects reused across calls (D34)": sc_reused_argument_objects,
             "legacy / optional header attributes removed from the base": sc_legacy_attrs}


def run_scenario(ctx_tmp, label, table):
    import tempfile
    import shutil
    d = pathlib.Path(tempfile.mkdtemp(dir=str(ctx_tmp), prefix="sc_"))
    try:
        st, res = G.guarded(lambda: table[label](d), 120)
    finally:
        shutil.rmtree(d, ignore_errors=True)
    if st != "ok":
        return {"what": label, "exception": st, "type": res}
    return res


def part_params(ctx):
    # the model once per factor used by the scenarios (same fixed input)
    blocks = blocks_from_widths(P_WIDTHS)
    t, sz = G.coq_bins(G.flat_of(blocks)), C.zl(G.sizes_of(blocks))
    exprs = [f"coarsen_cooler {t} {sz} {G.coq_pixels(P_PX)} {C.z(k)} {C.z(cs)} {C.z(bs)}" for k, cs, bs in ((2, 1, 3), (3, 2, 1), (4, 7, 2))]
    exprs.append(f"coarsen_cooler {t} {sz} {G.coq_pixels(P_PX_TAIL_EMPTY)} 2 1 1")
    model = C.coq_eval(HDR, exprs, tmpdir=ctx.tmp / "paramv")
    for (k, px), mo in zip(((2, P_PX), (3, P_PX), (4, P_PX), (2, P_PX_TAIL_EMPTY)), model):
        eb, ep = _p_expect(k, px)
        case = {"fn": "param-scenario model", "k": k}
        ctx.compare("model vs block aggregation on the scenario input", case, [eb, ep], [[list(r) for r in mo[0]], [list(p) for p in mo[1]]])
    for label in SCENARIOS:
        case = {"fn": "param-scenario", "label": label}
        ctx.case(case, nontrivial=True, kind="params")
        bad = run_scenario(ctx.tmp, label, SCENARIOS)
        if bad:
            ctx.fail(case, bad, None)
    return len(SCENARIOS)


# --------------- part 8: every level of every multi-resolution producer is a block aggregation of its base
def part_multires(ctx):
    """zoomify_cooler / `cooler zoomify --base-uri` with 1, 2 and 3 base coolers in every listing order (bases that
    are / are not multiples of each other): every level of the file -- the copied base levels included (k = 1:
    bins, pixels and indexes equal to that base input) -- must be the k-fold block aggregation its label claims.
    The run / oracle / model helpers are those of harness/c09.py (same owner)."""
    import c09
    thorough = ctx.tier == "thorough"
    rng = ctx.rng
    tmpdir = ctx.tmp / "multires"
    tmpdir.mkdir(exist_ok=True)
    sizes = [120, 45, 10]
    base = {r: c09.random_base(rng, sizes, r, True, weight=(r in (15, 20)), pattern=pat)
            for r, pat in ((10, "dense"), (15, "band"), (20, "dense"), (30, "sparse"))}
    plans = [((10,), [20, 60]),
             ((10, 15), [20, 30, 45]), ((10, 20), [40, 30, 60]),                       # not multiples / multiples of each other
             ((10, 15, 20), [30, 40, 45, 60]), ((10, 20, 30), [60, 40, 90])]
    cases = []
    for bs, res in plans:
        orders = list(itertools.permutations(bs))
        if not thorough and len(bs) == 3 and bs == (10, 20, 30):
            orders = [orders[4]]
        for order in orders:
            r_ = list(res)
            rng.shuffle(r_)
            cases.append({"fn": "zoomify_cooler (every level)", "symmetric": True, "bases": [base[b] for b in order], "resolutions": r_,
                          "chunksize": rng.choice([1, 7, 1000]), "note": "bases " + ",".join(map(str, order)), "aslist": True})
    for order in (((15, 10, 20), (20, 15)) if thorough else ((15, 10, 20),)):
        cases.append({"fn": "cooler zoomify --base-uri (every level)", "symmetric": True, "bases": [base[b] for b in order],
                      "resolutions": [60, 30] if 10 in order else [40, 45], "chunksize": rng.choice([7, 1000]),
                      "note": "cli bases " + ",".join(map(str, order)), "via": "cli", "aslist": True})
    model = C.coq_eval(c09.HDR, [c09.zoom_model_expr(c) for c in cases], tmpdir=ctx.tmp / "multiresv")
    for i, (case, mo) in enumerate(zip(cases, model)):
        ctx.case(case, nontrivial=len(case["bases"]) > 1, kind="multires:" + ("cli" if case.get("via") else "api") + f":{len(case['bases'])}bases")
        st, res, srcs = c09.zoom_run(tmpdir, f"m{i}", case)
        if mo is None or st != "ok":
            ctx.compare("zoomify status", case, st, "ValueError" if mo is None else "ok")
        else:
            mlv = {}
            for r, bins_, px_ in mo[1]:
                mlv.setdefault(r, ([list(x) for x in bins_], [list(x) for x in px_]))
            ctx.compare("levels of the file", case, res["listing"], sorted(f"/resolutions/{r}" for r in mlv))
            for r, (mb, mp) in sorted(mlv.items()):
                lv = res["levels"].get(f"/resolutions/{r}")
                if lv is not None:
                    # the model says which base the level derives from: coarsen(model) of that base by r/base (k = 1 for a base)
                    ctx.compare(f"level {r} bins = coarsen(model) of its base", case, lv["bins"], mb)
                    ctx.compare(f"level {r} pixels = coarsen(model) of its base", case, lv["pixels"], mp)
        bad = c09.zoom_oracle(case, st, res, srcs)
        if bad:
            ctx.fail(case, bad, None)
    return len(cases)


# ----------- part 9: HISTORIES in one process: the same source / destination URI strings, files rewritten in between
def fixed_widths(sizes, b):
    return [[b] * (L // b) + ([L % b] if L % b else []) for L in sizes]


def history_plans(rng, thorough):
    """each history is a list of steps; a step rewrites the file behind the SAME source URI string (unless
    'keep') and coarsens it into the SAME destination path; every output is judged for the data stored NOW"""
    def px(widths, symm, pat=None):
        n = sum(len(w) for w in widths)
        return [list(p) for p in G.random_pixels(rng, n, symm, pat or rng.choice(["dense", "sparse", "band", "emptyrows"]))]

    def step(widths, k, cs, nproc=1, symm=True, note="", keep=False, pat=None):
        return {"widths": widths, "symmetric": symm, "pixels": None if keep else px(widths, symm, pat), "k": k, "chunksize": cs,
                "nproc": nproc, "note": note, "keep": keep}
    g1 = [130, 47]
    rewrite = [
        step(fixed_widths(g1, 10), 2, 1, note="10 bp", pat="dense"),
        step(fixed_widths(g1, 20), 2, 2, note="same genome re-binned coarser (fewer bins)", pat="dense"),
        step(fixed_widths(g1, 20), 3, 7, note="same table, other pixels"),
        step(fixed_widths(g1, 5), 3, 7, note="re-binned finer (more bins)", pat="band"),
        step(fixed_widths(g1, 10), 2, 1000, note="back to 10 bp", pat="dense"),
        step(fixed_widths([60, 30, 25], 10), 2, 1, note="other chromsizes, fewer bins", pat="dense"),
        step([[3, 8, 4, 6, 9, 2, 2], [5, 1, 7]], 2, 2, note="variable-width bins, fewer bins", pat="dense"),
        step([[10, 10, 15], [7, 23]], 2, 1, note="variable (longer last bins), fewer bins again", pat="dense"),
        step(fixed_widths([90, 45], 5), 5, 3, symm=False, note="square storage, more bins", pat="sparse"),
        step(fixed_widths([90, 45], 15), 2, 1, nproc=1, note="coarser, nproc=1 ...", pat="dense"),
        step(fixed_widths([90, 45], 15), 2, 1, nproc=2, keep=True, note="... then nproc=2 on the same file"),
        step(fixed_widths([45, 90], 9), 2, 1, nproc=2, note="rewritten, nproc=2 straight away (workers forked after the earlier calls)", pat="dense"),
        step(fixed_widths([45, 90], 9), 3, 2, nproc=1, keep=True, note="nproc=1 after nproc=2"),
    ]
    if thorough:
        for _ in range(12):
            w, kind = G.random_widths(rng, maxbins=9)
            rewrite.append(step(w, rng.choice([2, 3, 5]), rng.choice([1, 2, 7, 1000]), nproc=rng.choice([1, 1, 2]), symm=rng.random() < 0.6, note="random:" + kind))
    return {"rewrite the source between calls": rewrite}


def history_run(tmpdir, steps, upto=None):
    """runs the steps in THIS process; returns [(step index, status, result)] for the executed steps"""
    import cooler
    src, dst = tmpdir / "h_src.cool", tmpdir / "h_dst.cool"
    out = []
    cur = None
    for i, st_ in enumerate(steps if upto is None else steps[: upto + 1]):
        blocks = blocks_from_widths(st_["widths"])
        if not st_["keep"]:
            cur = st_["pixels"]
            G.make_cooler(src, blocks, cur, st_["symmetric"])            # same URI string, new content

        def go():
            cooler.coarsen_cooler(str(src), str(dst), st_["k"], chunksize=st_["chunksize"], nproc=st_["nproc"], mode="w")
            return G.read_cooler(dst)
        status, res = G.guarded(go, 60)
        out.append((i, status, res, cur))
    for p in (src, dst):
        if p.exists():
            os.remove(p)
    return out


def history_ladder_run(tmpdir, case):
    """a zoom ladder made by hand with two path names used alternately: a -> b -> a -> b ..."""
    import cooler
    a, b = tmpdir / "l_a.cool", tmpdir / "l_b.cool"
    blocks = blocks_from_widths(case["widths"])
    G.make_cooler(a, blocks, case["pixels"], case["symmetric"])
    res = []
    cur, nxt = a, b
    for k, cs in zip(case["ks"], case["chunksizes"]):
        def go():
            cooler.coarsen_cooler(str(cur), str(nxt), k, chunksize=cs, mode="w")
            return G.read_cooler(nxt)
        res.append(G.guarded(go, 60))
        cur, nxt = nxt, cur
    for p in (a, b):
        if p.exists():
            os.remove(p)
    return res


def ladder_bad(case, res):
    blocks = blocks_from_widths(case["widths"])
    ktot = 1
    for j, ((st, r), k) in enumerate(zip(res, case["ks"])):
        ktot *= k
        if st != "ok":
            return {"what": f"ladder step {j}", "exception": st, "type": r}
        eb, ep = G.oracle_coarsen(blocks, case["pixels"], ktot)
        if r["bins"] != eb or r["pixels"] != ep:
            return {"what": f"ladder step {j}: level is not the block aggregation by {ktot} of the original", "pixels": r["pixels"][:20], "expected": ep[:20]}
    return None


def part_history(ctx):
    thorough = ctx.tier == "thorough"
    rng = ctx.rng
    tmpdir = ctx.tmp / "history"
    tmpdir.mkdir(exist_ok=True)
    n = 0
    for name, steps in history_plans(rng, thorough).items():
        cur = None
        exprs = []
        for st_ in steps:
            if not st_["keep"]:
                cur = st_["pixels"]
            exprs.append(model_expr(dict(st_, pixels=cur), st_["nproc"]))
        model = C.coq_eval(HDR, exprs, tmpdir=ctx.tmp / "historyv")
        case = {"fn": "history", "name": name, "steps": steps}
        ctx.case(case, nontrivial=True, kind="history")
        for (i, status, res, cur), mo in zip(history_run(tmpdir, steps), model):
            n += 1
            st_ = steps[i]
            sub = dict(st_, pixels=cur)
            tag = f"history step {i} ({st_['note']})"
            if status != "ok":
                ctx.compare(tag, case, status, "ok")
                ctx.fail(case, {"step": i, "note": st_["note"], "exception": status, "type": res}, None)
                continue
            ctx.compare(tag + " bins", case, res["bins"], [list(r) for r in mo[0]])
            ctx.compare(tag + " pixels", case, res["pixels"], [list(p) for p in mo[1]])
            bad = oracle_check(sub, res)
            if bad:
                ctx.fail(case, dict(bad, step=i, note=st_["note"]), None)
    # ladder by hand over two alternating file names
    for widths, symm in ((fixed_widths([160, 70], 5), True), ([[3, 8, 4, 6, 9, 2, 2, 5, 5], [5, 1, 7, 2]], False)):
        nb = sum(len(w) for w in widths)
        case = {"fn": "history-ladder", "widths": widths, "symmetric": symm, "pixels": [list(p) for p in G.random_pixels(rng, nb, symm, "dense")],
                "ks": [2, 2, 2, 2] if symm else [2, 3, 2], "chunksizes": [1, 2, 1, 7]}
        ctx.case(case, nontrivial=True, kind="history")
        n += len(case["ks"])
        bad = ladder_bad(case, history_ladder_run(tmpdir, case))
        if bad:
            ctx.fail(case, bad, None)
    return n


# ------- part 10: LARGE genomes with FEW bins: genome-wide offsets around 2^31 and 2^32 (every chromosome < 2^31)
LARGE_GENOMES = [
    ("just below 2^31", [1_000_000_000, 700_000_000, 447_483_000]),
    ("exactly 2^31", [1_000_000_000, 700_000_000, 447_483_648]),
    ("above 2^31", [1_200_000_000, 900_000_000, 600_000_000, 300_000_000]),
    ("just below 2^32", [1_500_000_000, 1_500_000_000, 1_200_000_000, 94_967_000, 250_000_000]),
    ("exactly 2^32", [1_500_000_000, 1_500_000_000, 1_200_000_000, 94_967_296]),
    ("above 2^32", [2_000_000_000, 2_000_000_000, 1_500_000_000, 800_000_000, 2_147_483_647]),
]


def large_variable_widths(rng, sizes):
    out = []
    for L in sizes:
        cuts = sorted({rng.randrange(1, L // 50_000_000 + 1) * 50_000_000 for _ in range(rng.randint(1, 3))} - {L})
        cuts = [c for c in cuts if 0 < c < L]
        edges = [0] + cuts + [L]
        out.append([b - a for a, b in zip(edges[:-1], edges[1:])])
    return out


def part_large(ctx):
    import c09
    thorough = ctx.tier == "thorough"
    rng = ctx.rng
    tmpdir = ctx.tmp / "large"
    tmpdir.mkdir(exist_ok=True)
    inputs = []
    allb = [100_000_000, 250_000_000, 500_000_000, 1_000_000_000]

    def nbins(sizes, bb):
        return sum(-(-L // bb) for L in sizes)
    for gi, (gname, sizes) in enumerate(LARGE_GENOMES):
        ok = [bb for bb in allb if nbins(sizes, bb) <= 24]          # few bins: the runs stay cheap
        for bb in (ok if thorough else [ok[(gi + rng.randrange(len(ok))) % len(ok)]]):
            inputs.append((f"{gname}, fixed {bb // 1_000_000} Mb", fixed_widths(sizes, bb), rng.random() < 0.6, bb))
        if thorough or gi in (2, 4):
            inputs.append((f"{gname}, variable", large_variable_widths(rng, sizes), rng.random() < 0.5, None))
    runs, zooms = [], []
    for note, widths, symm, bb in inputs:
        n = sum(len(w) for w in widths)
        nmax = max(len(w) for w in widths)
        # pixels on every chromosome, in particular on those beyond the 2^31 / 2^32 marks
        pixels = [list(p) for p in G.random_pixels(rng, n, symm, rng.choice(["dense", "dense", "band"]))]
        ks = [2, nmax + 1] + ([3] if (thorough or rng.random() < 0.4) else [])
        for k in ks:
            runs.append({"fn": "coarsen_cooler", "widths": widths, "symmetric": symm, "pixels": pixels, "k": k,
                         "chunksize": rng.choice([1, 7, len(pixels) + 1]), "nproc": 1, "note": "large:" + note})
        blocks = blocks_from_widths(widths)
        # zoomify's convention: the base resolution is the bin size if the table reports one (some chromosome has
        # >= 2 bins of that width), 1 otherwise
        rb = bb if (bb and nmax >= 2) else 1
        base = {"res": rb, "blocks": [[list(x) for x in blk] for blk in blocks], "pixels": pixels, "weight": False}
        zooms.append({"fn": "zoomify_cooler (large genome)", "symmetric": symm, "bases": [base],
                      "resolutions": sorted({2 * rb, (nmax + 1) * rb} | ({4 * rb} if nmax >= 4 else set())),
                      "chunksize": rng.choice([1, 7, 1000]), "note": "large:" + note})
    if runs:
        r2 = dict(runs[len(runs) // 2], nproc=2, chunksize=1, note=runs[len(runs) // 2]["note"] + " nproc=2")
        r3 = dict(runs[-2], nproc=2, chunksize=1, note=runs[-2]["note"] + " nproc=2")
        runs += [r2, r3]
    if not thorough:
        zooms = zooms[::2]
    model = C.coq_eval(HDR, [model_expr(c, c["nproc"]) for c in runs], tmpdir=ctx.tmp / "largev")
    paths = {}
    for ri, (case, mo) in enumerate(zip(runs, model)):
        key = case["note"].replace(" nproc=2", "")
        if key not in paths:
            paths[key] = tmpdir / f"g{len(paths)}.cool"
            G.make_cooler(paths[key], blocks_from_widths(case["widths"]), case["pixels"], case["symmetric"])
        ctx.case(case, nontrivial=True, kind="large-genome")
        mbins, mpx, medges, mchunks = mo
        st, res, out = run_api_case(ctx, tmpdir, f"L{ri}", case, cooler_path=paths[key])
        if st != "ok":
            ctx.compare(case["fn"], case, st, "ok")
            ctx.fail(case, {"exception": st, "type": res}, None)
            continue
        os.remove(out)
        ctx.compare("coarsen_cooler bins (large genome)", case, res["bins"], [list(r) for r in mbins])
        ctx.compare("coarsen_cooler pixels (large genome)", case, res["pixels"], [list(p) for p in mpx])
        bad = oracle_check(case, res)
        if bad:
            ctx.fail(case, bad, None)
    for p in paths.values():
        if p.exists():
            os.remove(p)
    zmodel = C.coq_eval(c09.HDR, [c09.zoom_model_expr(c) for c in zooms], tmpdir=ctx.tmp / "largezv")
    for i, (case, mo) in enumerate(zip(zooms, zmodel)):
        ctx.case(case, nontrivial=True, kind="large-genome-zoomify")
        st, res, srcs = c09.zoom_run(tmpdir, f"Z{i}", case)
        if mo is None or st != "ok":
            ctx.compare("zoomify status (large genome)", case, st, "ValueError" if mo is None else "ok")
        else:
            for r, bins_, px_ in mo[1]:
                lv = res["levels"].get(f"/resolutions/{r}")
                if lv is not None:
                    ctx.compare(f"large genome level {r} bins", case, lv["bins"], [list(x) for x in bins_])
                    ctx.compare(f"large genome level {r} pixels", case, lv["pixels"], [list(x) for x in px_])
        bad = c09.zoom_oracle(case, st, res, srcs)
        if bad:
            ctx.fail(case, bad, None)
    return len(runs) + len(zooms)


# -------- part 11: `cooler coarsen` / `cooler zoomify` with every arrangement of 1..3 --field options
F_WIDTHS = [[10] * 6 + [4], [10] * 4]
F_COLS = ("count", "w", "s")


def field_source(rng):
    n = sum(len(w) for w in F_WIDTHS)
    px = [list(p) for p in G.random_pixels(rng, n, True, "dense", maxcount=30)]
    cols = {"count": [p[2] for p in px], "w": [rng.randint(-9, 40) for _ in px], "s": [rng.randint(-50, 50) for _ in px]}
    return px, cols


def field_args(fields):
    args = []
    for name, agg, dt in fields:
        props = ([f"dtype={dt}"] if dt else []) + ([f"agg={agg}"] if agg else [])
        if len(props) == 2 and hash((name, agg)) % 2:
            props.reverse()
        args += ["--field", name + (":" + ",".join(props) if props else "")]
    return args


def field_run(tmpdir, tag, case):
    """returns {column: (dtype name, [[b1,b2,value]...])} of the output (level for zoomify)"""
    import cooler
    from cooler.cli import cli
    from click.testing import CliRunner
    blocks = blocks_from_widths(F_WIDTHS)
    a, o = tmpdir / f"{tag}.cool", tmpdir / f"{tag}_o.cool"
    px, cols = case["pixels"], case["cols"]
    fields = [tuple(f) for f in case["fields"]]

    def go():
        G.make_cooler(a, blocks, px, True, extra=cols["w"], more={"s": cols["s"]})      # w and s are in the source whether requested or not
        if case["cmd"] == "zoomify":
            r = CliRunner().invoke(cli, ["zoomify", "-o", str(o), "-c", str(case["chunksize"]), "-r", "20,40"] + field_args(fields) + [str(a)])
            uris = {20: f"{o}::resolutions/20", 40: f"{o}::resolutions/40"}
        else:
            r = CliRunner().invoke(cli, ["coarsen", "-k", str(case["k"]), "-c", str(case["chunksize"]), "-o", str(o)] + field_args(fields) + [str(a)])
            uris = {case["k"] * 10: str(o)}
        if r.exit_code != 0:
            raise RuntimeError(f"exit {r.exit_code}: {r.exception!r}")
        out = {}
        for res_, uri in uris.items():
            p = cooler.Cooler(uri).pixels()[:]
            keys = [[int(x), int(y)] for x, y in zip(p["bin1_id"], p["bin2_id"])]
            d_ = {}
            for c in p.columns:
                if c in ("bin1_id", "bin2_id"):
                    continue
                conv = float if p[c].dtype.kind == "f" else int
                d_[c] = (str(p[c].dtype), [k_ + [conv(v)] for k_, v in zip(keys, p[c].values)])
            out[res_] = d_
        return out
    st, res = G.guarded(go, 120)
    for p in (a, o):
        if p.exists():
            os.remove(p)
    return st, res


def field_expected(case, factor):
    """per requested column: the requested aggregate (sum when none is given) of the block, in the requested or
    the source dtype"""
    blocks = blocks_from_widths(F_WIDTHS)
    exp = {}
    for name, agg, dt in [tuple(f) for f in case["fields"]]:
        rows = [[p[0], p[1], v] for p, v in zip(case["pixels"], case["cols"][name])]
        e = G.oracle_pixels(blocks, rows, factor, agg or "sum")
        want_dt = dt or ("int32" if name == "count" else "int64")
        conv = float if want_dt.startswith("float") else int
        exp[name] = (want_dt, [[x, y, conv(v)] for x, y, v in e])
    return exp


def field_bad(case, st, res):
    if st != "ok":
        return {"what": "the command failed", "status": st, "type": res}
    for res_, got in sorted(res.items()):
        exp = field_expected(case, res_ // 10)
        if sorted(got) != sorted(exp):
            return {"what": "value columns of the output", "got": sorted(got), "expected": sorted(exp), "level": res_}
        for c in exp:
            if got[c] != exp[c]:
                return {"what": f"column {c}: not the requested aggregate / dtype", "level": res_, "got_dtype": got[c][0], "expected_dtype": exp[c][0],
                        "got": got[c][1][:10], "expected": exp[c][1][:10]}
    return None


def part_cli_fields(ctx):
    thorough = ctx.tier == "thorough"
    rng = ctx.rng
    tmpdir = ctx.tmp / "fields"
    tmpdir.mkdir(exist_ok=True)
    px, cols = field_source(rng)
    aggs = ["max", "min", "sum"]
    cases = []

    def add(order, pattern, cmd="coarsen"):
        fields = []
        for name, has in zip(order, pattern):
            dt = rng.choice([None, None, "float64"] + (["int64"] if name == "count" else []))
            fields.append([name, rng.choice(aggs) if has else None, dt])
        cases.append({"fn": f"cooler {cmd} --field arrangements", "cmd": cmd, "fields": fields, "pixels": px, "cols": cols,
                      "k": rng.choice([2, 3]), "chunksize": rng.choice([1, 7, 1000])})
    for n in (1, 2, 3):
        for order in itertools.permutations(F_COLS, n):
            pats = list(itertools.product([False, True], repeat=n))
            if not thorough:      # quick tier: every order; the mixed with/without-agg patterns first
                mixed = [p for p in pats if 0 < sum(p) < n]
                if n == 1:
                    pats = [rng.choice(pats)]
                elif n == 2:
                    pats = mixed + ([rng.choice([(False, False), (True, True)])] if rng.random() < 0.5 else [])
                else:
                    pats = rng.sample(mixed, 2)
            for pat in pats:
                add(order, pat)
    # the defect class in its simplest form, always present: plain count first, an aggregate on a later column
    cases.append({"fn": "cooler coarsen --field arrangements", "cmd": "coarsen", "fields": [["count", None, None], ["w", "max", None]],
                  "pixels": px, "cols": cols, "k": 2, "chunksize": 7})
    cases.append({"fn": "cooler zoomify --field arrangements", "cmd": "zoomify", "fields": [["count", None, None], ["w", "max", None], ["s", None, "float64"]],
                  "pixels": px, "cols": cols, "k": 2, "chunksize": 7})
    # the model per (column, aggregate, factor): coarsen_cooler_g (agg_of op), sum as the default
    blocks = blocks_from_widths(F_WIDTHS)
    t, sz = G.coq_bins(G.flat_of(blocks)), C.zl(G.sizes_of(blocks))
    need = sorted({(f[0], f[1] or "sum", fac) for c in cases for f in c["fields"] for fac in ((2, 4) if c["cmd"] == "zoomify" else (c["k"],))})
    exprs = [f"snd (coarsen_cooler_g {G.coq_agg(agg)} {t} {sz} {G.coq_pixels([[p[0], p[1], v] for p, v in zip(px, cols[name])])} {C.z(fac)} 7 1)"
             for name, agg, fac in need]
    model = dict(zip(need, [[list(p) for p in mo] for mo in C.coq_eval(HDR, exprs, tmpdir=ctx.tmp / "fieldsv")]))
    for i, case in enumerate(cases):
        nagg = sum(1 for f in case["fields"] if f[1])
        ctx.case(case, nontrivial=len(case["fields"]) > 1 and 0 < nagg < len(case["fields"]), kind=f"cli-fields:{len(case['fields'])}:{nagg}agg")
        st, res = field_run(tmpdir, f"f{i}", case)
        if st == "ok":
            for res_, got in res.items():
                for name, agg, dt in [tuple(f) for f in case["fields"]]:
                    if name in got:
                        ctx.compare(f"--field {name} (model with the requested aggregate)", case,
                                    [[x, y, int(v)] for x, y, v in got[name][1]], model[(name, agg or "sum", res_ // 10)])
        bad = field_bad(case, st, res)
        if bad:
            ctx.fail(case, bad, None)
    return len(cases)


# -------- part 12: sweep over coarse bin sizes B = base*k incl. those whose reciprocal rounds down in binary64
def part_binsize_sweep(ctx):
    thorough = ctx.tier == "thorough"
    tmpdir = ctx.tmp / "bsweep"
    tmpdir.mkdir(exist_ok=True)
    plan = G.binsize_sweep_plan(ctx.rng, thorough)
    n, nbad, sample = 0, 0, []
    for pi, (base, ks) in enumerate(plan):
        widths, pixels = G.binsize_sweep_cooler(base, ks)
        blocks = blocks_from_widths(widths)
        path = tmpdir / f"b{pi}.cool"
        G.make_cooler(path, blocks, pixels, True)
        for k in ks:
            case = {"fn": "CoolerCoarsener (coarse bin size sweep)", "widths": widths, "symmetric": True, "pixels": pixels, "k": k,
                    "chunksize": 10 ** 6, "nproc": 1, "base": base, "B": base * k}
            n += 1
            nbad += G.reciprocal_rounds_down(base * k)
            ctx.case(case, nontrivial=G.reciprocal_rounds_down(base * k), kind="binsize-sweep")
            st, got = G.guarded(lambda: width_stream(path, case), 30)
            exp = G.oracle_pixels(blocks, pixels, k)
            if st != "ok" or got != exp:
                ctx.fail(case, {"what": "re-binned pixels differ from index-based block aggregation", "coarse_binsize": base * k,
                                "status": st, "got": got[:12] if st == "ok" else got, "expected": exp[:12]}, None)
            if len(pixels) <= 60 and len(sample) < 4:
                sample.append((case, got if st == "ok" else st))
        os.remove(path)
    if sample:      # the model (exact integer division) on a sample
        model = C.coq_eval(HDR, [model_expr(c, 1) for c, _ in sample], tmpdir=ctx.tmp / "bsweepv")
        for (case, got), mo in zip(sample, model):
            ctx.compare("CoolerCoarsener stream (coarse bin size sweep)", case, got, [list(p) for p in mo[1]])
    ctx.extra["binsize_sweep_float_unfriendly"] = nbad
    if nbad < 10:
        ctx.broke(f"generator: only {nbad} coarse bin sizes with a down-rounding reciprocal in the sweep")
    return n


# -------- part 13: variable-width tables with GAPS between consecutive bins / a first bin not starting at 0
GAPPED_TABLES = [
    # chrA [0,7) [7,20) | gap | [25,31) [31,40): the gap sits on a k=2 group boundary, inside a k=3 group
    [[(0, 0, 7), (0, 7, 20), (0, 25, 31), (0, 31, 40)], [(1, 0, 5), (1, 9, 12), (1, 12, 30)]],
    # first bin not starting at 0, gaps inside groups, restriction-fragment-like with filtered fragments
    [[(0, 3, 10), (0, 14, 20), (0, 20, 26), (0, 33, 41), (0, 41, 50), (0, 58, 60), (0, 60, 77)], [(1, 5, 8)], [(2, 2, 4), (2, 10, 16), (2, 16, 17), (2, 40, 45), (2, 46, 90)]],
    # (a gapped table whose widths are all equal is left out: get_binsize reports a bin size for it and the division
    #  path then mis-bins -- not a tiling, outside the domain of C08/C20; reported to the lead)
    [[(0, 0, 10), (0, 10, 21), (0, 30, 40), (0, 40, 52), (0, 70, 80)], [(1, 10, 20), (1, 20, 33), (1, 50, 57)]],
]


def part_gapped(ctx):
    import cooler
    rng = ctx.rng
    tmpdir = ctx.tmp / "gapped"
    tmpdir.mkdir(exist_ok=True)
    cases = []
    for ti, blocks in enumerate(GAPPED_TABLES):
        n = sum(len(b) for b in blocks)
        for k in (2, 3):
            symm = (ti + k) % 2 == 0
            cases.append({"fn": "coarsen (gapped variable-width table)", "blocks": [[list(x) for x in blk] for blk in blocks], "k": k, "symmetric": symm,
                          "pixels": [list(p) for p in G.random_pixels(rng, n, symm, "dense")], "chunksize": rng.choice([1, 7]),
                          "nproc": 2 if (ti == 1 and k == 2) else 1})
    exprs = []
    for c in cases:
        flat = [tuple(x) for blk in c["blocks"] for x in blk]
        sz = [blk[-1][2] for blk in c["blocks"]]
        exprs.append(f"coarsen_cooler {G.coq_bins(flat)} {C.zl(sz)} {G.coq_pixels(c['pixels'])} {C.z(c['k'])} {C.z(c['chunksize'])} {C.z(c['nproc'])}")
    model = C.coq_eval(HDR, exprs, tmpdir=ctx.tmp / "gappedv")
    for i, (case, mo) in enumerate(zip(cases, model)):
        ctx.case(case, nontrivial=True, kind="gapped")
        st, res = gapped_run(tmpdir, f"g{i}", case)
        if st != "ok":
            ctx.compare("coarsen on a gapped table", case, st, "ok")
            ctx.fail(case, {"exception": st, "type": res}, None)
            continue
        fbins, out = res
        ctx.compare("coarsen_bins (gapped table)", case, fbins, [list(r) for r in mo[0]])
        ctx.compare("coarsen_cooler bins (gapped table)", case, out["bins"], [list(r) for r in mo[0]])
        ctx.compare("coarsen_cooler pixels (gapped table)", case, out["pixels"], [list(p) for p in mo[1]])
        bad = gapped_bad(case, fbins, out)
        if bad:
            ctx.fail(case, bad, None)
    return len(cases)


def gapped_run(tmpdir, tag, case):
    import cooler
    blocks = [[tuple(x) for x in blk] for blk in case["blocks"]]
    a, o = tmpdir / f"{tag}.cool", tmpdir / f"{tag}_o.cool"

    def go():
        fbins, _ = impl_coarsen_bins(blocks, case["k"])
        G.make_cooler(a, blocks, case["pixels"], case["symmetric"])
        cooler.coarsen_cooler(str(a), str(o), case["k"], chunksize=case["chunksize"], nproc=case["nproc"])
        return fbins, G.read_cooler(o)
    st, res = G.guarded(go, 60)
    for p in (a, o):
        if p.exists():
            os.remove(p)
    return st, res


def gapped_bad(case, fbins, out):
    """each new bin spans exactly its k consecutive old bins: (chrom, start of the first, end of the LAST old bin of
    the group); the pixel aggregation is index based as always"""
    blocks = [[tuple(x) for x in blk] for blk in case["blocks"]]
    ebins, epx = G.oracle_coarsen(blocks, case["pixels"], case["k"])
    if fbins != ebins:
        return {"what": "CoolerCoarsener.coarsen_bins on a gapped table", "got": fbins[:20], "expected": ebins[:20]}
    if out["bins"] != ebins:
        return {"what": "bin table of the coarsened cooler (gapped table)", "got": out["bins"][:20], "expected": ebins[:20]}
    if out["pixels"] != epx:
        return {"what": "pixel table (gapped table)", "got": out["pixels"][:30], "expected": epx[:30]}
    return G.semantics_bad(out, ebins, epx, case["symmetric"], sum(p[2] for p in case["pixels"]))


# ----------------------------------------------------------------------- run
def run(ctx):
    import time
    source_pattern(ctx)
    scopes, times = {}, {}
    for name, fn in (("coarsen_bins_cases", part_bins), ("prune_cases", part_prune), ("api_runs", part_api),
                     ("width_sweep_runs", part_widths), ("chains", part_chain), ("merge_interleavings", part_merge),
                     ("agg_runs", part_agg), ("param_scenarios", part_params), ("multires_levels", part_multires), ("history_steps", part_history), ("large_genome_runs", part_large), ("cli_field_arrangements", part_cli_fields), ("binsize_sweep_runs", part_binsize_sweep), ("gapped_table_runs", part_gapped)):
        t0 = time.time()
        scopes[name] = fn(ctx)
        times[name] = round(time.time() - t0, 1)
    ctx.extra["part_seconds"] = times
    ctx.exhaustive = True
    ctx.extra["scopes"] = scopes


def replay(ctx, case):
    fn = case["fn"]
    tmpdir = ctx.tmp
    if fn == "param-scenario":
        return run_scenario(tmpdir, case["label"], SCENARIOS) is None
    if fn.startswith("coarsen (gapped"):
        st, res = gapped_run(tmpdir, "replay", case)
        return st == "ok" and gapped_bad(case, res[0], res[1]) is None
    if fn.endswith("--field arrangements"):
        st, res = field_run(tmpdir, "replay", case)
        return field_bad(case, st, res) is None
    if fn == "history":
        for i, status, res, cur in history_run(tmpdir, case["steps"]):
            if status != "ok" or oracle_check(dict(case["steps"][i], pixels=cur), res):
                return False
        return True
    if fn == "history-ladder":
        return ladder_bad(case, history_ladder_run(tmpdir, case)) is None
    if fn.endswith("(every level)") or fn == "zoomify_cooler (large genome)":
        import c09
        st, res, srcs = c09.zoom_run(tmpdir, "replay", case)
        return c09.zoom_oracle(case, st, res, srcs) is None
    if fn == "coarsen_bins":
        blocks = blocks_from_widths(case["widths"])
        st, res = G.guarded(lambda: impl_coarsen_bins(blocks, case["k"]), 20)
        return st == "ok" and res[0] == G.oracle_bins(blocks, case["k"])
    if fn == "_greedy_prune_partition":
        from cooler._reduce import _greedy_prune_partition
        st, res = G.guarded(lambda: [int(x) for x in _greedy_prune_partition(np.array(case["edges"]), case["maxlen"])], 10)
        return st == "ok" and G.oracle_prune(case["edges"], case["maxlen"], res)
    if fn.startswith("CoolerCoarsener (bin width") or fn.startswith("CoolerCoarsener (coarse bin size"):
        blocks = blocks_from_widths(case["widths"])
        path = tmpdir / "replay_w.cool"
        G.make_cooler(path, blocks, case["pixels"], True)
        st, got = G.guarded(lambda: width_stream(path, case), 30)
        return st == "ok" and got == G.oracle_pixels(blocks, case["pixels"], case["k"])
    if fn in ("coarsen_cooler", "cooler coarsen (CLI)"):
        st, res, out = run_api_case(ctx, tmpdir, "replay", case, via="cli" if "CLI" in fn else "api")
        if st != "ok":
            return False
        if oracle_check(case, res):
            return False
        if case.get("nproc", 1) == 1:
            st2, r2 = G.guarded(lambda: impl_coarsener(tmpdir / "replay_in.cool", case, 1), 30)
            if st2 != "ok" or not chunks_ok(r2[1]):
                return False
        return True
    if fn == "chain":
        res = chain_run(tmpdir, "replay", case)
        return res[0] == "ok" and chain_oracle(case, res[1], res[2]) is None
    if fn == "merge/coarsen":
        res = merge_run(tmpdir, "replay", case)
        return res[0] == "ok" and merge_oracle(case, res[1], res[2]) is None
    if fn.startswith("coarsen_cooler(columns"):
        case.setdefault("columns", ["count", "w"])
        return not agg_run(tmpdir, "replay", case)
    raise ValueError("unknown case kind " + fn)
