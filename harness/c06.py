"""C06 — unordered ingestion equals aggregating all records in memory.

Correspondence: cooler.create_cooler(ordered=False, mergebuf=, max_merge=, temp_dir=) and the CLI commands
`cooler load` / `cooler cload pairs` (small --chunksize) against the Gallina model
coq/Model/Merge.v:create_from_unordered on the same chunk sequences.
Property oracle (never calls the code under test): a Counter over all records (per pixel, per column),
sorted; total = sum of all counts; and the temp directory must be empty again after a successful run.
"""
from __future__ import annotations

import itertools
import os
import shutil
import warnings
from collections import Counter

import numpy as np
import pandas as pd

import coqio as C
import gen_c07 as G
from common import canon

PROP = "C06"
RULE = ("create_cooler(ordered=False): regression corpus (D9: 2 or 3 chunks with max_merge=1; D16: chunk [(2,3),(2,4)] with mergebuf=1, all-empty chunks); "
        "every assignment of a 4-record multiset (one pixel repeated) over 3 bins to 2 chunks and (quick: seeded sample / thorough: all) to 3 chunks incl. empty chunks and "
        "chunks that repeat a pixel (dupcheck off) x mergebuf 1 x max_merge {1, 200}; seeded random: 1..12 chunks over 4 bin tables (<= 6 bins, fixed / variable / two "
        "chromosomes), both storage modes, columns count / count+x, mergebuf 1..N+1, max_merge 1..k+1, unsorted chunks with ensure_sorted, empty chunks; all chunk orders of "
        "3-chunk inputs; `cooler load -f coo` and `cooler cload pairs` with --chunksize 1..4, --max-merge, --mergebuf, --temp-dir; edges of the first merge pass observed "
        "with delete_temp=False; np.linspace edge lists for n <= 5000 checked admissible; merge_breakpoints at function level on every family of 1..2 monotone index "
        "arrays of length 2..3 (increments 0..2) x bufsize 1..nnz+1 plus random larger ones; the known finding D22 in a fresh interpreter; parameter/representation audit (one case each): chunks as dict of arrays / list / int32 ids / int32 and float64 values / with an unrequested column, columns=None, dtypes None / partial / float default, ids listed in columns, default mergebuf, max_merge 0 and -1, temp_dir None (location observed with delete_temp=False) and \"-\"the WHOLE bin table is compared: a share of the cases (every 4th random case + 15 dedicated: 1 / 3 / 5 / 10 chunks, one and two passes, 3 bin tables) passes a bins frame with extra columns (float with NaN, float, int64, string) whose names, dtypes and values must arrive unchanged; bin-id columns of dtype int32 / int64 / uint16 / uint32 / uint64 x ensure_sorted on (rows shuffled) / off x mergebuf 1 / 7 / 10^6 with max_merge 2 over 4 chunks repeating pixels, result also compared across mergebuf; every DataFrame chunk of every API case gets a row-label representation by rotation (default RangeIndex, permutation of 0..n-1, labels running across chunks, strided RangeIndex, duplicate labels, string labels), plus dedicated cases per kind x ensure_sorted on (rows shuffled) / off x unordered (mergebuf 1, one and two passes) / ordered / one single DataFrame; , check flags off, output URI with group, mode=a / --append next to an existing cooler, `cooler load` --one-based / duplex / --count-as-float / --field / bg2 / chromsizes:binsize bins, `cload pairs` --zero-based / BED bins / permuted field numbers / duplex / --field score; a HISTORY pass in one process (12 ingests): the same output path, temp dir, bin-table objects, chunk list, columns / dtypes objects, sanitizer / aggregator objects and agg dict across consecutive ingests whose records, bin table (incl. same chromsizes and nbins), columns and storage mode change, chunks as generator / list / tuple / iterator, caller objects asserted unchanged; the bin table of every output is part of the observable. non-trivial = a pixel occurs in >= 2 chunks, or >= 2 merge epochs, or two passes; distinct by input hash")
TRUSTED = ["pandas concat/groupby/sort_values, np.linspace, tempfile.NamedTemporaryFile and h5py are observed through create_cooler, modelled by Model/Merge.v",
           "for the CLI runs the harness itself turns text lines into per-chunk records (bin assignment, upper-triangle reflection, per-chunk aggregation for cload): "
           "that is the ingest pipeline of C05, not part of this property"]
ASSUMPTIONS = ["value columns are signed integers; sums stay far inside int64",
               "np.linspace(0, n, k, dtype=int) is strictly increasing from 0 to n (checked for n <= 5000 on every run); for n >= 230 float rounding can move one interior "
               "edge by one unit relative to the exact floor used in the model, which is immaterial because the result is the same for every admissible edge list (theorem)"]
RESIDUE = ["'no temporary file outlives a successful run' depends on CPython reference counting of NamedTemporaryFile; it is observed on every run (directory listing "
           "before/after), not proved: the model has no notion of object lifetime"]

COLS1 = [("count", 32)]
COLS2 = [("count", 32), ("x", 16)]
SIG_FIRST = "temp-files-survive-first-create-in-process"

_SUB = r"""
import json, os, sys, warnings
sys.path.insert(0, os.environ["C06_HARNESS"])
warnings.simplefilter("ignore")
import c06
case = json.loads(sys.argv[1])
print("RESULT " + json.dumps(c06.impl_api(sys.argv[2], case)))
"""


def impl_fresh_process(root, case):
    """run ONE api case as the very first cooler creation of a fresh interpreter"""
    import json
    import subprocess
    import sys
    env = dict(os.environ, C06_HARNESS=os.path.dirname(os.path.abspath(__file__)))
    sub = os.path.join(root, "fresh")
    os.makedirs(sub, exist_ok=True)
    try:
        pr = subprocess.run([sys.executable, "-W", "ignore", "-c", _SUB, json.dumps(case), sub],
                            capture_output=True, text=True, env=env, timeout=60)
    except subprocess.TimeoutExpired:
        return "timeout"
    for ln in pr.stdout.splitlines():
        if ln.startswith("RESULT "):
            return json.loads(ln[7:])
    return "crash"


# --------------------------------------------------------------------- implementation
def chunk_frame(ch, cols, case=None, chunk_no=0, offset=0):
    """one chunk as the caller hands it over: DataFrame (default) or dict of arrays; id / value dtypes and an
    unrequested extra column are representation choices of the case"""
    case = case or {}
    idt = np.dtype(case.get("id_dtype", "int64"))
    vdt = np.dtype(case.get("val_dtype", "int64"))
    d = {"bin1_id": np.array([p[0] for p in ch], dtype=idt),
         "bin2_id": np.array([p[1] for p in ch], dtype=idt)}
    for k, (nm, tok) in enumerate(cols):
        # a column declared float carries float64 values (they may be non-integral); the others the case's value dtype
        d[nm] = np.array([p[2][k] for p in ch], dtype=np.float64 if str(tok).startswith("f") else vdt)
    if case.get("extra_col"):
        d["junk"] = np.arange(len(ch), dtype=np.float64)
    if case.get("repr") == "dict":
        return d
    df = pd.DataFrame(d)
    return with_index(df, index_kind(case, chunk_no), chunk_no, offset)


INDEX_KINDS = ["range", "perm", "running", "strided", "dup", "str"]


def index_kind(case, chunk_no):
    """the row-label representation of a DataFrame chunk: given by the case, else chosen by rotation over the case's
    content (deterministic, so a replay builds the same frames)"""
    if case.get("index_repr"):
        return case["index_repr"]
    import zlib
    key = canon({k: v for k, v in case.items() if k != "index_repr"})
    return INDEX_KINDS[(zlib.crc32(key.encode()) + chunk_no) % len(INDEX_KINDS)]


def with_index(df, kind, chunk_no=0, offset=0):
    """same rows in the same order, other row labels: the result of an ingestion must not depend on them"""
    n = len(df)
    if kind == "perm":            # labels are a permutation of 0..n-1 (a shuffled frame that was not reset_index'ed)
        df.index = pd.Index([(7 * i + 3 + chunk_no) % n for i in range(n)] if n and np.gcd(7, n) == 1 else list(range(n))[::-1])
    elif kind == "running":       # labels continue across chunks (read_csv(chunksize=...), iloc slices of one long table)
        df.index = pd.RangeIndex(offset, offset + n)
    elif kind == "strided":
        df.index = pd.RangeIndex(5, 5 + 3 * n, 3)
    elif kind == "dup":           # duplicate labels
        df.index = pd.Index([i // 2 for i in range(n)])
    elif kind == "str":
        df.index = pd.Index([f"r{n - i}" for i in range(n)])
    return df


def impl_api(root, case, limit=20.0):
    import cooler
    td = os.path.join(root, "tmpdir")
    shutil.rmtree(td, ignore_errors=True)
    os.makedirs(td)
    out = os.path.join(root, "out.cool")
    if os.path.exists(out):
        os.remove(out)
    cols = [tuple(c) for c in case["cols"]]
    kw = {}
    for k in ("dupcheck", "triucheck", "ensure_sorted", "boundscheck"):
        if k in case:
            kw[k] = bool(case[k])
    keep = bool(case.get("keep_temp"))
    # ---- parameter values of the case (defaults = what every earlier case used)
    chunks, off_ = [], 0
    for no_, ch in enumerate(case["chunks"]):
        chunks.append(chunk_frame(ch, cols, case, no_, off_))
        off_ += len(ch)
    if case.get("single_frame"):        # ONE DataFrame instead of an iterable of chunks (create_cooler sorts it itself)
        chunks = chunks[0]
    pixels = chunks if (case.get("repr") == "list" or case.get("single_frame")) else iter(chunks)
    if not case.get("columns_none"):
        kw["columns"] = [c for c, _ in cols] + (["bin1_id"] if case.get("columns_with_ids") else [])
    da = case.get("dtypes_arg", "full")
    if da == "full":
        kw["dtypes"] = {c: G.np_dtype(b) for c, b in cols}
    elif da != "none":                      # a dict that names only the listed columns
        kw["dtypes"] = {c: G.np_dtype(b) for c, b in cols if c in da}
    if not case.get("mergebuf_default"):
        kw["mergebuf"] = case["mergebuf"]
    tdm = case.get("temp_dir", "given")
    if tdm == "none":                       # temp files next to the output file
        outdir = os.path.join(root, "outdir")
        shutil.rmtree(outdir, ignore_errors=True)
        os.makedirs(outdir)
        out = os.path.join(outdir, "out.cool")
        td_watch = outdir
    else:
        td_watch = td
        kw["temp_dir"] = td if tdm == "given" else "-"
    uri = out
    if case.get("mode_a"):
        G.write_cooler(out + "::/keep/me", "A3", True, COLS1, [[0, 1, [7]], [2, 2, [1]]])
        kept_before = G.read_raw(out + "::/keep/me")
        kw["mode"] = "a"
    if case.get("out_group"):
        uri = out + "::" + case["out_group"]
    before = G.listdir_sorted(td_watch)
    cwd0 = os.getcwd()
    if tdm != "given":
        # a stray temp file written to the working directory must land in scratch space
        trap = os.path.join(root, "cwd_trap")
        os.makedirs(trap, exist_ok=True)
        os.chdir(trap)
    try:
        with warnings.catch_warnings():
            warnings.simplefilter("ignore")
            with G.time_limit(limit):
                cooler.create_cooler(uri, G.bins_df_extra(case["ax"]) if case.get("bins_extra") else G.bins_df(case["ax"]), pixels,
                                     ordered=bool(case.get("ordered")), symmetric_upper=bool(case["symm"]),
                                     max_merge=case["max_merge"], delete_temp=not keep, **kw)
                raw = G.read_raw(uri, [c for c, _ in cols])
        obs = G.obs_of_raw(raw)
        if case.get("mode_a"):
            obs["kept"] = G.read_raw(out + "::/keep/me") == kept_before
        after = [f for f in G.listdir_sorted(td_watch) if f != "out.cool"]
        if keep:
            obs["edges"] = temp_edges(td_watch, after)
            obs["temp_left"] = len(after)
        else:
            obs["temp_left"] = [f for f in after if f not in before]
        return obs
    except BaseException as e:  # noqa: BLE001
        if isinstance(e, (KeyboardInterrupt, SystemExit)):
            raise
        return G.classify(e)
    finally:
        os.chdir(cwd0)
        shutil.rmtree(td, ignore_errors=True)


def temp_edges(td, files):
    """group names 'lo-hi' of the second temporary file = the edges of the first merge pass"""
    import h5py
    for fn in files:
        with h5py.File(os.path.join(td, fn), "r") as f:
            names = list(f.keys())
        if names and all("-" in nm for nm in names):
            pairs = sorted(tuple(int(x) for x in nm.split("-")) for nm in names)
            return [pairs[0][0]] + [hi for _, hi in pairs]
    return None


def impl_cli(root, case, limit=20.0):
    from click.testing import CliRunner
    from cooler.cli import cli
    td = os.path.join(root, "tmpdir")
    shutil.rmtree(td, ignore_errors=True)
    os.makedirs(td)
    out = os.path.join(root, "out.cool")
    if os.path.exists(out):
        os.remove(out)
    blocks, names = G.AXES[case["ax"]]
    cs = os.path.join(root, "chromsizes.tsv")
    with open(cs, "w") as f:
        for blk, nm in zip(blocks, names):
            f.write(f"{nm}\t{blk[-1][2]}\n")
    bed = os.path.join(root, "bins.bed")
    with open(bed, "w") as f:
        for blk, nm in zip(blocks, names):
            for (_, s, e) in blk:
                f.write(f"{nm}\t{s}\t{e}\n")
    txt = os.path.join(root, "input.txt")
    with open(txt, "w") as f:
        for ln in case["lines"]:
            f.write("\t".join(str(x) for x in ln) + "\n")
    common = ["--chunksize", str(case["chunksize"]), "--max-merge", str(case["max_merge"]), "--temp-dir", td]
    if not case.get("mergebuf_default"):            # default: mergebuf = chunksize
        common += ["--mergebuf", str(case["mergebuf"])]
    uri = out
    if case.get("mode_a"):
        G.write_cooler(out + "::/keep/me", "A3", True, COLS1, [[0, 1, [7]], [2, 2, [1]]])
        kept_before = G.read_raw(out + "::/keep/me")
        common.append("--append")
    if case.get("out_group"):
        uri = out + "::" + case["out_group"]
    if not case["symm"]:
        common.append("--no-symmetric-upper")
    if case.get("copy_status"):
        common += ["--input-copy-status", case["copy_status"]]
    if case["fn"] == "load":
        args = ["load", "-f", case.get("format", "coo")] + common
        if case.get("one_based"):
            args.append("--one-based")
        if case.get("count_as_float"):
            args.append("--count-as-float")
        if case.get("field_x"):
            args += ["--field", "count=3", "--field", "x=4:dtype=int32"]
        bins_arg = f"{cs}:{case['binsize']}" if case.get("bins_from_chromsizes") else bed
        args += [bins_arg, txt, uri]
    else:
        f = case.get("fields", [1, 2, 3, 4])
        args = ["cload", "pairs", "-c1", str(f[0]), "-p1", str(f[1]), "-c2", str(f[2]), "-p2", str(f[3])] + common
        if case.get("zero_based"):
            args.append("--zero-based")
        if case.get("field_score"):
            args += ["--field", "score=5:dtype=int32"]
        args += [bed if case.get("bins_from_bed") else f"{cs}:{case['binsize']}", txt, uri]
    try:
        with warnings.catch_warnings():
            warnings.simplefilter("ignore")
            with G.time_limit(limit):
                res = CliRunner().invoke(cli, args)
                if res.exit_code != 0:
                    if res.exception is not None and not isinstance(res.exception, SystemExit):
                        raise res.exception
                    raise RuntimeError(f"cli exit {res.exit_code}: {res.output[-300:]}")
                raw = G.read_raw(uri, [c for c, _ in effective(case)[1]])
        obs = G.obs_of_raw(raw)
        if case.get("mode_a"):
            obs["kept"] = G.read_raw(out + "::/keep/me") == kept_before
        obs["temp_left"] = G.listdir_sorted(td)
        return obs
    except BaseException as e:  # noqa: BLE001
        if isinstance(e, (KeyboardInterrupt, SystemExit)):
            raise
        return G.classify(e)
    finally:
        shutil.rmtree(td, ignore_errors=True)


# --------------------------------------------------------------------- what the CLI pipelines hand over
def cli_chunks(case):
    """the per-chunk record lists the ingest pipeline (C05) yields for the text input"""
    lines, cs = case["lines"], case["chunksize"]
    out = []
    blocks, names = G.AXES[case["ax"]]
    offs, o, start2bin = {}, 0, {}
    for blk, nm in zip(blocks, names):
        offs[nm] = o
        for k, (_, s_, _e) in enumerate(blk):
            start2bin[(nm, s_)] = o + k
        o += len(blk)
    drop_lower = case.get("copy_status") == "duplex"
    if case["fn"] == "load":
        shift = 1 if case.get("one_based") else 0
        for i in range(0, len(lines), cs):
            ch = []
            for ln in lines[i:i + cs]:
                if case.get("format") == "bg2":
                    a, b, vals = start2bin[(ln[0], ln[1])], start2bin[(ln[3], ln[4])], list(ln[6:])
                else:
                    a, b, vals = ln[0] - shift, ln[1] - shift, list(ln[2:])
                if case["symm"] and a > b:
                    if drop_lower:
                        continue
                    a, b = b, a
                ch.append([a, b, vals])
            out.append(sorted(ch))
        return out
    bs = case["binsize"]
    f = case.get("fields", [1, 2, 3, 4])
    shift = 0 if case.get("zero_based") else 1
    for i in range(0, len(lines), cs):
        cnt, score = Counter(), Counter()
        for ln in lines[i:i + cs]:
            c1, p1, c2, p2 = ln[f[0] - 1], ln[f[1] - 1], ln[f[2] - 1], ln[f[3] - 1]
            a = offs[c1] + (p1 - shift) // bs
            b = offs[c2] + (p2 - shift) // bs
            if case["symm"] and a > b:
                if drop_lower:
                    continue
                a, b = b, a
            cnt[(a, b)] += 1
            if case.get("field_score"):
                score[(a, b)] += ln[4]
        if case.get("field_score"):
            out.append([[a, b, [score[(a, b)], v]] for (a, b), v in sorted(cnt.items())])
        else:
            out.append([[a, b, [v]] for (a, b), v in sorted(cnt.items())])
    return out


def cli_cols(case):
    if case["fn"] == "load":
        if case.get("count_as_float"):
            return [("count", "f64")]
        if case.get("field_x"):
            return [("count", 32), ("x", 32)]
        return COLS1
    return [("score", 32), ("count", 32)] if case.get("field_score") else COLS1


def effective(case):
    """(chunks, cols, flags) as create_from_unordered receives them"""
    if case["fn"] == "api":
        return (case["chunks"], [tuple(c) for c in case["cols"]],
                dict(bounds=case.get("boundscheck", True), triu=case.get("triucheck", True),
                     dup=case.get("dupcheck", True), sort=case.get("ensure_sorted", False)))
    return cli_chunks(case), cli_cols(case), dict(bounds=True, triu=bool(case["symm"]), dup=True, sort=False)


def model_expr(case):
    chunks, cols, fl = effective(case)
    ax = case["ax"]
    colsl = C.lst([C.tup(C.z(G.COL_TOK[c]), C.z(b)) for c, b in cols])
    chl = C.lst([G.coq_px(ch) for ch in chunks])
    e = (f"create_from_unordered {G.coq_names(ax)} {G.coq_bins(ax)} {C.b(case['symm'])} {colsl} "
         f"{C.b(fl['bounds'])} {C.b(fl['triu'])} {C.b(fl['dup'])} {C.b(fl['sort'])} {chl} {C.z(case['mergebuf'])} {C.z(case['max_merge'])}")
    return f"(observe ({e}), unordered_edges {C.nat(len(chunks))} {C.z(case['max_merge'])})"


def parse_model(v, case):
    obs, edges = v
    m = G.parse_obs(obs)
    if isinstance(m, dict):
        m["bins"] = G.expected_bins(case["ax"])
        m["bins_extra"] = G.expected_bins_extra(case["ax"]) if case.get("bins_extra") else {}
        if case.get("mode_a"):
            m["kept"] = True
        if case.get("keep_temp"):
            m["edges"] = None if edges is None else list(edges[1])
            m["temp_left"] = 2 if edges is not None else 1
        else:
            m["temp_left"] = []
    return m


# --------------------------------------------------------------------- oracle
def oracle(case):
    """Counter over all records; None when the input is outside the property's domain
    (malformed stream: compared with the model only)"""
    chunks, cols, fl = effective(case)
    n = G.nbins(case["ax"])
    if not chunks:
        return None
    tot = {}
    for ch in chunks:
        keys = [(p[0], p[1]) for p in ch]
        if not fl["sort"] and keys != sorted(keys):
            return None                      # neither sorted nor sorting requested
        if fl["dup"] and len(set(keys)) != len(keys):
            return None                      # duplicate inside a chunk with dupcheck on: refusal is legitimate
        for p in ch:
            if not (0 <= p[0] < n and 0 <= p[1] < n) or (case["symm"] and p[0] > p[1]):
                return None
            row = tot.setdefault((p[0], p[1]), [0] * len(cols))
            for i, v in enumerate(p[2]):
                row[i] += v
    for row in tot.values():
        for (c, b), v in zip(cols, row):
            if isinstance(b, int) and not (-2 ** (b - 1) <= v <= 2 ** (b - 1) - 1):
                return None                  # out of the column dtype: C07's claim, not generated here
    keys = sorted(tot)
    isf = [str(b).startswith("f") for _, b in cols]
    px = [[i, j, [float(v) if f else v for v, f in zip(tot[(i, j)], isf)]] for (i, j) in keys]
    names = [c for c, _ in cols]
    exp = {"symm": bool(case["symm"]), "cols": [[c, b] for c, b in cols],
           "off": [sum(1 for (i, _) in keys if i < b) for b in range(n + 1)], "px": px, "nnz": len(px),
           "sum": sum(r[2][names.index("count")] for r in px) if "count" in names else 0}
    exp["bins"] = G.expected_bins(case["ax"])
    # the whole bin table: every extra per-bin column the caller supplied, with its dtype and values (NaN included)
    exp["bins_extra"] = G.expected_bins_extra(case["ax"]) if case.get("bins_extra") else {}
    if case.get("mode_a"):
        exp["kept"] = True                   # the cooler that was already in the file is untouched
    return exp


def check_oracle(ctx, case, got, exp):
    if exp is None:
        return
    if not isinstance(got, dict):
        ctx.fail(case, {"expected": exp, "got": got}, None)
        return
    core = {k: got[k] for k in ("symm", "cols", "off", "px", "nnz", "sum", "kept", "bins", "bins_extra") if k in got}
    if core != exp:
        ctx.fail(case, {"expected": exp, "got": core}, None)
        return
    if not case.get("keep_temp") and got["temp_left"] != []:
        ctx.fail(case, {"temporary files left behind": got["temp_left"]},
                 SIG_FIRST if case.get("first_create_in_process") else None)
    if case.get("keep_temp") and got.get("edges") is not None:
        e = got["edges"]
        k = len(effective(case)[0])
        if e[0] != 0 or e[-1] != k or any(b <= a for a, b in zip(e, e[1:])):
            ctx.fail(case, {"first-pass edges not an increasing partition of the chunks": e}, None)


# --------------------------------------------------------------------- generators
def api_case(ax, symm, cols, chunks, mergebuf, max_merge, **kw):
    c = {"fn": "api", "ax": ax, "symm": bool(symm), "cols": [list(x) for x in cols],
         "chunks": [[[p[0], p[1], list(p[2])] for p in ch] for ch in chunks],
         "mergebuf": int(mergebuf), "max_merge": int(max_merge)}
    c.update(kw)
    return c


def corpus_cases():
    cs = []
    a = [(0, 1, [3]), (1, 2, [5])]
    b = [(0, 1, [1]), (2, 2, [7])]
    c = [(1, 2, [2]), (2, 3, [1])]
    # D9: 2 or 3 chunks with max_merge below that
    for chunks in ([a, b], [a, b, c]):
        for mm in (1, 2):
            for buf in (1, 10):
                cs.append(("corpus:D9", api_case("A4", True, COLS1, chunks, buf, mm)))
    # D16: leading empty rows in the only chunk, mergebuf = 1; all-empty chunks
    d16 = [(2, 3, [1]), (2, 4, [1])]
    cs.append(("corpus:D16", api_case("B5", True, COLS1, [d16], 1, 200)))
    cs.append(("corpus:D16", api_case("B5", True, COLS1, [d16, d16], 1, 1)))
    cs.append(("corpus:D16", api_case("A4", True, COLS1, [[]], 1, 200)))
    cs.append(("corpus:D16", api_case("A4", True, COLS1, [[], [], []], 1, 2)))
    cs.append(("corpus:D16", api_case("A4", True, COLS1, [[], [(3, 3, [2])], []], 1, 1)))
    return cs


def assignment_cases(rng, thorough):
    recs = [(0, 1, [1]), (0, 1, [2]), (1, 2, [4]), (2, 2, [8])]
    cs = []
    for nch in (2, 3):
        assigns = list(itertools.product(range(nch), repeat=len(recs)))
        if nch == 3 and not thorough:
            assigns = rng.sample(assigns, 24)
        for asg in assigns:
            chunks = [sorted(r for r, a in zip(recs, asg) if a == j) for j in range(nch)]
            dup_inside = any(len({(p[0], p[1]) for p in ch}) != len(ch) for ch in chunks)
            for mm in ((1, 200) if thorough or nch == 2 else (rng.choice([1, 2]),)):
                kw = {"dupcheck": False} if dup_inside else {}
                cs.append(("assign", api_case("A3", True, COLS1, chunks, 1, mm, **kw)))
    return cs


def random_chunks(rng, n, symm, ncols, nchunks, unsorted=False, dups=False):
    keys = G.all_keys(n, symm)
    chunks = []
    for _ in range(nchunks):
        if rng.random() < 0.15:
            chunks.append([])
            continue
        m = rng.randint(1, min(len(keys), 5))
        ks = [rng.choice(keys) for _ in range(m)] if dups else rng.sample(keys, m)
        ch = [[k[0], k[1], [rng.randint(1, 9) for _ in range(ncols)]] for k in ks]
        if unsorted:
            rng.shuffle(ch)
        else:
            ch.sort(key=lambda p: (p[0], p[1]))
        chunks.append(ch)
    return chunks


def random_cases(rng, ncases):
    cs = []
    for q in range(ncases):
        ax = rng.choice(["A4", "B5", "V4", "A6", "A3"])
        n = G.nbins(ax)
        symm = rng.random() < 0.6
        cols = COLS2 if rng.random() < 0.3 else COLS1
        k = rng.choice([1, 2, 2, 3, 3, 4, 4, 5, 6, 7, 9, 12])
        mode = rng.choice(["sorted", "sorted", "sorted", "ensure_sorted", "dups"])
        kw = {}
        if mode == "ensure_sorted":
            kw["ensure_sorted"] = True
        if mode == "dups":
            kw["dupcheck"] = False
        chunks = random_chunks(rng, n, symm, len(cols), k, unsorted=(mode == "ensure_sorted"), dups=(mode == "dups"))
        N = sum(len(ch) for ch in chunks)
        buf = rng.choice([1, 1, 2, rng.randint(1, N + 1), N + 1])
        mm = rng.choice([1, 2, rng.randint(1, k + 1), k, k + 1])
        cs.append(("random:" + mode, api_case(ax, symm, cols, chunks, buf, mm, **kw)))
    return cs


def order_cases(rng, ncases):
    cs = []
    for _ in range(ncases):
        ax = rng.choice(["A4", "B5", "V4"])
        symm = rng.random() < 0.5
        chunks = random_chunks(rng, G.nbins(ax), symm, 1, 3)
        N = sum(len(ch) for ch in chunks)
        buf, mm = rng.randint(1, N + 1), rng.choice([1, 2, 3])
        for perm in itertools.permutations(range(3)):
            cs.append(("orders", api_case(ax, symm, COLS1, [chunks[i] for i in perm], buf, mm)))
    return cs


def edges_cases(rng, thorough):
    """delete_temp=False: the second temp file shows the edges actually used"""
    cs = []
    for k in ((2, 3, 4, 5, 7, 9, 10, 16, 17) if thorough else (2, 3, 5, 9)):
        chunks = random_chunks(rng, 4, True, 1, k)
        cs.append(("edges", api_case("A4", True, COLS1, chunks, 3, rng.choice([1, 2]), keep_temp=True)))
    cs.append(("edges", api_case("A4", True, COLS1, random_chunks(rng, 4, True, 1, 3), 3, 3, keep_temp=True)))   # single pass
    return cs


def malformed_cases(rng):
    cs = []
    cs.append(("malformed", api_case("A4", True, COLS1, [], 1, 200)))                                         # no chunk at all
    cs.append(("malformed", api_case("A4", True, COLS1, [[(0, 1, [1]), (0, 1, [2])]], 1, 200)))                # duplicate inside a chunk, dupcheck on
    cs.append(("malformed", api_case("A4", True, COLS1, [[(0, 1, [1])], [(2, 1, [2])]], 1, 200)))              # lower triangle
    cs.append(("malformed", api_case("A4", True, COLS1, [[(0, 1, [1])], [(2, 4, [2])]], 1, 1)))                # out of bounds
    cs.append(("malformed", api_case("A4", True, COLS1, [[(0, 1, [2 ** 31 - 1])], [(0, 1, [1])]], 1, 200)))    # aggregate leaves int32
    cs.append(("malformed", api_case("A4", True, COLS1, [[(0, 1, [2 ** 31])]], 1, 200)))                       # chunk value leaves int32
    return cs


def cli_cases(rng, n_each):
    cs = []
    for _ in range(n_each):
        ax = rng.choice(["A4", "B5", "V4", "A6"])
        n = G.nbins(ax)
        symm = rng.random() < 0.6
        chunksize = rng.randint(1, 4)
        keys = G.all_keys(n, False)
        lines, cur = [], set()
        for _ in range(rng.randint(1, 12)):
            if len(lines) % chunksize == 0:
                cur = set()
            a, b = rng.choice(keys)
            canon_key = (min(a, b), max(a, b)) if symm else (a, b)
            if canon_key in cur:
                continue
            cur.add(canon_key)
            lines.append([a, b, rng.randint(1, 9)])
        # a skipped duplicate may have shifted chunk boundaries: rebuild and keep only if no chunk repeats a key
        ok = True
        for i in range(0, len(lines), chunksize):
            ks = [((min(a, b), max(a, b)) if symm else (a, b)) for a, b, _ in lines[i:i + chunksize]]
            ok = ok and len(set(ks)) == len(ks)
        if not ok or not lines:
            continue
        k = -(-len(lines) // chunksize)
        cs.append(("cli:load", {"fn": "load", "ax": ax, "symm": symm, "lines": lines, "chunksize": chunksize,
                                "mergebuf": rng.choice([1, 2, len(lines) + 1]), "max_merge": rng.choice([1, 2, k, 200])}))
    for _ in range(n_each):
        ax, bs = rng.choice([("A4", 10), ("B5", 10), ("A6", 5)])
        blocks, names = G.AXES[ax]
        lens = {nm: blk[-1][2] for blk, nm in zip(blocks, names)}
        lines = []
        for _ in range(rng.randint(1, 14)):
            c1, c2 = rng.choice(names), rng.choice(names)
            lines.append([c1, rng.randint(1, lens[c1]), c2, rng.randint(1, lens[c2])])
        chunksize = rng.randint(1, 4)
        k = -(-len(lines) // chunksize)
        cs.append(("cli:cload", {"fn": "cload", "ax": ax, "symm": True, "binsize": bs, "lines": lines, "chunksize": chunksize,
                                 "mergebuf": rng.choice([1, 2, len(lines) + 1]), "max_merge": rng.choice([1, 2, k, 200])}))
    return cs


def modelled(case):
    # the model is create_from_unordered over signed integer columns; ordered creation is judged by the oracle only
    return all(G.is_signed_int(b) for _, b in effective(case)[1]) and not case.get("ordered") and not case.get("single_frame")


def audit_cases(rng):
    """one cheap case per public parameter value / input representation / dtype that the families above do not reach
    (audit of create_cooler(ordered=False), `cooler load`, `cooler cload pairs`); oracle = Counter, model where it applies"""
    cs = []
    ch1 = [(0, 1, [3]), (1, 2, [5])]
    ch2 = [(0, 1, [1]), (2, 2, [7])]
    ch3 = [(1, 2, [2]), (2, 3, [1])]
    three = [ch1, ch2, ch3]
    x1 = [(0, 1, [3, 4]), (1, 2, [5, -1])]
    x2 = [(0, 1, [1, 6]), (2, 2, [7, 0])]
    # chunk representation: dict of arrays, list instead of iterator, int32 ids, int32 / float64 values, unrequested column
    cs.append(("audit:repr", api_case("A4", True, COLS1, three, 1, 2, repr="dict")))
    cs.append(("audit:repr", api_case("A4", True, COLS2, [x1, x2], 2, 1, repr="dict", id_dtype="int32")))
    cs.append(("audit:repr", api_case("A4", True, COLS1, three, 2, 200, repr="list")))
    cs.append(("audit:repr", api_case("A4", True, COLS1, three, 1, 1, id_dtype="int32", val_dtype="int32")))
    cs.append(("audit:repr", api_case("A4", True, COLS1, three, 1, 2, val_dtype="float64")))          # float input, int32 output column
    cs.append(("audit:repr", api_case("A4", True, COLS1, three, 3, 2, extra_col=True)))
    cs.append(("audit:repr", api_case("A4", True, COLS2, [x1, x2], 3, 2, extra_col=True, repr="dict")))
    # columns / dtypes: None, partial dict, float default of an undeclared extra column, ids listed among the columns
    cs.append(("audit:columns", api_case("A4", True, COLS1, three, 1, 2, columns_none=True, dtypes_arg="none")))
    cs.append(("audit:columns", api_case("A4", True, COLS1, three, 1, 2, dtypes_arg="none")))
    cs.append(("audit:columns", api_case("A4", True, COLS2, [x1, x2], 1, 1, dtypes_arg=["x"])))       # count falls back to int32
    cs.append(("audit:columns", api_case("A4", True, [("count", 32), ("x", "f64")], [x1, x2], 1, 1, dtypes_arg=["count"])))   # x falls back to float
    cs.append(("audit:columns", api_case("A4", True, [("count", 64), ("x", 8)], [x1, x2], 2, 1)))
    cs.append(("audit:columns", api_case("A4", True, [("count", "f64")], three, 2, 2)))
    cs.append(("audit:columns", api_case("A4", True, COLS2, [x1, x2], 2, 200, columns_with_ids=True)))
    # mergebuf default, max_merge 0 / negative (single pass), temp_dir None (next to the output) and "-" (system dir)
    cs.append(("audit:params", api_case("A4", True, COLS1, three, 20000000, 2, mergebuf_default=True)))
    cs.append(("audit:params", api_case("A4", True, COLS1, three, 1, 0)))
    cs.append(("audit:params", api_case("A4", True, COLS1, three, 1, -1)))
    cs.append(("audit:params", api_case("A4", True, COLS1, three, 1, 1, temp_dir="none")))
    cs.append(("audit:params", api_case("A4", True, COLS1, three, 1, 200, temp_dir="none")))
    cs.append(("audit:params", api_case("A4", True, COLS1, three, 1, 2, temp_dir="dash")))
    # temp_dir=None puts the temporary files next to the output: with delete_temp=False they must be found there
    cs.append(("audit:params", api_case("A4", True, COLS1, three, 1, 1, temp_dir="none", keep_temp=True)))
    cs.append(("audit:params", api_case("A4", True, COLS1, three, 1, 200, temp_dir="none", keep_temp=True)))
    cs.append(("audit:params", api_case("A4", False, COLS1, [[(3, 0, [1])], [(0, 3, [2]), (3, 0, [4])]], 1, 1, triucheck=False)))
    cs.append(("audit:params", api_case("A4", True, COLS1, three, 1, 2, boundscheck=False)))
    cs.append(("audit:params", api_case("A4", True, COLS1, three, 1, 2, triucheck=False, dupcheck=False)))
    # output URI with a group; mode="a" into a file that already holds another cooler
    cs.append(("audit:uri", api_case("V4", True, COLS1, three, 1, 2, out_group="/resolutions/7")))
    cs.append(("audit:uri", api_case("V4", True, COLS1, three, 1, 1, out_group="/new", mode_a=True)))
    cs.append(("audit:uri", api_case("V4", True, COLS1, three, 1, 200, mode_a=True, out_group="/a/b")))

    # ---- cooler load
    def load(lines, chunksize, **kw):
        c = {"fn": "load", "ax": kw.pop("ax", "B5"), "symm": kw.pop("symm", True), "lines": lines, "chunksize": chunksize,
             "mergebuf": kw.pop("mergebuf", 1), "max_merge": kw.pop("max_merge", 2)}
        c.update(kw)
        return c
    coo = [[0, 1, 3], [3, 4, 1], [1, 0, 2], [2, 2, 5], [4, 3, 2], [0, 1, 1], [1, 1, 4]]
    cs.append(("audit:load", load(coo, 2, mergebuf_default=True)))
    cs.append(("audit:load", load([[a + 1, b + 1, v] for a, b, v in coo], 2, one_based=True)))
    cs.append(("audit:load", load(coo, 3, copy_status="duplex")))
    cs.append(("audit:load", load(coo, 2, count_as_float=True)))
    cs.append(("audit:load", load([[a, b, v, 10 * v - 7] for a, b, v in coo], 2, field_x=True)))
    cs.append(("audit:load", load(coo, 2, bins_from_chromsizes=True, binsize=10)))
    cs.append(("audit:load", load(coo, 2, out_group="/x/y", mode_a=True)))
    blocks, names = G.AXES["B5"]
    flat = [(nm, s_, e_) for blk, nm in zip(blocks, names) for (_, s_, e_) in blk]
    bg2 = [[flat[a][0], flat[a][1], flat[a][2], flat[b][0], flat[b][1], flat[b][2], v] for a, b, v in coo]
    cs.append(("audit:load", load(bg2, 2, format="bg2")))
    cs.append(("audit:load", load(bg2, 3, format="bg2", symm=False, max_merge=1)))

    # ---- cooler cload pairs
    def cload(lines, chunksize, **kw):
        c = {"fn": "cload", "ax": kw.pop("ax", "B5"), "symm": kw.pop("symm", True), "binsize": 10, "lines": lines,
             "chunksize": chunksize, "mergebuf": kw.pop("mergebuf", 1), "max_merge": kw.pop("max_merge", 2)}
        c.update(kw)
        return c
    prs = [["chrB", 3, "chrB", 14], ["chrA", 12, "chrB", 25], ["chrB", 14, "chrB", 3], ["chrA", 1, "chrA", 20],
           ["chrB", 21, "chrA", 11], ["chrB", 10, "chrB", 11], ["chrB", 4, "chrB", 12]]
    cs.append(("audit:cload", cload(prs, 2, mergebuf_default=True)))
    cs.append(("audit:cload", cload([[c1, p1 - 1, c2, p2 - 1] for c1, p1, c2, p2 in prs], 2, zero_based=True)))
    cs.append(("audit:cload", cload(prs, 3, bins_from_bed=True)))
    cs.append(("audit:cload", cload([[c2, p2, c1, p1] for c1, p1, c2, p2 in prs], 2, fields=[3, 4, 1, 2])))
    cs.append(("audit:cload", cload(prs, 2, copy_status="duplex")))
    cs.append(("audit:cload", cload([ln + [k + 1] for k, ln in enumerate(prs)], 2, field_score=True)))
    cs.append(("audit:cload", cload(prs, 2, out_group="/p", mode_a=True, max_merge=1)))
    return cs


# --------------------------------------------------------------------- value dtype x merge schedule
DTYPE_FAMILIES = {
    "int32": [("count", 32)],
    "int64": [("count", 64)],
    "float64": [("count", "f64")],
    "float32": [("count", "f32")],
    "int+float": [("count", 32), ("x", "f64")],
    "float+int": [("count", "f64"), ("x", 16)],
}


def dtype_grid_cases(rng, thorough):
    """the independence grid (chunking x chunk order x mergebuf x one pass / two passes) for EVERY value dtype family;
    float columns carry non-integral multiples of 0.25 (exact in float32/float64, so the in-memory aggregate is exact
    whatever the schedule) -- a schedule that rounds or truncates partial sums shows up as a wrong pixel"""
    cs = []
    for fam, cols in DTYPE_FAMILIES.items():
        ax = rng.choice(["A4", "B5", "V4"])
        n = G.nbins(ax)
        keys = rng.sample(G.all_keys(n, True), 5)

        def val(tok, big=False):
            if str(tok).startswith("f"):
                return rng.randint(1, 39) / 4.0 + (0.25 if rng.random() < 0.5 else 0.5)     # never integral
            return rng.randint(1, 9) * (10 ** 9 if (big and tok == 64) else 1)
        # 18 records over 5 pixels: every pixel is repeated, so every schedule has partial sums to combine
        recs = [[k[0], k[1], [val(t, big=True) for _, t in cols]] for k in keys for _ in range(rng.randint(2, 5))]
        rng.shuffle(recs)
        N = len(recs)

        def split(k):
            chunks = [[] for _ in range(k)]
            for i, r in enumerate(recs):
                chunks[i % k].append(r)
            # a pixel may occur once per chunk only (dupcheck): aggregate inside the chunk exactly
            out = []
            for ch in chunks:
                acc = {}
                for a, b, v in ch:
                    row = acc.setdefault((a, b), [0] * len(v))
                    for i, x in enumerate(v):
                        row[i] += x
                out.append([[a, b, v] for (a, b), v in sorted(acc.items())])
            return out
        grid = [(1, 1, 200, 0)]
        for order in (0, 1):
            grid += [(3, 1, 1, order), (3, 1, 2, order), (3, N + 1, 200, order), (3, 1, 200, order)]
        grid += [(9, 1, 1, 0), (9, 1, 2, 0), (9, 1, 4, 0), (9, N + 1, 3, 1), (9, 1, 200, 1)]
        if thorough:
            grid += [(5, 1, 2, 0), (5, 2, 4, 1), (12, 1, 3, 0), (12, 3, 2, 1), (16, 1, 4, 0)]
        for k, buf, mm, order in grid:
            chunks = split(k)
            if order:
                chunks = chunks[::-1]
            cs.append(("dtype-grid:" + fam, api_case(ax, True, cols, chunks, buf, mm)))
    # CLI: cooler load --count-as-float with non-integral counts, few lines per chunk, small --max-merge
    coo = [[0, 1, 1.25], [3, 4, 0.75], [1, 0, 2.5], [2, 2, 5.75], [4, 3, 2.25], [0, 1, 1.75], [1, 1, 4.5], [0, 1, 0.25],
           [2, 2, 0.75], [3, 4, 3.25], [1, 1, 1.25]]
    for chunksize, mm in ((1, 1), (1, 2), (2, 2), (4, 1), (3, 200)):
        cs.append(("dtype-grid:cli", {"fn": "load", "ax": "B5", "symm": True, "lines": coo, "chunksize": chunksize,
                                      "mergebuf": 1, "max_merge": mm, "count_as_float": True}))
    return cs


# --------------------------------------------------------------------- input representation: row labels of DataFrame chunks
def index_cases(rng):
    """every row-label representation of a DataFrame chunk, for unordered and ordered creation, with ensure_sorted on
    (rows of each chunk shuffled) and off (rows sorted), small mergebuf so that the merge has several epochs"""
    cs = []
    n = G.nbins("A6")
    keys = G.all_keys(n, True)
    for kind in INDEX_KINDS:
        for es in (True, False):
            # unordered: 3 chunks that repeat pixels across chunks
            chunks = []
            for _ in range(3):
                ks = rng.sample(keys, 6)
                ch = [[k[0], k[1], [rng.randint(1, 9)]] for k in ks]
                if es:
                    while [tuple(p[:2]) for p in ch] == sorted(tuple(p[:2]) for p in ch):
                        rng.shuffle(ch)
                else:
                    ch.sort(key=lambda p: (p[0], p[1]))
                chunks.append(ch)
            for mm in (1, 200):
                cs.append(("index:" + kind, api_case("A6", True, COLS1, chunks, 1, mm, ensure_sorted=es, index_repr=kind)))
            # ordered: the sorted table cut into 3 row-range chunks, rows shuffled inside a chunk when ensure_sorted
            ks = sorted(rng.sample(keys, 12))
            parts = [ks[0:4], ks[4:8], ks[8:12]]
            ochunks = []
            for part in parts:
                ch = [[k[0], k[1], [rng.randint(1, 9)]] for k in part]
                if es:
                    ch = ch[::-1]
                ochunks.append(ch)
            cs.append(("index:" + kind, api_case("A6", True, COLS1, ochunks, 1, 200, ensure_sorted=es, index_repr=kind, ordered=True)))
        # one shuffled DataFrame (not an iterable): create_cooler sorts it itself
        ks = rng.sample(keys, 9)
        cs.append(("index:" + kind, api_case("A6", True, COLS1, [[[k[0], k[1], [rng.randint(1, 9)]] for k in ks]], 1, 200,
                                             index_repr=kind, single_frame=True, ensure_sorted=True)))
    return cs


# --------------------------------------------------------------------- bin-id dtype x ensure_sorted x number of merge epochs
ID_DTYPES = ["int32", "int64", "uint16", "uint32", "uint64"]


def id_dtype_cases(rng):
    """chunk bin-id columns of every integer dtype (signed and UNSIGNED), ensure_sorted on (rows really shuffled) and off
    (rows sorted), 4 chunks of 8 records that repeat pixels across chunks, mergebuf 1 / 7 / large (many, a few, one merge
    epoch), max_merge 2 (two passes); the result must be the in-memory aggregate and must not depend on mergebuf"""
    cs = []
    keys = G.all_keys(G.nbins("A6"), True)
    for idt in ID_DTYPES:
        for es in (True, False):
            chunks = []
            for _ in range(4):
                ch = [[k[0], k[1], [rng.randint(1, 9)]] for k in rng.sample(keys, 8)]
                if es:
                    while [tuple(p[:2]) for p in ch] == sorted(tuple(p[:2]) for p in ch):
                        rng.shuffle(ch)
                else:
                    ch.sort(key=lambda p: (p[0], p[1]))
                chunks.append(ch)
            for buf in (1, 7, 10 ** 6):
                cs.append(("id-dtype:" + idt, api_case("A6", True, COLS1, chunks, buf, 2, ensure_sorted=es, id_dtype=idt)))
    return cs


# --------------------------------------------------------------------- history pass: state carried between calls
def _agg_chunks(raw_chunks, symm, ncols, count_records):
    """what sanitize_pixels(tril_action='reflect') + aggregate_records hand over for each raw chunk"""
    out = []
    for ch in raw_chunks:
        acc = {}
        for (a, b, vals) in ch:
            if symm and a > b:
                a, b = b, a
            row = acc.setdefault((a, b), [0] * (ncols + (1 if count_records else 0)))
            if count_records:
                row[0] += 1
            for i, v in enumerate(vals):
                row[i + (1 if count_records else 0)] += v
        out.append([[a, b, v] for (a, b), v in sorted(acc.items())])
    return out


def history_steps():
    three = [[(0, 1, [3]), (1, 2, [5])], [(0, 1, [1]), (2, 2, [7])], [(1, 2, [2]), (2, 3, [1])]]
    other = [[(0, 0, [2]), (0, 3, [1]), (3, 3, [4])], [], [(0, 3, [5]), (1, 1, [1])], [(2, 3, [6])]]
    six = [[(0, 5, [1]), (2, 2, [2]), (4, 5, [3])], [(0, 5, [2]), (1, 1, [5]), (4, 4, [1]), (5, 5, [4])]]
    xa = [[(0, 1, [3, 4]), (1, 2, [5, -1])], [(0, 1, [1, 6]), (2, 2, [7, 0])]]
    xb = [[(0, 4, [1, 1]), (2, 2, [2, 2])], [(0, 4, [5, 5])], [(1, 1, [1, 0]), (2, 2, [1, 1]), (4, 4, [3, 3])]]
    S = []
    S.append(dict(ax="A4", symm=True, cols=COLS1, chunks=three, mergebuf=1, max_merge=2, form="same-list", key="L1"))
    S.append(dict(ax="A4", symm=True, cols=COLS1, chunks=three, mergebuf=3, max_merge=1, form="same-list", key="L1"))   # the same list object again
    S.append(dict(ax="A4var", symm=True, cols=COLS1, chunks=other, mergebuf=1, max_merge=2, form="gen"))      # same chromsizes and nbins, other bins
    S.append(dict(ax="V4", symm=True, cols=COLS1, chunks=three, mergebuf=1, max_merge=2, form="tuple"))
    S.append(dict(ax="A6", symm=True, cols=COLS1, chunks=six, mergebuf=1, max_merge=1, form="iter"))
    S.append(dict(ax="B5", symm=True, cols=COLS2, chunks=xa, mergebuf=1, max_merge=1, form="list", key="K1"))  # same columns list / dtypes dict objects
    S.append(dict(ax="B5", symm=True, cols=COLS2, chunks=xb, mergebuf=2, max_merge=2, form="gen", key="K1"))
    S.append(dict(ax="A4", symm=False, cols=COLS1, chunks=[[(3, 0, [1])], [(0, 3, [2]), (3, 0, [4])]], mergebuf=1, max_merge=1, form="list"))
    # the same sanitizer and aggregator OBJECTS for two consecutive ingests (raw chunks: unsorted, lower triangle, repeated pixels)
    r1 = [[(3, 1, [2]), (0, 1, [1]), (1, 3, [4]), (1, 0, [5])], [(2, 2, [1]), (1, 0, [1])]]
    r2 = [[(4, 0, [7])], [(0, 4, [1]), (4, 4, [2]), (4, 4, [3])], [(1, 1, [1])]]
    S.append(dict(ax="B5", symm=True, cols=COLS1, raw=r1, mergebuf=1, max_merge=1, form="gen", pipe="P1"))
    S.append(dict(ax="B5", symm=True, cols=COLS1, raw=r2, mergebuf=1, max_merge=2, form="gen", pipe="P1"))
    # the same `agg` dict object handed to two aggregate_records calls: records counted first, not counted afterwards
    q1 = [[(0, 1, [5]), (1, 0, [2]), (2, 2, [1])], [(0, 1, [1])]]
    S.append(dict(ax="B5", symm=True, cols=[("count", 32), ("score", 32)], raw=q1, mergebuf=1, max_merge=1, form="gen", aggdict="D1", count_records=True))
    S.append(dict(ax="B5", symm=True, cols=[("score", 32)], raw=q1, mergebuf=1, max_merge=1, form="gen", aggdict="D1", count_records=False))
    return S


def history_pass(ctx, root):
    """ONE process; the SAME output path, temp dir, bin-table / argument / chunk-list / sanitizer / aggregator objects across
    consecutive ingests whose data, bin table and columns change in between; generator vs list vs tuple vs iterator"""
    import cooler
    from cooler.create import aggregate_records, sanitize_pixels
    hroot = os.path.join(root, "history")
    td = os.path.join(hroot, "tmp")
    os.makedirs(td, exist_ok=True)
    out = os.path.join(hroot, "out.cool")
    objs, binobj = {}, {}
    done = []
    for step_no, st in enumerate(history_steps()):
        cols = [tuple(c) for c in st["cols"]]
        names = [c for c, _ in cols]
        bins = binobj.setdefault(st["ax"], G.bins_df(st["ax"]))          # one DataFrame object per bin table, reused
        if "raw" in st:
            vcols = [c for c in names if c != "count"] if "aggdict" in st else names
            chunks = _agg_chunks(st["raw"], st["symm"], len(vcols), st.get("count_records", False))
            if st.get("count_records") is False and "aggdict" in st:
                pass
        else:
            chunks = st["chunks"]
        case = api_case(st["ax"], st["symm"], cols, chunks, st["mergebuf"], st["max_merge"])
        case["history_step"] = step_no
        try:
            with warnings.catch_warnings():
                warnings.simplefilter("ignore")
                with G.time_limit(30.0):
                    if "raw" in st:
                        vcols = [c for c in names if c != "count"] if "aggdict" in st else names
                        frames = [chunk_frame(ch, [(c, 0) for c in vcols]) for ch in st["raw"]]
                        if "pipe" in st:
                            p = objs.setdefault(st["pipe"], (sanitize_pixels(bins, tril_action="reflect", sort=False),
                                                             aggregate_records(sort=True, count=False, agg={"count": "sum"})))
                            san, aggr = p
                        else:
                            d = objs.setdefault(st["aggdict"], {"score": "sum"})
                            san = sanitize_pixels(bins, tril_action="reflect", sort=False)
                            aggr = aggregate_records(sort=True, count=st["count_records"], agg=d)
                            agg_dict_ok = d == {"score": "sum"}        # D35 (repaired): the caller's agg dict was written to
                        frames = [aggr(san(f)) for f in frames]
                    else:
                        frames = [chunk_frame(ch, cols) for ch in chunks]
                    if st.get("form") == "same-list":
                        frames = objs.setdefault(st["key"], frames)
                    pixels = {"gen": (f for f in frames), "list": frames, "same-list": frames,
                              "tuple": tuple(frames), "iter": iter(frames)}[st["form"]]
                    if st.get("key") and st["form"] != "same-list":
                        o = objs.setdefault(st["key"], {"columns": list(names), "dtypes": {c: G.np_dtype(b) for c, b in cols}})
                        kw = {"columns": o["columns"], "dtypes": o["dtypes"]}
                    else:
                        kw = {"columns": list(names), "dtypes": {c: G.np_dtype(b) for c, b in cols}}
                    snap = (list(kw["columns"]), dict(kw["dtypes"]), [f.copy() for f in frames], bins.copy())
                    cooler.create_cooler(out, bins, pixels, ordered=False, symmetric_upper=bool(st["symm"]),
                                         mergebuf=st["mergebuf"], max_merge=st["max_merge"], temp_dir=td, **kw)
                    got = G.obs_of_raw(G.read_raw(out, names))
                    got["temp_left"] = G.listdir_sorted(td)
                    got["caller_args_unchanged"] = (("aggdict" not in st or agg_dict_ok) and snap[0] == kw["columns"] and snap[1] == kw["dtypes"] and bins.equals(snap[3])
                                                    and all(a.equals(b) for a, b in zip(snap[2], frames)))
        except BaseException as e:  # noqa: BLE001
            if isinstance(e, (KeyboardInterrupt, SystemExit)):
                raise
            got = G.classify(e)
        done.append((case, got))
    mvals = C.coq_eval(G.IMPORTS, [model_expr(case) for case, _ in done], tmpdir=ctx.tmp / "hist", jobs=2)
    for (case, got), mo in zip(done, mvals):
        ctx.case(case, nontrivial=True, kind="history")
        mod = parse_model(mo, case)
        exp = oracle(case)
        if isinstance(mod, dict):
            mod["caller_args_unchanged"] = True
        ctx.compare("create_from_unordered (history pass)", case, got, mod)
        if exp is not None:
            exp["caller_args_unchanged"] = True
            exp["temp_left"] = []
            if not isinstance(got, dict) or {k: got.get(k) for k in exp} != exp:
                ctx.fail(case, {"expected": exp, "got": got}, None)


def nontrivial(case):
    chunks = effective(case)[0]
    seen, shared = set(), False
    for ch in chunks:
        ks = {(p[0], p[1]) for p in ch}
        shared = shared or bool(ks & seen)
        seen |= ks
    N = sum(len(ch) for ch in chunks)
    return shared or (case["mergebuf"] < N and len(seen) > 1) or (0 < case["max_merge"] < len(chunks))


def linspace_check(ctx):
    """the numpy call of the first merge pass yields an admissible edge list; equals the model's exact floor for small n"""
    exprs = ["map (fun n => linspace_int n (Nat.max (Nat.sqrt n) 2)) (seq 1 229)"]
    model = C.coq_eval(G.IMPORTS, exprs, tmpdir=ctx.tmp / "ls", jobs=1)[0]
    for n in range(1, 5001):
        e = np.linspace(0, n, max(int(np.sqrt(n)), 2), dtype=int).tolist()
        case = {"fn": "np.linspace", "n": n}
        if n < 230:
            ctx.case(case, nontrivial=n >= 4, kind="linspace")
            ctx.compare("linspace_int", case, e, list(model[n - 1]))
        if e[0] != 0 or e[-1] != n or any(b <= a for a, b in zip(e, e[1:])):
            ctx.disagree("np.linspace edge list not admissible (assumption of unordered_eq_aggregate)", case, e, "strictly increasing 0..n")


# --------------------------------------------------------------------- driver
def run(ctx):
    thorough = ctx.tier == "thorough"
    rng = ctx.rng
    root = str(ctx.tmp / "c06")
    os.makedirs(root, exist_ok=True)

    cases = corpus_cases()
    cases += assignment_cases(rng, thorough)
    cases += random_cases(rng, 400 if thorough else 90)
    cases += order_cases(rng, 20 if thorough else 5)
    cases += edges_cases(rng, thorough)
    cases += malformed_cases(rng)
    cases += cli_cases(rng, 30 if thorough else 8)
    cases += audit_cases(rng)
    cases += dtype_grid_cases(rng, thorough)
    cases += index_cases(rng)
    cases += id_dtype_cases(rng)
    base = [[(0, 1, [3]), (1, 2, [5])], [(0, 1, [1]), (2, 2, [7])], [(1, 2, [2]), (2, 3, [1])], [(0, 0, [4])], [(0, 1, [1]), (3, 3, [2])]]
    for ax in ("A4", "B5", "V4"):
        for chunks, buf, mm in ((base[:1], 1, 200), (base[:3], 1, 200), (base, 1, 1), (base, 3, 2), (base * 2, 1, 2)):
            cases.append(("bins-extra", api_case(ax, True, COLS1, chunks, buf, mm, bins_extra=True)))
    for q, (kind, case) in enumerate(cases):
        if kind.startswith("random:") and q % 4 == 0:
            case["bins_extra"] = True

    # known finding (temp files of the FIRST creation of a process survive it): exercised in a fresh
    # interpreter; this process is warmed up with one ordered creation so that every other case is
    # observed in the steady state
    first = api_case("A4", True, COLS1, [[(0, 1, [3]), (1, 2, [5])], [(0, 1, [1]), (2, 2, [7])]], 1, 1, first_create_in_process=True)
    cases.insert(0, ("finding:first-create", first))
    G.write_cooler(os.path.join(root, "warmup.cool"), "A4", True, COLS1, [[0, 1, [1]]])

    idx = [i for i, (_, case) in enumerate(cases) if modelled(case)]
    mvals = dict(zip(idx, C.coq_eval(G.IMPORTS, [model_expr(cases[i][1]) for i in idx], tmpdir=ctx.tmp / "mv", shard=120, jobs=4)))
    model = [mvals.get(i) for i in range(len(cases))]
    timeouts = 0
    groups = {}
    bufgroups = {}
    for (kind, case), mo in zip(cases, model):
        ctx.case(case, nontrivial=nontrivial(case), kind=kind)
        if timeouts >= 3:
            continue
        if case.get("first_create_in_process"):
            got = impl_fresh_process(root, case)
            exp = oracle(case)
            if isinstance(got, dict):
                # the content must be right in any case; only the temp-file clause is the known finding
                ctx.compare("create_from_unordered", case, {k: got[k] for k in exp}, {k: parse_model(mo, case)[k] for k in exp})
            check_oracle(ctx, case, got, exp)
            continue
        got = impl_api(root, case) if case["fn"] == "api" else impl_cli(root, case)
        if got == "timeout":
            timeouts += 1
        if mo is not None:
            ctx.compare("create_from_unordered", case, got, parse_model(mo, case))
        check_oracle(ctx, case, got, oracle(case))
        if kind == "orders":
            key = canon({"ax": case["ax"], "symm": case["symm"], "b": case["mergebuf"], "m": case["max_merge"],
                         "chunks": sorted(canon(ch) for ch in case["chunks"])})
            groups.setdefault(key, []).append((case, got))
        if kind.startswith("id-dtype"):
            key = canon({k: v for k, v in case.items() if k != "mergebuf"})
            bufgroups.setdefault(key, []).append((case, got))
    for grp in bufgroups.values():
        for case, got in grp[1:]:
            if canon(got) != canon(grp[0][1]):
                ctx.fail(case, {"result depends on mergebuf": got, "with mergebuf %d" % grp[0][0]["mergebuf"]: grp[0][1]}, None)
    for grp in groups.values():
        for case, got in grp[1:]:
            if canon(got) != canon(grp[0][1]):
                ctx.fail(case, {"result depends on the chunk order": got, "first order": grp[0][1]}, None)
    history_pass(ctx, root)
    linspace_check(ctx)
    # merge_breakpoints is an anchored mechanism of this property too: function-level comparison on a reduced family
    import c07
    c07.run_breakpoints(ctx, small=True)
    ctx.extra["scopes"] = {"ingests": len(cases)}
    ctx.exhaustive = thorough
    shutil.rmtree(root, ignore_errors=True)


def replay(ctx, case):
    root = str(ctx.tmp / "replay")
    os.makedirs(root, exist_ok=True)
    if case["fn"] == "merge_breakpoints":
        import c07
        return c07.replay(ctx, case)
    if case["fn"] == "np.linspace":
        n = case["n"]
        e = np.linspace(0, n, max(int(np.sqrt(n)), 2), dtype=int).tolist()
        return e[0] == 0 and e[-1] == n and all(b > a for a, b in zip(e, e[1:]))
    if case.get("first_create_in_process"):
        got = impl_fresh_process(root, case)
    else:
        G.write_cooler(os.path.join(root, "warmup.cool"), "A4", True, COLS1, [[0, 1, [1]]])
        got = impl_api(root, case) if case["fn"] == "api" else impl_cli(root, case)
    exp = oracle(case)
    print("expected:", exp)
    print("got     :", got)
    if exp is None:
        return True
    if not isinstance(got, dict):
        return False
    return {k: got[k] for k in exp} == exp and (case.get("keep_temp") or got["temp_left"] == [])
