(** C14  Table selectors and bin annotation return the rows and coordinates asked for.
    Only statements; proofs in Proofs/TableProofs.v.  A table is a list of (field, column); [colof t f] is column f. *)
From Cooler Require Import Model.Query Model.Table Proofs.QueryMain Proofs.TableProofs.
From Cooler Require Import Gen.Translated Proofs.GenBridge.

(** get: exactly the stored rows lo..hi-1 of every requested column, labelled with their row numbers *)
Theorem C14_get_spec : forall t n lo hi fields,
  WellFormed t n -> 0 <= lo -> lo <= hi -> hi <= n ->
  (forall f, In f fields -> lookup_col t f <> None) -> fields <> [] ->
  get t lo (Some hi) fields =
  Some (zrange lo (Z.to_nat (hi - lo)), map (fun f => (f, slice (colof t f) lo hi)) fields).
Proof. exact get_spec. Qed.
Print Assumptions C14_get_spec.

Theorem C14_get_rows_are_stored_rows : forall t n lo hi f k,
  WellFormed t n -> 0 <= lo -> lo <= hi -> hi <= n -> 0 <= k < hi - lo ->
  nth (Z.to_nat k) (zrange lo (Z.to_nat (hi - lo))) 0 = lo + k /\
  nth (Z.to_nat k) (slice (colof t f) lo hi) 0 = nth (Z.to_nat (lo + k)) (colof t f) 0.
Proof. exact get_rows_are_stored_rows. Qed.
Print Assumptions C14_get_rows_are_stored_rows.

(** a column selection never changes which rows come back *)
Theorem C14_column_subset_commutes : forall t n lo hi fields1 fields2 l1 d1 l2 d2 f c1 c2,
  WellFormed t n -> 0 <= lo -> lo <= hi -> hi <= n ->
  (forall g, In g fields1 -> lookup_col t g <> None) -> (forall g, In g fields2 -> lookup_col t g <> None) ->
  get t lo (Some hi) fields1 = Some (l1, d1) -> get t lo (Some hi) fields2 = Some (l2, d2) ->
  In (f, c1) d1 -> In (f, c2) d2 -> l1 = l2 /\ c1 = c2.
Proof. exact get_column_subset_commutes. Qed.
Print Assumptions C14_column_subset_commutes.

(** slicing a selector: bounds within [-n, n] resolved as for arrays, then exactly those rows *)
Theorem C14_selector_slice_spec : forall t n fields start stop, 0 <= n -> WellFormed t n ->
  (forall a, start = Some a -> - n <= a <= n) -> (forall b, stop = Some b -> - n <= b <= n) ->
  (forall f, In f fields -> lookup_col t f <> None) -> fields <> [] ->
  let lo := match start with None => 0 | Some a => a mod n + (if a =? n then n else 0) end in
  let hi := match stop with None => n | Some b => b mod n + (if b =? n then n else 0) end in
  lo <= hi ->
  selector_slice t n fields start stop = Some (zrange lo (Z.to_nat (hi - lo)), map (fun f => (f, slice (colof t f) lo hi)) fields).
Proof. exact selector_slice_spec. Qed.
Print Assumptions C14_selector_slice_spec.
(** ... and for every bound up to the length, however negative: [array_bound a n] is how an array resolves the bound
    (add n to a negative one, then clamp to [0, n]).  Bounds below -n used to give rows with negative labels (D33). *)
Theorem C14_selector_slice_array_semantics : forall t n fields start stop, 0 <= n -> WellFormed t n ->
  (forall a, start = Some a -> a <= n) -> (forall b, stop = Some b -> b <= n) ->
  (forall f, In f fields -> lookup_col t f <> None) -> fields <> [] ->
  let lo := match start with None => 0 | Some a => array_bound a n end in
  let hi := match stop with None => n | Some b => array_bound b n end in
  lo <= hi ->
  selector_slice t n fields start stop = Some (zrange lo (Z.to_nat (hi - lo)), map (fun f => (f, slice (colof t f) lo hi)) fields).
Proof. exact selector_slice_array_semantics. Qed.
Print Assumptions C14_selector_slice_array_semantics.

(** annotate: for every pixel list (any order, repeats, any length relative to the bin count: both strategies of
    the code) and every contiguous view of the bin table that contains the needed bins, row k carries the fields of
    its own bin1 and bin2; order and index are preserved *)
Theorem C14_annotate_spec : forall v nbins px, 0 <= vfirst v ->
  (forall r, In r px -> vfirst v <= fst (fst (snd r)) <= vlast v /\ vfirst v <= snd (fst (snd r)) <= vlast v) ->
  annotate v nbins px =
  Some (map (fun r => (fst r, (nth (Z.to_nat (fst (fst (snd r)) - vfirst v)) (vrows v) [],
                               nth (Z.to_nat (snd (fst (snd r)) - vfirst v)) (vrows v) [],
                               snd r))) px).
Proof. exact annotate_spec. Qed.
Print Assumptions C14_annotate_spec.

Theorem C14_int_chrom_decoding : forall names codes k, 0 <= k < zlen codes ->
  nth (Z.to_nat k) (decode_chrom names codes) (-1) = nth (Z.to_nat (nth (Z.to_nat k) codes 0)) names (-1).
Proof. exact decode_chrom_spec. Qed.
Print Assumptions C14_int_chrom_decoding.

(** tie by translation: the slice resolution used by the selectors is the text regenerated from /repo's source *)
Theorem C14_source_process_slice_is_model : forall start stop s nmax,
  Gen.process_slice start stop nmax = process_slice start stop nmax /\ Gen.process_scalar s nmax = process_scalar s nmax.
Proof. intros. split; [apply gen_process_slice|apply gen_process_scalar]. Qed.
Print Assumptions C14_source_process_slice_is_model.

(** non-vacuity, and why the view must contain the needed bins: a view that starts after a needed bin makes the
    positional take wrap around (Python negative indexing) and silently annotate with the wrong bin *)
Definition ex14_view := {| vfirst := 2; vrows := [[20;30];[30;40];[40;50]] |}.
Example ex_C14_annotate :
  annotate ex14_view 6 [(7, ((4, 2), [9])); (8, ((3, 3), [1]))] =
  Some [(7, ([40;50], [20;30], ((4, 2), [9]))); (8, ([30;40], [30;40], ((3, 3), [1])))].
Proof. vm_compute. reflexivity. Qed.
Example ex_C14_view_must_contain_bins :
  annotate_ids ex14_view 2 [1; 1] = Some [[40;50]; [40;50]] /\ annotate_ids ex14_view 6 [1] = None.
Proof. vm_compute. split; reflexivity. Qed.
Example ex_C14_get :
  get [(0, [5;6;7;8]); (1, [50;60;70;80])] 1 (Some 3) [1; 0] = Some ([1;2], [(1, [60;70]); (0, [6;7])]).
Proof. vm_compute. reflexivity. Qed.
