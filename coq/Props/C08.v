(** C08  Coarsening by k is exact block aggregation within each chromosome.
    Only statements; proofs are in Proofs/CoarsenProofs.v.  Model: Model/Coarsen.v
    (coarsen_bins, GenomeSegmentation, rebin by start coordinate, coarse-row edges,
    _greedy_prune_partition, the chunk stream).  A bin table is given as chromosome blocks
    [blocks] (ValidBlocks: block i is a non-empty tiling of chromosome i from 0); the flat table
    the code sees is [concat blocks], chromsizes = [map chrom_end blocks]. *)
From Cooler Require Import Model.Coarsen Proofs.BinsProofs Proofs.PixelsProofs Proofs.CoarsenGroupBy Proofs.CoarsenProofs.
From Coq Require Import Sorted Permutation.

(* ------------------------------------------------------------------ 1. the new bin table *)
(** new bin q of chromosome c is [start(old c (q*k)), end(old c (min(q*k+k, n_c) - 1))), there are
    ceil(n_c/k) of them, the new table is a valid tiling with the same chromosome ends *)
Theorem C08_coarsen_bins_spec : forall blocks k, 1 <= k -> ValidBlocks blocks ->
  let nb := map (fun blk => map (fun q =>
                   let x := nth (Z.to_nat (q * k)) blk bin0 in
                   (bchrom x, bstart x, bend (nth (Z.to_nat (Z.min (q * k + k) (zlen blk) - 1)) blk bin0)))
                 (zrange 0 (Z.to_nat (cdiv (zlen blk) k)))) blocks in
  coarsen_bins (concat blocks) (map chrom_end blocks) k = concat nb /\
  ValidBlocks nb /\ map chrom_end nb = map chrom_end blocks /\
  map zlen nb = map (fun blk => cdiv (zlen blk) k) blocks.
Proof. exact coarsen_bins_spec. Qed.
Print Assumptions C08_coarsen_bins_spec.

(* ------------------------------------------- 2. re-binning by start coordinate = by index *)
(** the table old-bin-id -> new-bin-id computed by _aggregate from chromosome and START coordinate
    (division when the new table reports a bin size, searchsorted otherwise) is
    new_off c + m / k  for the old bin at relative index m of chromosome c *)
Theorem C08_rebin_eq_index : forall blocks k, 1 <= k -> ValidBlocks blocks ->
  rebin_table (concat blocks) (map chrom_end blocks) k = index_table (map zlen blocks) k.
Proof. exact rebin_eq_index. Qed.
Print Assumptions C08_rebin_eq_index.

(** both paths separately: the searchsorted path is right on every valid table, the division path
    whenever the NEW table reports a bin size (uses C20 binsize_truthful) *)
Theorem C08_rebin_search_path : forall blocks k, 1 <= k -> ValidBlocks blocks ->
  let newt := concat (map (coarsen_block k) blocks) in
  map (rebin_bin_search newt (map chrom_end blocks)) (concat blocks) = index_table (map zlen blocks) k.
Proof. exact rebin_search_table. Qed.
Print Assumptions C08_rebin_search_path.

Theorem C08_rebin_division_path : forall blocks k, 1 <= k -> ValidBlocks blocks ->
  let newt := concat (map (coarsen_block k) blocks) in
  forall bs, get_binsize newt = Some bs ->
  map (rebin_bin_div newt bs) (concat blocks) = index_table (map zlen blocks) k.
Proof. exact rebin_div_table. Qed.
Print Assumptions C08_rebin_division_path.

(* ------------------------------------------------- 3. no coarse row is split or duplicated *)
(** _greedy_prune_partition, for EVERY non-decreasing edge list from 0 and every chunk size >= 1:
    the result is a sub-sequence of the edges (strictly increasing positions), starts at 0, ends at
    the total and is strictly increasing in value *)
Theorem C08_prune_subsequence : forall rest maxlen,
  let edges := 0 :: rest in
  StronglySorted Z.le edges -> 1 <= maxlen ->
  let p := greedy_prune_partition edges maxlen in
  (exists idx, p = map (fun i => znth edges i 0) idx /\ StronglySorted Z.lt idx /\
               Forall (fun i => 0 <= i < zlen edges) idx) /\
  hd 0 p = 0 /\ last p 0 = last edges 0 /\ StronglySorted Z.lt p.
Proof. exact prune_subsequence. Qed.
Print Assumptions C08_prune_subsequence.

(** the coarse-row edges built from the chromosome offsets and bin1_offset, for any row-sorted pixel
    list, any k and any bin counts: a non-decreasing list from 0 to nnz each of whose entries is an
    ALIGNED cut (every re-keyed row before it is smaller than every re-keyed row after it) *)
Theorem C08_coarse_edges_aligned : forall lens px k,
  1 <= k -> Forall (fun n => 1 <= n) lens -> RowSorted px -> Forall (fun p => 0 <= row p < sumZ lens) px ->
  let E := coarse_edges (0 :: cumsum lens) (bin1_offset (sumZ lens) px) k in
  (exists rest, E = 0 :: rest) /\ StronglySorted Z.le E /\ last E 0 = zlen px /\
  Forall (fun c => AlignedCut (fun r => znth (index_table lens k) r 0) px (Z.to_nat c)) E.
Proof. exact coarse_edges_facts. Qed.
Print Assumptions C08_coarse_edges_aligned.

(* ----------------------------------------- 4. the chunk stream is the canonical aggregate *)
Theorem C08_chunks_canon : forall parts,
  ForallOrdPairs KeysBefore parts -> concat (map aggregate parts) = aggregate (concat parts).
Proof. exact chunks_canon. Qed.
Print Assumptions C08_chunks_canon.

(** coarsen_cooler's pixel table = canonical aggregate of the pixels re-keyed BY INDEX, for every
    valid bin table (fixed or variable), k >= 1, chunk size >= 1 and batch size (= nproc) >= 1
    — hypothesis of the model: results of a batch come back in order (Pool.map) *)
Theorem C08_coarsen_canon : forall blocks px k chunksize batchsize,
  1 <= k -> 1 <= chunksize -> 1 <= batchsize -> ValidBlocks blocks ->
  RowSorted px -> InRangeRows (zlen (concat blocks)) px ->
  coarsen_pixels (concat blocks) (map chrom_end blocks) px k chunksize batchsize
  = aggregate (map (rekey (index_table (map zlen blocks) k)) px)
  /\ Canon (map (rekey (index_table (map zlen blocks) k)) px)
           (coarsen_pixels (concat blocks) (map chrom_end blocks) px k chunksize batchsize).
Proof. intros. split; [now apply coarsen_canon|now apply coarsen_is_canon]. Qed.
Print Assumptions C08_coarsen_canon.

Theorem C08_chunksize_nproc_independent : forall blocks px k cs1 bs1 cs2 bs2,
  1 <= k -> 1 <= cs1 -> 1 <= bs1 -> 1 <= cs2 -> 1 <= bs2 -> ValidBlocks blocks ->
  RowSorted px -> InRangeRows (zlen (concat blocks)) px ->
  coarsen_pixels (concat blocks) (map chrom_end blocks) px k cs1 bs1 =
  coarsen_pixels (concat blocks) (map chrom_end blocks) px k cs2 bs2.
Proof. exact coarsen_chunk_independent. Qed.
Print Assumptions C08_chunksize_nproc_independent.

Theorem C08_totals_preserved : forall blocks px k chunksize batchsize,
  1 <= k -> 1 <= chunksize -> 1 <= batchsize -> ValidBlocks blocks ->
  RowSorted px -> InRangeRows (zlen (concat blocks)) px ->
  total (coarsen_pixels (concat blocks) (map chrom_end blocks) px k chunksize batchsize) = total px.
Proof. exact coarsen_total. Qed.
Print Assumptions C08_totals_preserved.

(* --------------------------------------------------------- 5. composition and merging *)
(** k1 then k2 equals k1*k2: bin table and pixel table, fixed AND variable widths, any chunking *)
Theorem C08_coarsen_compose : forall blocks px k1 k2 cs1 bs1 cs2 bs2 cs bs,
  1 <= k1 -> 1 <= k2 -> 1 <= cs1 -> 1 <= bs1 -> 1 <= cs2 -> 1 <= bs2 -> 1 <= cs -> 1 <= bs ->
  ValidBlocks blocks -> RowSorted px -> InRange (zlen (concat blocks)) px ->
  let sizes := map chrom_end blocks in
  let c1 := coarsen_cooler (concat blocks) sizes px k1 cs1 bs1 in
  coarsen_cooler (fst c1) sizes (snd c1) k2 cs2 bs2 = coarsen_cooler (concat blocks) sizes px (k1 * k2) cs bs.
Proof. exact coarsen_compose. Qed.
Print Assumptions C08_coarsen_compose.

Theorem C08_index_table_compose : forall lens k1 k2, 1 <= k1 -> 1 <= k2 -> Forall (fun n => 0 <= n) lens ->
  map (fun v => znth (index_table (map (fun n => cdiv n k1) lens) k2) v 0) (index_table lens k1)
  = index_table lens (k1 * k2).
Proof. exact index_table_compose. Qed.
Print Assumptions C08_index_table_compose.

(** coarsening commutes with merging; merging is specified as the canonical aggregate of the
    concatenated inputs (property C07) *)
Theorem C08_coarsen_merge_commute : forall lens a b k,
  coarsen_spec lens (aggregate (a ++ b)) k = aggregate (coarsen_spec lens a k ++ coarsen_spec lens b k).
Proof. exact coarsen_merge_commute. Qed.
Print Assumptions C08_coarsen_merge_commute.

(* ------------------------------------- 6. any value type, any requested aggregation *)
(** coarsen_cooler(columns=, agg=): value type V (a row of value columns) and aggregation agg : list V -> V.
    The concatenated chunk stream is ONE pandas group-by (ascending keys, values of a group in storage
    order) of the pixels re-keyed by index, for EVERY agg, every valid table, k, chunk size, batch size.
    [shadow px] is the key columns of the table. *)
Theorem C08_coarsen_exact : forall (V : Type) (agg : list V -> V) blocks (px : list (key * V)) k chunksize batchsize,
  1 <= k -> 1 <= chunksize -> 1 <= batchsize -> ValidBlocks blocks ->
  RowSorted (shadow px) -> InRangeRows (zlen (concat blocks)) (shadow px) ->
  coarsen_pixels_g agg (concat blocks) (map chrom_end blocks) px k chunksize batchsize
  = groupby_agg agg (map (grekey (index_table (map zlen blocks) k)) px).
Proof. intros V agg. exact (coarsen_exact agg). Qed.
Print Assumptions C08_coarsen_exact.

(** ... i.e. strictly sorted, exactly the new keys that some old pixel falls into, and each new pixel's value
    is agg of exactly the old values that fall into it, in storage order *)
Theorem C08_coarsen_pixelwise : forall (V : Type) (agg : list V -> V) blocks (px : list (key * V)) k chunksize batchsize,
  1 <= k -> 1 <= chunksize -> 1 <= batchsize -> ValidBlocks blocks ->
  RowSorted (shadow px) -> InRangeRows (zlen (concat blocks)) (shadow px) ->
  let out := coarsen_pixels_g agg (concat blocks) (map chrom_end blocks) px k chunksize batchsize in
  let src := map (grekey (index_table (map zlen blocks) k)) px in
  StronglySorted klt (map fst out) /\
  (forall key, In key (map fst out) <-> In key (map fst src)) /\
  (forall key v, In (key, v) out -> v = agg (map snd (filter (fun p => keqb (fst p) key) src))).
Proof. intros V agg. exact (coarsen_pixelwise agg). Qed.
Print Assumptions C08_coarsen_pixelwise.

Theorem C08_coarsen_exact_chunk_independent : forall (V : Type) (agg : list V -> V) blocks (px : list (key * V)) k cs1 bs1 cs2 bs2,
  1 <= k -> 1 <= cs1 -> 1 <= bs1 -> 1 <= cs2 -> 1 <= bs2 -> ValidBlocks blocks ->
  RowSorted (shadow px) -> InRangeRows (zlen (concat blocks)) (shadow px) ->
  coarsen_pixels_g agg (concat blocks) (map chrom_end blocks) px k cs1 bs1 =
  coarsen_pixels_g agg (concat blocks) (map chrom_end blocks) px k cs2 bs2.
Proof. intros V agg. exact (coarsen_exact_chunk_independent agg). Qed.
Print Assumptions C08_coarsen_exact_chunk_independent.

(** the sum instance is the model of sections 4-5 (Canon / aggregate) *)
Theorem C08_sum_instance : forall t sizes (px : list pixel) k cs bs,
  coarsen_pixels_g sumZ t sizes px k cs bs = coarsen_pixels t sizes px k cs bs.
Proof. exact coarsen_pixels_sum. Qed.
Print Assumptions C08_sum_instance.

(** composition for every aggregation that is permutation invariant and composes over a partition into
    NON-EMPTY blocks (the unguarded law is false for max/min: C08_max_unguarded_refuted) *)
Theorem C08_coarsen_compose_any_agg : forall (V : Type) (agg : list V -> V),
  (forall vs vs', Permutation vs vs' -> agg vs = agg vs') ->
  (forall Gs : list (list V), Forall (fun G => G <> []) Gs -> agg (map agg Gs) = agg (concat Gs)) ->
  forall blocks (px : list (key * V)) k1 k2 cs1 bs1 cs2 bs2 cs bs,
  1 <= k1 -> 1 <= k2 -> 1 <= cs1 -> 1 <= bs1 -> 1 <= cs2 -> 1 <= bs2 -> 1 <= cs -> 1 <= bs ->
  ValidBlocks blocks -> RowSorted (shadow px) -> InRange (zlen (concat blocks)) (shadow px) ->
  let sizes := map chrom_end blocks in
  let c1 := coarsen_cooler_g agg (concat blocks) sizes px k1 cs1 bs1 in
  coarsen_cooler_g agg (fst c1) sizes (snd c1) k2 cs2 bs2 = coarsen_cooler_g agg (concat blocks) sizes px (k1 * k2) cs bs.
Proof. intros V agg Hp Hc. exact (coarsen_compose_g agg Hp (composes_decomp agg Hc)). Qed.
Print Assumptions C08_coarsen_compose_any_agg.

Theorem C08_coarsen_merge_commute_any_agg : forall (V : Type) (agg : list V -> V),
  (forall vs vs', Permutation vs vs' -> agg vs = agg vs') ->
  (forall Gs : list (list V), Forall (fun G => G <> []) Gs -> agg (map agg Gs) = agg (concat Gs)) ->
  forall lens (a b : list (key * V)) k,
  coarsen_spec_g agg lens (groupby_agg agg (a ++ b)) k =
  groupby_agg agg (coarsen_spec_g agg lens a k ++ coarsen_spec_g agg lens b k).
Proof. intros V agg Hp Hc. exact (coarsen_merge_commute_g agg Hp (composes_decomp agg Hc)). Qed.
Print Assumptions C08_coarsen_merge_commute_any_agg.

(** sum, max and min satisfy both laws ... *)
Theorem C08_sum_max_min_compose : forall op,
  (forall vs vs', Permutation vs vs' -> agg_of op vs = agg_of op vs') /\
  (forall Gs : list (list Z), Forall (fun G => G <> []) Gs -> agg_of op (map (agg_of op) Gs) = agg_of op (concat Gs)).
Proof.
  intros op. split; [apply agg_of_perm|].
  destruct op; [apply sumZ_composes|apply agg_max_composes|apply agg_min_composes].
Qed.
Print Assumptions C08_sum_max_min_compose.

(** ... the mean does not (so a chain of mean-coarsenings is NOT the direct mean-coarsening: example below),
    and without the non-emptiness guard max does not either *)
Theorem C08_mean_compose_refuted :
  ~ (forall Gs : list (list Z), Forall (fun G => G <> []) Gs -> agg_mean (map agg_mean Gs) = agg_mean (concat Gs)).
Proof. exact agg_mean_not_composes. Qed.
Print Assumptions C08_mean_compose_refuted.

Theorem C08_max_unguarded_refuted : exists Gs, agg_max (map agg_max Gs) <> agg_max (concat Gs).
Proof. exact agg_max_unguarded_refuted. Qed.
Print Assumptions C08_max_unguarded_refuted.

(* ----------------------------------------------------- executable hypotheses are sound *)
Theorem C08_hypotheses_decidable : forall blocks px,
  valid_blocks_b blocks = true -> ssorted_b px = true -> inrange_b (zlen (concat blocks)) px = true ->
  ValidBlocks blocks /\ RowSorted px /\ InRange (zlen (concat blocks)) px /\ InRangeRows (zlen (concat blocks)) px.
Proof.
  intros blocks px H1 H2 H3. split; [now apply valid_blocks_b_sound|]. split; [now apply ssorted_b_rowsorted|].
  split; [now apply inrange_b_sound|now apply inrange_rows, inrange_b_sound].
Qed.
Print Assumptions C08_hypotheses_decidable.

(* ------------------------------------------------------------------------ non-vacuity *)
Definition ex_blocks : list (list bin) := [[(0,0,10);(0,10,20);(0,20,35)]; [(1,0,7);(1,7,9)]].
Definition ex_px : list pixel := [((0,0),1);((0,2),2);((1,1),3);((1,4),1);((2,3),5);((3,3),1);((3,4),2)].

(** a variable-width table (longer last bin, defect D1) with a chromosome shorter than k: hypotheses hold,
    the stream has several chunks and equals the index-based aggregate *)
Example ex_C08_hypotheses :
  valid_blocks_b ex_blocks = true /\ ssorted_b ex_px = true /\ inrange_b (zlen (concat ex_blocks)) ex_px = true.
Proof. vm_compute. repeat split; reflexivity. Qed.

Example ex_C08_coarsen :
  coarsen_cooler (concat ex_blocks) (map chrom_end ex_blocks) ex_px 2 1 1 =
    ([(0,0,20);(0,20,35);(1,0,9)], [((0,0),4);((0,1),2);((0,2),1);((1,2),5);((2,2),3)]) /\
  coarsener_edges (concat ex_blocks) ex_px 2 1 = [0; 4; 5; 7] /\
  rebin_table (concat ex_blocks) (map chrom_end ex_blocks) 2 = [0; 0; 1; 2; 2] /\
  get_binsize (coarsen_bins (concat ex_blocks) (map chrom_end ex_blocks) 2) = Some 20.
Proof. vm_compute. repeat split; reflexivity. Qed.

(** a variable table whose k=2 coarsening reports a fixed size: the division path is taken *)
Example ex_C08_division_path :
  let blocks := [[(0,0,3);(0,3,10);(0,10,13);(0,13,20)]; [(1,0,5);(1,5,10)]] in
  valid_blocks_b blocks = true /\ get_binsize (concat blocks) = None /\
  get_binsize (coarsen_bins (concat blocks) (map chrom_end blocks) 2) = Some 10 /\
  rebin_table (concat blocks) (map chrom_end blocks) 2 = [0; 0; 1; 1; 2; 2].
Proof. vm_compute. repeat split; reflexivity. Qed.

(** a variable table whose coarsening is variable too: the searchsorted path is taken *)
Example ex_C08_search_path :
  let blocks := [[(0,0,3);(0,3,11);(0,11,15);(0,15,21);(0,21,30)]; [(1,0,4)]] in
  valid_blocks_b blocks = true /\
  get_binsize (coarsen_bins (concat blocks) (map chrom_end blocks) 2) = None /\
  coarsen_bins (concat blocks) (map chrom_end blocks) 2 = [(0,0,11);(0,11,21);(0,21,30);(1,0,4)] /\
  rebin_table (concat blocks) (map chrom_end blocks) 2 = [0; 0; 1; 1; 2; 3].
Proof. vm_compute. repeat split; reflexivity. Qed.

Example ex_C08_prune :
  greedy_prune_partition [0; 2; 2; 5; 7; 7] 3 = [0; 5; 7] /\ greedy_prune_partition [0; 0; 0] 4 = [0].
Proof. vm_compute. split; reflexivity. Qed.

(** max through the same stream: three chunks, the new pixel (0,0) is the max of the three old values *)
Example ex_C08_max :
  coarsen_cooler_g agg_max (concat ex_blocks) (map chrom_end ex_blocks) ex_px 2 1 1 =
    ([(0,0,20);(0,20,35);(1,0,9)], [((0,0),3);((0,1),2);((0,2),1);((1,2),5);((2,2),2)]).
Proof. vm_compute. reflexivity. Qed.

(** mean: k=2 then k=2 differs from k=4 on a concrete valid cooler (values 1 | 3, 5) *)
Example ex_C08_mean_chain_refuted :
  let blocks := [[(0,0,1);(0,1,2);(0,2,3);(0,3,4)]] in
  let px := [((0,0),1);((0,2),3);((1,3),5)] in
  let sizes := map chrom_end blocks in
  valid_blocks_b blocks = true /\ ssorted_b px = true /\
  let c1 := coarsen_cooler_g agg_mean (concat blocks) sizes px 2 1 1 in
  snd (coarsen_cooler_g agg_mean (fst c1) sizes (snd c1) 2 1 1) = [((0,0),2)] /\
  snd (coarsen_cooler_g agg_mean (concat blocks) sizes px 4 1 1) = [((0,0),3)].
Proof. vm_compute. repeat split; reflexivity. Qed.

(** the coarsener locates a pixel's new bin with float64 true division, [np.floor(start / binsize)]
    (_reduce.py:616-617); for coordinates and bin sizes below 2^53 that is the exact floor division of the model
    (Proofs/FloatDiv.v, Flocq).  Depends on the standard library's real-number axioms only. *)
From Cooler Require Import Proofs.FloatDiv Proofs.FloatDivBridge.
From Flocq Require Import Core.
Theorem C08_binary64_relative_bin_exact : forall start b : Z,
  0 <= start < 2^53 -> 0 < b < 2^53 -> Zfloor (fdiv start b) = start / b.
Proof. exact floor_fdiv_is_div. Qed.
Print Assumptions C08_binary64_relative_bin_exact.

(** ---- what a user reads from the coarsened cooler (composition with C02 and C03): the dense range query on the
    k-fold coarsened collection — every window of coarse bins, every read chunk size, every coarsening chunk / batch
    size — is the symmetric completion of the base's stored pixels re-keyed by the bin-index table: cell (I, J) is the
    sum of the stored values of all base pixels falling into coarse pixel {I, J}. *)
From Cooler Require Import Model.Query Proofs.QueryProofs Proofs.HistoryProofs Proofs.CoarsenQuery.
Theorem C08_coarsen_then_dense_query : forall blocks (c : Index.cooler) k chunksize batchsize cs i0 i1 j0 j1,
  EntryOK (blocks, c) -> Index.symmetric_upper c = true -> 1 <= k -> 1 <= chunksize -> 1 <= batchsize -> 1 <= cs ->
  let nb := map (coarsen_block k) blocks in
  let n' := zlen (concat nb) in
  0 <= i0 -> i0 <= i1 -> i1 <= n' -> 0 <= j0 -> j0 <= j1 -> j1 <= n' ->
  exists c' out,
    Index.create_model (zlen nb) (map bchrom (concat nb))
                 (snd (coarsen_cooler (concat blocks) (map chrom_end blocks) (Index.pixels_of c) k chunksize batchsize)) true = Some c' /\
    fill_lower_query (epx_of (Index.pixels_of c')) (Index.bin1_offset c') (get_spans (Index.bin1_offset c') cs) (i0, i1, j0, j1) = Some out /\
    dense_of out (i0, i1, j0, j1) =
    map (fun I => map (fun J => symm (map (rekey (index_table (map zlen blocks) k)) (Index.pixels_of c)) I J)
                      (zrange j0 (Z.to_nat (j1 - j0))))
        (zrange i0 (Z.to_nat (i1 - i0))).
Proof. exact coarsen_then_dense_query. Qed.
Print Assumptions C08_coarsen_then_dense_query.

(** the float64 quotient expression of CoolerCoarsener._aggregate that the binary64 theorem above is about is pinned in the source on every run
    (tools/py2v.py): a reciprocal multiplication or another shortcut is a different computation *)
From Cooler Require Import Gen.Translated.
Theorem C08_float_division_source_pins : Gen.float_division_pins_coarsen = true.
Proof. reflexivity. Qed.
Print Assumptions C08_float_division_source_pins.
