"""C07 — merging coolers is the exact element-wise aggregate of the inputs.

Correspondence: cooler.merge_coolers / `cooler merge` / cooler._reduce.merge_breakpoints against the
Gallina model coq/Model/Merge.v on the same inputs (input coolers are written through the public API and
read back raw with h5py; the model receives exactly what is in the files).
Property oracle (never calls the code under test): a dict of exact Python-int aggregates per pixel over the
inputs, the sum of the input totals, the compatibility of the axes decided on the fixture definitions, and
"fits the output dtype or must be refused".
"""
from __future__ import annotations

import itertools
import os
import shutil
import warnings

import numpy as np

import coqio as C
import gen_c07 as G
from common import canon

PROP = "C07"
RULE = ("merge_coolers: regression corpus (D16 all-empty / leading empty rows with mergebuf=1, D10 int32 limit, int64 per-pixel limit = finding D19, int64 total limit = finding D28); every ordered pair of "
        "pixel tables over a 3-bin axis drawn from all subsets of 4 keys (quick: seeded sample) x mergebuf 1..2; seeded random families "
        "(empty / disjoint / identical / overlapping / leading-empty-rows supports, k=1..5 inputs, 4 bin tables incl. variable and 2-chromosome, "
        "both storage modes, columns count / count+x, agg sum/max/min, dtype overrides, mergebuf sampled from 1..nnz+1 always incl. 1 and nnz+1); "
        "all input orders for k<=3; nested merges (3 tree shapes); incompatible pairs of each kind; values at the dtype limits; `cooler merge` CLI; "
        "merge_breakpoints at function level: every family of 1..2 monotone index arrays of length 2..4 with increments 0..2 x bufsize 1..nnz+1, plus random "
        "input sets with value dtypes mixed across the inputs (int32+float64, int32+int64, float32+int32+float64, two columns with opposite dtypes; non-integral floats) laid out as separate files and as groups of one file, every input order, with and without a lossless dtypes override, results compared across layouts and orders; larger families; parameter/representation audit (one case each): dtypes full / partial / narrowing / float / unsigned dict, agg full / partial dict, unsigned and float input columns mixed with signed ones (oracle only: the model covers signed integers), bin tables with extra columns, inputs and output addressed by URI inside multi-group files, mode=a / --append next to an existing cooler, CLI default chunk size and --field dtype/agg specs, huge mergebuf; every aggregate pandas accepts in `agg` (sum mean min max first last size count nunique var std median prod, two callables) for count and for an extra column x column subsets, over disjoint-row / overlapping / identical / with-an-empty-input / k=1 / k=4 supports x mergebuf 1, middle, nnz+1 (oracle only, NaN-aware, relative slack 1e-9 on floats); a HISTORY pass in one process (16 merges): the same input URIs (plain files, and groups of one file), the same URI list / tuple, output path and columns / agg / dtypes objects across consecutive calls while the files are rewritten in between with other nnz, bin table, nbins, storage mode, dtypes (API and CLI), caller arguments asserted unchanged; the bin table of every output is part of the observable. non-trivial = at least two inputs with a shared pixel or a partition with >= 2 epochs or a refusal; distinct by input hash")
TRUSTED = ["pandas concat + groupby(sort=True).aggregate, np.result_type, h5py dataset I/O are observed through merge_coolers, modelled by "
           "Model/Merge.v (group/groupby_agg, widest signed width, int64 wrap-around of integer sums)",
           "input coolers are written by cooler.create_cooler (ordered path) and read back raw with h5py before they are handed to the model"]
ASSUMPTIONS = ["value columns are signed integers (int8/16/32/64); float columns are outside the exactness claim",
               "offsets < 2^53 so that the float64 combined index of merge_breakpoints is exact"]
RESIDUE = ["float value columns (order-dependent sums) are not covered",
           "unsigned value dtypes and user-supplied aggregation callables other than sum/max/min are not modelled"]

SIG_I64 = "int64-aggregate-wraps"     # D19: some exact per-pixel aggregate outside int64
SIG_F2I = "float-aggregate-into-int-column"   # a non-integral / NaN aggregate written into an integer output column
SIG_TOT = "int64-total-wraps"         # D28: every per-pixel sum fits, the exact sum of all stored counts does not
I64 = (-2 ** 63, 2 ** 63 - 1)


# --------------------------------------------------------------------- aggregation kinds
def _range(v):          # a callable aggregate with f([x]) = 0 != x
    return v.max() - v.min()


def _sumsq(v):          # a callable aggregate with f([x]) = x*x
    return (v * v).sum()


CALLABLES = {"callable:range": _range, "callable:sumsq": _sumsq}


def _var(vs):
    if len(vs) < 2:
        return float("nan")
    m = sum(vs) / len(vs)
    return sum((x - m) ** 2 for x in vs) / (len(vs) - 1)


def _median(vs):
    t = sorted(vs)
    n = len(t)
    return float(t[n // 2]) if n % 2 else (t[n // 2 - 1] + t[n // 2]) / 2


def _prod(vs):
    p = 1
    for x in vs:
        p *= x
    return p


# independent reading of every aggregate pandas accepts in `agg` (values of one pixel, in input order)
AGG_REF = {
    "sum": sum, "max": max, "min": min,
    "mean": lambda vs: sum(vs) / len(vs),
    "first": lambda vs: vs[0], "last": lambda vs: vs[-1],
    "size": len, "count": len, "nunique": lambda vs: len(set(vs)),
    "var": _var, "std": lambda vs: _var(vs) ** 0.5, "median": _median, "prod": _prod,
    "callable:range": lambda vs: max(vs) - min(vs), "callable:sumsq": lambda vs: sum(x * x for x in vs),
}
FLOAT_AGGS = {"mean", "var", "std", "median"}          # float-valued whatever the input dtype
MODEL_AGGS = {"sum", "max", "min"}


def same(a, b):
    """equality of observables: exact on ints/strings, NaN-aware with a relative slack of 1e-9 on floats
    (pandas' var/std use a different but equivalent summation order)"""
    if isinstance(a, float) or isinstance(b, float):
        if not isinstance(a, (int, float)) or not isinstance(b, (int, float)) or isinstance(a, bool) or isinstance(b, bool):
            return False
        if a != a or b != b:
            return a != a and b != b
        return abs(a - b) <= 1e-9 * max(1.0, abs(a), abs(b))
    if isinstance(a, dict) and isinstance(b, dict):
        return a.keys() == b.keys() and all(same(a[k], b[k]) for k in a)
    if isinstance(a, (list, tuple)) and isinstance(b, (list, tuple)):
        return len(a) == len(b) and all(same(x, y) for x, y in zip(a, b))
    return a == b


# --------------------------------------------------------------------- workspace
class Workspace:
    def __init__(self, root):
        self.root = root
        os.makedirs(root, exist_ok=True)
        self.cache = {}
        self.raw = {}
        self.broken = {}
        self.n = 0

    def input_file(self, inp):
        key = canon(inp)
        if key not in self.cache:
            path = os.path.join(self.root, f"in{len(self.cache)}.cool")
            mode = "w"
            if inp.get("group"):
                # several inputs live in ONE multi-group file and are addressed by URI
                multi = os.path.join(self.root, "multi_inputs.mcool")
                mode = "a" if os.path.exists(multi) else "w"
                path = multi + "::" + inp["group"]
            self.cache[key] = path
            try:
                with warnings.catch_warnings():
                    warnings.simplefilter("ignore")
                    with G.time_limit(20.0):
                        G.write_cooler(path, inp["ax"], inp["symm"], [tuple(c) for c in inp["cols"]], inp["px"],
                                       bins_extra=bool(inp.get("bins_extra")), mode=mode)
                        self.raw[key] = G.read_raw(path, [c for c, _ in inp["cols"]])
            except BaseException as e:  # noqa: BLE001  (the input could not be written: a result, not a crash)
                if isinstance(e, (KeyboardInterrupt, SystemExit)):
                    raise
                self.broken[key] = "input-not-writable:" + G.classify(e)
                # the model still gets the table the generator asked for
                px = sorted([p[0], p[1], list(p[2])] for p in inp["px"])
                n = G.nbins(inp["ax"])
                names = [c for c, _ in inp["cols"]]
                self.raw[key] = {"cols": [list(c) for c in inp["cols"]], "px": px,
                                 "off": [sum(1 for p in px if p[0] < b) for b in range(n + 1)],
                                 "sum": sum(p[2][names.index("count")] for p in px) if "count" in names else 0,
                                 "nnz": len(px), "symm": bool(inp["symm"])}
        return self.cache[key]

    def input_raw(self, inp):
        self.input_file(inp)
        return self.raw[canon(inp)]

    def fresh(self):
        self.n += 1
        return os.path.join(self.root, f"out{self.n}.cool")


# --------------------------------------------------------------------- implementation
def _merge_api(out, uris, case):
    import cooler
    kw = {}
    if case.get("columns") is not None:
        kw["columns"] = list(case["columns"])
    if case.get("dtypes"):
        kw["dtypes"] = {c: G.np_dtype(b) for c, b in case["dtypes"].items()}
    if case.get("agg"):
        kw["agg"] = {c: CALLABLES.get(a, a) for c, a in case["agg"].items()}
    if case.get("mode_a"):
        kw["mode"] = "a"
    cooler.merge_coolers(out, uris, mergebuf=case["mergebuf"], **kw)


def _merge_cli(out, uris, case):
    from click.testing import CliRunner
    from cooler.cli import cli
    args = ["merge", out] + list(uris)
    if not case.get("default_chunksize"):
        args += ["-c", str(case["mergebuf"])]
    if case.get("mode_a"):
        args.append("--append")
    if case.get("columns") is not None:
        for c in case["columns"]:
            props = []
            if c in (case.get("dtypes") or {}):
                props.append("dtype=" + np.dtype(G.np_dtype(case["dtypes"][c])).name)
            if c in (case.get("agg") or {}):
                props.append("agg=" + case["agg"][c])
            args += ["--field", c + (":" + ",".join(props) if props else "")]
    res = CliRunner().invoke(cli, args)
    if res.exit_code != 0:
        if res.exception is not None and not isinstance(res.exception, SystemExit):
            raise res.exception
        raise RuntimeError("cli exit %s" % res.exit_code)


def impl_run(ws, case, limit=20.0):
    """returns the canonical observable of the merged cooler or an exception-class string"""
    paths = [ws.input_file(inp) for inp in case["inputs"]]
    for inp_ in case["inputs"]:
        if canon(inp_) in ws.broken:
            return ws.broken[canon(inp_)]
    tree = case.get("tree") or list(case.get("order") or range(len(paths)))
    merge = _merge_cli if case.get("via") == "cli" else _merge_api
    made = []

    keep = {}

    def ev(node, top=False):
        if isinstance(node, int):
            return paths[node]
        uris = [ev(ch) for ch in node]
        out = ws.fresh()
        made.append(out)
        if top and case.get("mode_a"):
            # the output file already holds another cooler, which must survive the appended merge
            G.write_cooler(out + "::/keep/me", "A3", True, C32, [[0, 1, [7]], [2, 2, [1]]])
            keep["before"] = G.read_raw(out + "::/keep/me")
        if top and case.get("out_group"):
            out = out + "::" + case["out_group"]
        merge(out, uris, case)
        return out
    try:
        with warnings.catch_warnings():
            warnings.simplefilter("ignore")
            with G.time_limit(limit):
                out = ev(tree, top=True)
                want = case["columns"] if case.get("columns") is not None else ["count"]
                raw = G.read_raw(out, want)
                obs = G.obs_of_raw(raw)
                if case.get("mode_a"):
                    obs["kept"] = G.read_raw(out.split("::")[0] + "::/keep/me") == keep["before"]
                if case.get("check_bins"):
                    obs["bins_cols"] = raw["bins_cols"]
        return obs
    except BaseException as e:  # noqa: BLE001  (a crash/timeout is a result to compare)
        if isinstance(e, (KeyboardInterrupt, SystemExit)):
            raise
        return G.classify(e)
    finally:
        for p in made:
            p = p.split("::")[0]
            if os.path.exists(p):
                os.remove(p)


# --------------------------------------------------------------------- model expression
def _opts(case):
    cols = case.get("columns")
    cl = "None" if cols is None else "(Some %s)" % C.zl([G.COL_TOK[c] for c in cols])
    dt = C.lst([C.tup(C.z(G.COL_TOK[c]), C.z(b)) for c, b in sorted((case.get("dtypes") or {}).items())])
    ag = C.lst([C.tup(C.z(G.COL_TOK[c]), G.AGG_COQ[a]) for c, a in sorted((case.get("agg") or {}).items())])
    return f"{C.z(case['mergebuf'])} {cl} {dt} {ag}"


def model_expr(ws, case):
    lits = [G.coq_cooler(inp["ax"], ws.input_raw(inp)) for inp in case["inputs"]]
    tree = case.get("tree") or list(case.get("order") or range(len(lits)))
    opts = _opts(case)
    counter = [0]

    def ev(node, k):
        """k: function from a Coq term naming the cooler to the rest of the expression"""
        if isinstance(node, int):
            return k(lits[node])
        names = []

        def chain(i):
            if i == len(node):
                counter[0] += 1
                r = f"r{counter[0]}"
                return f"bind (merge_coolers {C.lst(names)} {opts}) (fun {r} => {k(r)})"
            return ev(node[i], lambda t: (names.append(t), chain(i + 1))[1])
        return chain(0)
    return "observe (" + ev(tree, lambda t: f"Ok {t}") + ")"


# --------------------------------------------------------------------- oracle
def _axes_equal(a, b):
    return G.AXES[a] == G.AXES[b]


def _fits(tok, v):
    """does the exact aggregate v fit the output dtype token?"""
    if isinstance(tok, int):
        return isinstance(v, int) and -2 ** (tok - 1) <= v <= 2 ** (tok - 1) - 1
    if tok.startswith("u"):
        return isinstance(v, int) and 0 <= v <= 2 ** int(tok[1:]) - 1
    return True        # float output (values are small multiples of 0.5: exact)


def modelled(case):
    """the Gallina model covers signed integer value columns; other dtypes are checked against the oracle only"""
    toks = [b for i in case["inputs"] for _, b in i["cols"]] + list((case.get("dtypes") or {}).values())
    return all(G.is_signed_int(t) for t in toks) and all(a in MODEL_AGGS for a in (case.get("agg") or {}).values())


def oracle(case):
    """expected observable by exact integer arithmetic, or 'refuse'.  Also returns whether some exact
    aggregate leaves the int64 range (signature of the known finding)."""
    cols_req = case["columns"] if case.get("columns") is not None else ["count"]
    agg = {c: "sum" for c in cols_req}
    agg.update(case.get("agg") or {})
    flags = {"i64": False, "tot64": False, "f2i": False}

    def leaf(inp):
        names = [c for c, _ in inp["cols"]]
        return {"ax": inp["ax"], "symm": bool(inp["symm"]), "bits": {c: b for c, b in inp["cols"]},
                "tab": {(p[0], p[1]): {c: p[2][names.index(c)] for c in names} for p in inp["px"]}}

    def node(nd):
        if isinstance(nd, int):
            return leaf(case["inputs"][nd])
        kids = [node(ch) for ch in nd]
        if any(k == "refuse" for k in kids) or not kids:
            return "refuse"
        k0 = kids[0]
        if any(k["symm"] != k0["symm"] or not _axes_equal(k["ax"], k0["ax"]) for k in kids):
            return "refuse"
        if any(c not in k["bits"] for k in kids for c in cols_req):
            return "refuse"
        # output dtype: the caller's entry for that column, else numpy's common type of the inputs
        bits = {c: (case.get("dtypes") or {}).get(c, G.tok_of(np.result_type(*[G.np_dtype(k["bits"][c]) for k in kids])))
                for c in cols_req}
        tab = {}
        for k in kids:
            for key, row in k["tab"].items():
                tab.setdefault(key, []).append(row)
        out = {}
        for key, rows in tab.items():
            o = {}
            for c in cols_req:
                vs = [r[c] for r in rows]
                v = AGG_REF[agg[c]](vs)
                if isinstance(v, int) and not (I64[0] <= v <= I64[1]):
                    flags["i64"] = True
                if isinstance(v, float) and not str(bits[c]).startswith("f"):
                    # a float-valued aggregate headed for an integer column (pandas hands float data to write_pixels,
                    # which the integer fit check does not look at): exact only if it is integral AND inside the dtype;
                    # anything else must be refused -- finding D32 (same root cause for all three)
                    if v == v and v == int(v) and _fits(bits[c], int(v)):
                        v = int(v)
                    else:
                        flags["f2i"] = True
                        return "refuse"
                if not _fits(bits[c], v):
                    return "refuse"
                o[c] = float(v) if str(bits[c]).startswith("f") else v
            out[key] = o
        if "count" in cols_req and not flags["i64"]:
            # "its recorded total is the sum of the input totals": a total that cannot be recorded must be an error
            tot = sum(o["count"] for o in out.values())
            if isinstance(tot, int) and not isinstance(tot, bool) and not (I64[0] <= tot <= I64[1]):
                flags["tot64"] = True
                return "refuse"
        return {"ax": k0["ax"], "symm": k0["symm"], "bits": bits, "tab": out}

    tree = case.get("tree") or list(case.get("order") or range(len(case["inputs"])))
    r = node(tree)
    sig = SIG_I64 if flags["i64"] else (SIG_TOT if flags["tot64"] else (SIG_F2I if flags["f2i"] else None))
    if r == "refuse":
        return "refuse", sig
    keys = sorted(r["tab"])
    n = G.nbins(r["ax"])
    px = [[i, j, [r["tab"][(i, j)][c] for c in cols_req]] for (i, j) in keys]
    off = [sum(1 for (i, _) in keys if i < b) for b in range(n + 1)]
    exp = {"symm": r["symm"], "cols": [[c, r["bits"][c]] for c in cols_req], "off": off, "px": px,
           "nnz": len(px), "bins": G.expected_bins(r["ax"]), "bins_extra": {}}      # extra bin columns of the inputs are not transferred
    if "count" in cols_req:
        if agg["count"] == "sum":
            # "its recorded total is the sum of the input totals" (leaves of the merge tree, with multiplicity)
            leaves = []

            def walk(nd):
                if isinstance(nd, int):
                    leaves.append(nd)
                else:
                    for ch in nd:
                        walk(ch)
            walk(tree)
            exp["sum"] = sum(p[2][[c for c, _ in case["inputs"][i]["cols"]].index("count")]
                             for i in leaves for p in case["inputs"][i]["px"])
        else:
            exp["sum"] = sum(p[2][cols_req.index("count")] for p in px)
    else:
        exp["sum"] = 0
    return exp, sig


def verdict(ctx, case, got, exp, i64):
    """property oracle on the implementation's outcome"""
    if isinstance(got, str) and got.startswith("input-not-writable"):
        ctx.fail(case, {"an input cooler with in-range values could not be created": got}, None)
        return False
    if exp == "refuse":
        if isinstance(got, dict):
            ctx.fail(case, {"expected": "refusal (error)", "got": got}, i64)
            return False
        if got == "timeout":
            ctx.fail(case, {"expected": "refusal (error)", "got": got}, None)
            return False
        return True
    if not same(got, exp):
        ctx.fail(case, {"expected": exp, "got": got}, None)
        return False
    return True


# --------------------------------------------------------------------- case generation
def inp(ax, symm, cols, px, **rep):
    d = {"ax": ax, "symm": bool(symm), "cols": [list(c) for c in cols], "px": [[p[0], p[1], list(p[2])] for p in px]}
    d.update(rep)          # representation: group="/a/b" (inside a multi-group file), bins_extra=True
    return d


def mk(inputs, mergebuf, **kw):
    c = {"fn": "merge", "via": kw.pop("via", "api"), "inputs": inputs, "mergebuf": int(mergebuf)}
    for k in ("columns", "dtypes", "agg", "order", "tree", "mode_a", "out_group", "check_bins", "default_chunksize"):
        if kw.get(k) is not None:
            c[k] = kw[k]
    return c


C32 = [("count", 32)]


def corpus_cases():
    cs = []
    e = inp("A4", True, C32, [])
    # D16: all-empty inputs
    for k in (1, 2, 3):
        for b in (1, 3):
            cs.append(("corpus:D16-empty", mk([e] * k, b)))
    # D16: leading empty rows, bin1_offset = [0,0,2,3,4], mergebuf = 1
    le = inp("A4", True, C32, [(1, 1, [2]), (1, 2, [3]), (2, 2, [1]), (3, 3, [4])])
    cs.append(("corpus:D16-leading", mk([le], 1)))
    cs.append(("corpus:D16-leading", mk([le, le], 1)))
    cs.append(("corpus:D16-leading", mk([e, le], 1)))
    cs.append(("corpus:D16-leading", mk([le, inp("A4", True, C32, [(3, 3, [1])])], 1)))
    # D10: int32 limit must raise, not saturate
    big = inp("A4", True, C32, [(0, 1, [2 ** 31 - 1]), (1, 2, [5])])
    big2 = inp("A4", True, C32, [(0, 1, [2 ** 31 - 1]), (2, 2, [7])])
    cs.append(("corpus:D10", mk([big, big2], 10)))
    cs.append(("corpus:D10", mk([big, big2], 1)))
    cs.append(("limits", mk([big, inp("A4", True, C32, [(0, 1, [1])])], 2)))
    cs.append(("limits", mk([big, inp("A4", True, C32, [(0, 1, [0]), (0, 2, [1])])], 2)))        # exactly the limit: fits
    cs.append(("limits", mk([big, inp("A4", True, C32, [(0, 1, [-1])])], 2)))
    cs.append(("limits", mk([inp("A4", True, C32, [(0, 1, [-2 ** 31])]), inp("A4", True, C32, [(0, 1, [-1])])], 2)))
    cs.append(("limits", mk([big, big2], 3, dtypes={"count": 64})))                             # widened by the caller: fits
    cs.append(("limits", mk([big, big2], 3, agg={"count": "max"})))                              # max never overflows
    c8 = [("count", 8)]
    cs.append(("limits", mk([inp("A4", False, c8, [(2, 0, [100])]), inp("A4", False, c8, [(2, 0, [27])])], 1)))
    cs.append(("limits", mk([inp("A4", False, c8, [(2, 0, [100])]), inp("A4", False, c8, [(2, 0, [28])])], 1)))
    cs.append(("limits", mk([inp("A4", False, c8, [(2, 0, [100])]), inp("A4", False, [("count", 16)], [(2, 0, [28])])], 1)))  # result_type widens
    cs.append(("limits", mk([inp("A4", True, C32, [(0, 0, [300])]), inp("A4", True, C32, [(1, 1, [5])])], 4, dtypes={"count": 8})))
    cs.append(("limits", mk([inp("A4", True, C32, [(0, 0, [100])]), inp("A4", True, C32, [(0, 0, [27])])], 4, dtypes={"count": 8})))
    # int64: the known finding (exact sum leaves the int64 range) and its fitting neighbours
    c64 = [("count", 64)]
    h = inp("A4", True, c64, [(0, 1, [2 ** 62]), (1, 2, [5])])
    h2 = inp("A4", True, c64, [(0, 1, [2 ** 62]), (2, 2, [7])])
    cs.append(("finding:int64", mk([h, h2], 10)))
    # known finding D28: no pixel in common, every input total fits, the merged TOTAL leaves int64
    t1 = inp("A4", True, c64, [(0, 1, [2 ** 62])])
    t2 = inp("A4", True, c64, [(1, 2, [2 ** 62]), (2, 2, [5])])
    cs.append(("finding:int64-total", mk([t1, t2], 10)))
    cs.append(("finding:int64-total", mk([t1, t2], 1)))
    cs.append(("limits", mk([t1, inp("A4", True, c64, [(1, 2, [2 ** 62 - 1])])], 1)))                 # total exactly 2^63-1: fits
    cs.append(("limits", mk([inp("A4", True, c64, [(0, 1, [2 ** 62])]), inp("A4", True, c64, [(0, 1, [2 ** 62 - 1])])], 10)))
    cs.append(("limits", mk([h, inp("A4", True, c64, [(0, 1, [-2 ** 62])])], 10)))
    return cs


def small_scope_cases(rng, thorough):
    """every ordered pair of tables over 3 bins whose supports are subsets of 4 keys"""
    keys = [(0, 1), (1, 1), (1, 2), (2, 2)]
    tabs = []
    for mask in range(16):
        tabs.append([(k[0], k[1], [1 + i]) for i, k in enumerate(keys) if mask >> i & 1])
    pairs = list(itertools.product(range(16), repeat=2))
    if not thorough:
        pairs = rng.sample(pairs, 48)
    cs = []
    for a, b in pairs:
        n = len(tabs[a]) + len(tabs[b])
        bufs = range(1, n + 2) if thorough else (1, 2)
        for buf in bufs:
            cs.append(("small", mk([inp("A3", True, C32, tabs[a]), inp("A3", True, C32, tabs[b])], buf)))
    return cs


def family_inputs(rng, fam, ax, symm, cols, k):
    n = G.nbins(ax)
    nc = len(cols)
    lo = -5 if rng.random() < 0.3 else 0
    if fam == "empty":
        tabs = [[] if rng.random() < 0.6 else G.random_px(rng, n, symm, nc, 3, lo) for _ in range(k)]
    elif fam == "identical":
        t = G.random_px(rng, n, symm, nc, 6, lo)
        tabs = [t for _ in range(k)]
    elif fam == "disjoint":
        keys = G.all_keys(n, symm)
        rng.shuffle(keys)
        keys = keys[: rng.randint(0, min(len(keys), 3 * k))]
        tabs = [[] for _ in range(k)]
        for key in keys:
            tabs[rng.randrange(k)].append([key[0], key[1], [rng.randint(lo, 9) for _ in range(nc)]])
        tabs = [sorted(t) for t in tabs]
    elif fam == "leading":
        fr = rng.randint(1, n - 1)
        tabs = [G.random_px(rng, n, symm, nc, 5, lo, first_row=fr if (i == 0 or rng.random() < 0.7) else 0) for i in range(k)]
    else:  # overlapping
        tabs = [G.random_px(rng, n, symm, nc, 7, lo) for _ in range(k)]
    return [inp(ax, symm, cols, t) for t in tabs]


def sample_bufs(rng, nnz, m):
    allb = list(range(1, nnz + 2))
    pick = {1, nnz + 1}
    while len(pick) < min(m, len(allb)):
        pick.add(rng.choice(allb))
    return sorted(pick)


def random_opts(rng, cols):
    names = [c for c, _ in cols]
    kw = {}
    if len(names) == 1:
        kw["columns"] = rng.choice([None, ["count"]])
        if rng.random() < 0.25:
            kw["agg"] = {"count": rng.choice(["max", "min", "sum"])}
    else:
        kw["columns"] = rng.choice([None, ["count"], ["count", "x"], ["x", "count"], ["x"], ["count", "x"]])
        if kw["columns"] and "x" in kw["columns"] and rng.random() < 0.6:
            kw["agg"] = {"x": rng.choice(["max", "min", "sum"])}
    if kw.get("columns") and rng.random() < 0.2:
        c = rng.choice(kw["columns"])
        kw["dtypes"] = {c: rng.choice([8, 16, 32, 64])}
    return kw


def random_cases(rng, ncases, nbuf):
    cs = []
    fams = ["empty", "identical", "disjoint", "leading", "overlap"]
    for q in range(ncases):
        fam = fams[q % len(fams)]
        ax = rng.choice(["A4", "B5", "V4", "A6", "A3"])
        symm = rng.random() < 0.6
        cols = rng.choice([[("count", 32)], [("count", 32)], [("count", 32), ("x", 16)], [("count", 64), ("x", 32)], [("count", 16)]])
        k = rng.choice([1, 2, 2, 3, 3, 4, 5])
        ins = family_inputs(rng, fam, ax, symm, cols, k)
        if len(cols) == 1 and rng.random() < 0.2 and k >= 2:
            # mixed widths: result_type picks the widest
            j = rng.randrange(k)
            ins[j] = inp(ax, symm, [("count", rng.choice([8, 16, 64]))], [p for p in ins[j]["px"] if -128 <= p[2][0] <= 127])
        kw = random_opts(rng, cols)
        nnz = sum(len(i["px"]) for i in ins)
        for b in sample_bufs(rng, nnz, nbuf):
            cs.append(("random:" + fam, mk(ins, b, **kw)))
    return cs


def order_cases(rng, ncases):
    cs = []
    for _ in range(ncases):
        ax = rng.choice(["A4", "B5", "V4"])
        symm = rng.random() < 0.5
        cols = rng.choice([[("count", 32)], [("count", 32), ("x", 16)]])
        k = rng.choice([2, 3, 3])
        ins = family_inputs(rng, rng.choice(["overlap", "leading", "disjoint"]), ax, symm, cols, k)
        kw = random_opts(rng, cols)
        nnz = sum(len(i["px"]) for i in ins)
        b = rng.randint(1, nnz + 1)
        for perm in itertools.permutations(range(k)):
            cs.append(("orders", mk(ins, b, order=list(perm), **kw)))
    return cs


def nested_cases(rng, ncases):
    cs = []
    for _ in range(ncases):
        ax = rng.choice(["A4", "B5", "V4", "A6"])
        symm = rng.random() < 0.5
        cols = rng.choice([[("count", 32)], [("count", 32), ("x", 16)]])
        k = rng.choice([3, 3, 4])
        ins = family_inputs(rng, rng.choice(["overlap", "leading", "disjoint", "empty"]), ax, symm, cols, k)
        kw = random_opts(rng, cols)
        kw.pop("dtypes", None)
        nnz = sum(len(i["px"]) for i in ins)
        b = rng.randint(1, nnz + 1)
        trees = [[[0, 1], 2], [0, [1, 2]]] if k == 3 else [[[0, 1], [2, 3]], [[[0, 1], 2], 3]]
        cs.append(("nested", mk(ins, b, **kw)))
        for t in trees:
            cs.append(("nested", mk(ins, b, tree=t, **kw)))
    return cs


def incompatible_cases(rng):
    cs = []
    px = [(0, 1, [3]), (1, 1, [2]), (2, 3, [1])]
    px2 = [(0, 1, [1]), (1, 3, [4])]
    pairs = [("A4", "A4res"), ("A4", "A4res1"), ("A4", "A4len"), ("A4", "A4name"), ("A4", "A4var"), ("A4var", "A4"),
             ("V4", "V4edge"), ("V4", "V4len"), ("V4", "V4more"), ("V4", "V4name"), ("V4", "A4"), ("A4", "V4"), ("B5", "A6")]
    for a, b in pairs:
        for symm in (True, False):
            cs.append(("incompatible:axes", mk([inp(a, symm, C32, px), inp(b, symm, C32, px2)], rng.randint(1, 6))))
    # a third input that is incompatible, after two compatible ones
    cs.append(("incompatible:axes", mk([inp("A4", True, C32, px), inp("A4", True, C32, px2), inp("A4len", True, C32, px2)], 2)))
    cs.append(("incompatible:axes", mk([inp("V4", True, C32, px), inp("V4", True, C32, px2), inp("V4edge", True, C32, px2)], 2)))
    # storage modes
    for ax in ("A4", "V4"):
        cs.append(("incompatible:mode", mk([inp(ax, True, C32, px), inp(ax, False, C32, px2)], 3)))
        cs.append(("incompatible:mode", mk([inp(ax, False, C32, px), inp(ax, True, C32, px2)], 3)))
        cs.append(("incompatible:mode", mk([inp(ax, True, C32, px), inp(ax, True, C32, px2), inp(ax, False, C32, [])], 3)))
    # malformed stream: a requested column that one input lacks (compared with the model only)
    cs.append(("malformed:column", mk([inp("A4", True, [("count", 32), ("x", 16)], [(0, 1, [3, 1])]), inp("A4", True, C32, px2)], 2,
                                      columns=["count", "x"])))
    return cs


def cli_cases(rng):
    cs = []
    a = inp("B5", True, [("count", 32), ("x", 16)], [(0, 1, [3, -2]), (1, 1, [2, 7]), (3, 4, [1, 1])])
    b = inp("B5", True, [("count", 32), ("x", 16)], [(1, 1, [5, 9]), (2, 2, [1, 0]), (3, 4, [1, 4])])
    c = inp("B5", True, [("count", 32), ("x", 16)], [])
    cs.append(("cli", mk([a, b], 2, via="cli")))
    cs.append(("cli", mk([a, b, c], 1, via="cli")))
    cs.append(("cli", mk([a, b], 3, via="cli", columns=["count", "x"], agg={"x": "max"})))
    cs.append(("cli", mk([a, b, a], 2, via="cli", columns=["x", "count"], agg={"x": "min"}, dtypes={"count": 64})))
    cs.append(("cli", mk([c, c], 5, via="cli")))
    cs.append(("cli", mk([a, inp("B5", False, [("count", 32), ("x", 16)], [(1, 0, [1, 1])])], 2, via="cli")))
    big = inp("A4", True, C32, [(0, 1, [2 ** 31 - 1])])
    cs.append(("cli", mk([big, big], 2, via="cli")))
    cs.append(("cli", mk([inp("A4", True, C32, [(0, 1, [1])]), inp("A4len", True, C32, [(0, 1, [1])])], 2, via="cli")))
    return cs


def audit_cases(rng):
    """one cheap case per public parameter value / input representation / dtype that the families above do not
    reach (audit of merge_coolers, `cooler merge`, CoolerMerger); oracle = dict of sums, model where it applies"""
    cs = []
    c2 = [("count", 32), ("x", 16)]
    a = inp("B5", True, c2, [(0, 1, [3, -2]), (1, 1, [2, 7]), (3, 4, [1, 1])])
    b = inp("B5", True, c2, [(1, 1, [5, 9]), (2, 2, [1, 0]), (3, 4, [1, 4])])
    both = ["count", "x"]
    # dtypes: full dict, dict omitting a requested column (fallback to result_type), narrowing that fits / does not fit
    cs.append(("audit:dtypes", mk([a, b], 2, columns=both, dtypes={"count": 64, "x": 32})))
    cs.append(("audit:dtypes", mk([a, b], 2, columns=both, dtypes={"x": 64})))
    cs.append(("audit:dtypes", mk([a, b], 2, columns=both, dtypes={"count": 16})))
    cs.append(("audit:dtypes", mk([a, b], 2, columns=both, dtypes={"count": 8, "x": 8})))
    cs.append(("audit:dtypes", mk([a, b], 1, columns=both, dtypes={"x": 8})))                                  # 7 + 9 fits int8
    cs.append(("audit:dtypes", mk([a, inp("B5", True, c2, [(1, 1, [5, 127])])], 1, columns=both, dtypes={"x": 8})))   # 7 + 127 does not
    cs.append(("audit:dtypes", mk([a, b], 3, columns=both, dtypes={"count": "f64"})))                         # float output for an int column
    cs.append(("audit:dtypes", mk([a, b], 3, columns=["x"], dtypes={"x": "f32"}, agg={"x": "max"})))
    cs.append(("audit:dtypes", mk([a, b], 3, dtypes={"count": "u16"})))                                       # unsigned output
    cs.append(("audit:dtypes", mk([a, b], 3, columns=both, dtypes={"x": "u8"})))                              # -2 does not fit uint8
    # agg: full dict, partial dict, explicit sum
    cs.append(("audit:agg", mk([a, b, a], 2, columns=both, agg={"count": "sum", "x": "max"})))
    cs.append(("audit:agg", mk([a, b, a], 2, columns=both, agg={"count": "min", "x": "min"})))
    cs.append(("audit:agg", mk([a, b], 4, columns=["x", "count"], agg={"count": "max"})))
    # input value dtypes: unsigned and float, mixed with signed (np.result_type decides the output)
    u8 = [("count", "u8")]
    cs.append(("audit:in-dtype", mk([inp("A4", True, u8, [(0, 1, [200]), (1, 1, [3])]), inp("A4", True, u8, [(0, 1, [55]), (2, 3, [9])])], 1)))
    cs.append(("audit:in-dtype", mk([inp("A4", True, u8, [(0, 1, [200])]), inp("A4", True, u8, [(0, 1, [56])])], 1)))            # 256 leaves uint8
    cs.append(("audit:in-dtype", mk([inp("A4", True, u8, [(0, 1, [200])]), inp("A4", True, [("count", 8)], [(0, 1, [100]), (1, 2, [-3])])], 2)))   # -> int16
    cs.append(("audit:in-dtype", mk([inp("A4", False, [("count", "u16")], [(3, 0, [60000])]), inp("A4", False, [("count", "u32")], [(3, 0, [70000])])], 2)))
    cs.append(("audit:in-dtype", mk([inp("A4", True, [("count", "u32")], [(0, 0, [4000000000])]), inp("A4", True, C32, [(0, 0, [-5])])], 2)))      # -> int64
    cs.append(("audit:in-dtype", mk([inp("A4", True, [("count", "u32")], [(0, 0, [4000000000])]), inp("A4", True, [("count", "u32")], [(0, 0, [400000000])])], 2)))   # leaves uint32
    fx = [("count", 32), ("x", "f64")]
    fa = inp("A4", True, fx, [(0, 1, [1, 0.5]), (1, 2, [2, 1.5])])
    fb = inp("A4", True, fx, [(0, 1, [4, 2.5]), (3, 3, [1, -0.5])])
    cs.append(("audit:in-dtype", mk([fa, fb], 1, columns=["count", "x"])))
    cs.append(("audit:in-dtype", mk([fa, fb, fa], 2, columns=["x"], agg={"x": "max"})))
    cs.append(("audit:in-dtype", mk([inp("A4", True, [("count", "f32")], [(0, 1, [1.5])]), inp("A4", True, [("count", "f64")], [(0, 1, [2.25]), (2, 2, [8.0])])], 3)))
    cs.append(("audit:in-dtype", mk([fa, inp("A4", True, [("count", 32), ("x", 16)], [(0, 1, [1, 3])])], 2, columns=["count", "x"])))  # float + int column
    # input representation: bin tables with extra columns; inputs addressed by URI inside one multi-group file
    wa = inp("B5", True, C32, [(0, 1, [3]), (1, 1, [2])], bins_extra=True)
    wb = inp("B5", True, C32, [(1, 1, [5]), (4, 4, [1])])
    cs.append(("audit:bins-extra", mk([wa, wb], 2, check_bins=True)))
    cs.append(("audit:bins-extra", mk([wb, wa], 2, check_bins=True)))
    ga = inp("V4", True, C32, [(0, 1, [3]), (1, 1, [2])], group="/resolutions/10")
    gb = inp("V4", True, C32, [(1, 1, [5]), (2, 3, [1])], group="/a/b/c")
    gc = inp("V4", True, C32, [(0, 3, [4])])
    cs.append(("audit:uri", mk([ga, gb], 1)))
    cs.append(("audit:uri", mk([gc, ga, gb], 2, out_group="/merged/x")))
    cs.append(("audit:uri", mk([ga, gb], 2, via="cli", out_group="/m")))
    # mode: append into a file that already holds another cooler (API mode="a", CLI --append)
    cs.append(("audit:mode", mk([a, b], 2, mode_a=True, out_group="/new")))
    cs.append(("audit:mode", mk([a, b], 2, mode_a=True, out_group="/new", via="cli")))
    cs.append(("audit:mode", mk([a, b], 2, out_group="/only")))
    # CLI: default chunk size (20e6), --field with dtype / agg properties
    cs.append(("audit:cli", mk([a, b], 20000000, via="cli", default_chunksize=True)))
    cs.append(("audit:cli", mk([a, b], 2, via="cli", columns=both, dtypes={"count": "f64", "x": 32}, agg={"x": "sum"})))
    cs.append(("audit:cli", mk([a, b], 2, via="cli", columns=["x"], dtypes={"x": 8})))
    # mergebuf 0 and negative are outside the documented domain; a huge one is the default
    cs.append(("audit:mergebuf", mk([a, b, a], 10 ** 9)))
    return cs


AGG_KINDS = ["sum", "mean", "min", "max", "first", "last", "size", "count", "nunique", "var", "std", "median", "prod",
             "callable:range", "callable:sumsq"]


def agg_support_families(rng):
    """input families that decide which merge epochs see one / several / no input: disjoint row supports,
    partially overlapping, identical, an EMPTY input among the inputs, k = 1, k = 4"""
    c2 = [("count", 32), ("x", 16)]
    n = G.nbins("A6")
    keys = G.all_keys(n, True)

    def tab(ks):
        return [[i, j, [rng.randint(1, 9), rng.randint(-5, 9)]] for (i, j) in sorted(ks)]
    fams = {}
    k = 3
    fams["disjoint-rows"] = [tab([q for q in rng.sample(keys, 12) if q[0] % k == i]) for i in range(k)]
    fams["overlap"] = [tab(rng.sample(keys, rng.randint(3, 7))) for _ in range(3)]
    same_keys = rng.sample(keys, 5)
    fams["identical"] = [tab(same_keys)] * 2
    fams["with-empty"] = [tab(rng.sample(keys, 5)), [], tab(rng.sample(keys, 4))]
    fams["k1"] = [tab(rng.sample(keys, 6))]
    fams["k4"] = [tab(rng.sample(keys, rng.randint(2, 6))) for _ in range(4)]
    return {nm: [inp("A6", True, c2, t) for t in tabs] for nm, tabs in fams.items()}


def agg_cases(rng, thorough):
    """every kind of aggregate pandas accepts in `agg`, for count and for an extra column, over the support families,
    with mergebuf 1, a middle value and > nnz (the result must not depend on it)"""
    cs = []
    fams = agg_support_families(rng)
    for ai, a in enumerate(AGG_KINDS):
        for fi, (fam, ins) in enumerate(fams.items()):
            variant = (ai + fi) % 4
            if variant == 0:
                columns, agg = None, {"count": a}
            elif variant == 1:
                columns, agg = ["count", "x"], {"x": a}
            elif variant == 2:
                columns, agg = ["x"], {"x": a}
            else:
                columns, agg = ["x", "count"], {"count": a, "x": "sum"}
            # a float-valued aggregate gets a float output column (the sensible call; the integer default is the finding below)
            dtypes = {c: "f64" for c, f in agg.items() if f in FLOAT_AGGS} or None
            nnz = sum(len(i["px"]) for i in ins)
            bufs = sorted({1, max(2, nnz // 2), nnz + 1}) if thorough else sorted({1, rng.choice([2, 3, max(2, nnz // 2)]), nnz + 1})
            for b in bufs:
                cs.append(("agg:" + a.split(":")[0], mk(ins, b, columns=columns, agg=agg, dtypes=dtypes)))
    # CLI spelling of a few
    ins = fams["disjoint-rows"]
    cs.append(("agg:cli", mk(ins, 1, via="cli", columns=["count", "x"], agg={"count": "size", "x": "mean"}, dtypes={"x": "f64"})))
    cs.append(("agg:cli", mk(ins, 3, via="cli", columns=["x"], agg={"x": "nunique"})))
    # REAL defect (reported): float-valued aggregates into the default integer columns are truncated silently
    a = inp("A4", True, [("count", 32), ("x", 16)], [(0, 1, [3, 5]), (1, 2, [5, -2]), (2, 2, [1, 4])])
    b = inp("A4", True, [("count", 32), ("x", 16)], [(0, 1, [4, 5]), (2, 2, [7, 9]), (3, 3, [2, 1])])
    c = inp("A4", True, [("count", 32), ("x", 16)], [(0, 1, [4, 6])])
    cs.append(("finding:float-into-int", mk([a, b, c], 2, columns=["count", "x"], agg={"count": "mean", "x": "mean"})))
    cs.append(("finding:float-into-int", mk([a, b, c], 2, columns=["count", "x"], agg={"x": "var"})))
    cs.append(("limits", mk([a, a], 2, columns=["count", "x"], agg={"count": "mean", "x": "median"})))       # integral means: exact in int columns
    # same root cause, integral but out of range: mean of x = 200, 200 into int8 is stored as 127; -2.0 into uint8 as 0
    h1 = inp("A4", True, [("count", 32), ("x", 16)], [(0, 1, [3, 200]), (1, 2, [5, -2])])
    h2 = inp("A4", True, [("count", 32), ("x", 16)], [(0, 1, [4, 200]), (2, 2, [7, 9])])
    cs.append(("finding:float-into-int", mk([h1, h2], 5, columns=["count", "x"], agg={"x": "mean"}, dtypes={"x": 8})))
    cs.append(("finding:float-into-int", mk([h1, h2], 5, columns=["count", "x"], agg={"x": "mean"}, dtypes={"x": "u8"})))
    cs.append(("limits", mk([h1, h2], 5, columns=["count", "x"], agg={"x": "sum"}, dtypes={"x": 8})))        # integer data: refused (D10 fix)
    cs.append(("limits", mk([h1, h2], 5, columns=["count", "x"], agg={"x": "mean"}, dtypes={"x": 16})))      # 200.0 fits int16: exact
    return cs


def layout_dtype_cases(rng):
    """the same input set laid out as separate files and as GROUPS OF ONE FILE, in every input order, with value dtypes
    MIXED across the inputs (int32 / int64 / float32 / float64; float values are non-integral multiples of 0.25 so that a
    truncation shows), with and without a dtypes override that cannot lose information; the merged cooler must be the exact
    aggregate in the common result dtype, identical for both layouts and every order"""
    cs = []
    keys = G.all_keys(G.nbins("A4"), True)

    def table(cols, shared):
        # two pixels shared by all inputs of the set, three of its own
        ks = sorted(shared + rng.sample([k for k in keys if k not in shared], 3))
        return [[k[0], k[1], [(rng.randint(1, 30) / 4.0 + 0.25 * (1 + rng.randint(0, 2)) if str(t).startswith("f") else rng.randint(1, 9))
                              for _, t in cols]] for k in ks]
    sets = [
        ("i32+f64", [[("count", 32)], [("count", "f64")]], [None, {"count": "f64"}]),
        ("i32+i64", [[("count", 32)], [("count", 64)]], [None, {"count": 64}]),
        ("f32+i32+f64", [[("count", "f32")], [("count", 32)], [("count", "f64")]], [None]),
        ("two-columns", [[("count", 32), ("x", "f64")], [("count", "f64"), ("x", 16)]], [None]),
    ]
    for sno, (name, colsets, overrides) in enumerate(sets):
        shared = rng.sample(keys, 2)
        tabs = [table(cols, shared) for cols in colsets]
        columns = ["count", "x"] if name == "two-columns" else None
        for layout in ("files", "groups"):
            ins = [inp("A4", True, cols, t, **({"group": f"/lay{sno}/in{i}"} if layout == "groups" else {}))
                   for i, (cols, t) in enumerate(zip(colsets, tabs))]
            for ov in overrides:
                for perm in itertools.permutations(range(len(ins))):
                    cs.append(("layout:" + name, mk(ins, rng.choice([1, 3, 50]), order=list(perm), dtypes=ov, columns=columns)))
    return cs


def first_leaf(case):
    nd = case.get("tree") or list(case.get("order") or range(len(case["inputs"])))
    while not isinstance(nd, int):
        nd = nd[0]
    return nd


# --------------------------------------------------------------------- history pass: state carried between calls
# (the dtypes dict of the caller used to be mutated by merge_coolers: repaired by dd39f70, kept below as a regression step)


class _RawOf:
    """adapter for model_expr: the model gets what is in the (rewritten) files NOW"""
    def __init__(self, raws):
        self.raws = raws

    def input_raw(self, inp):
        return self.raws[canon(inp)]


def history_steps():
    """ONE process, the SAME input URIs / the SAME output path / the SAME argument objects across consecutive calls, the
    files behind the URIs rewritten in between (same and different bin table, nnz, dtypes; coolers as groups of one file)"""
    c2 = [("count", 32), ("x", 16)]
    c64 = [("count", 64), ("x", 16)]
    t1 = [(0, 1, [3]), (1, 1, [2]), (2, 3, [1])]
    t2 = [(0, 1, [1]), (1, 3, [4])]
    t3 = [(0, 0, [5]), (0, 1, [1]), (0, 3, [2]), (1, 1, [1]), (1, 2, [6]), (2, 2, [2]), (3, 3, [9])]
    t4 = [(0, 2, [7]), (1, 1, [1]), (1, 2, [1]), (2, 3, [3]), (3, 3, [1])]
    t6a = [(0, 5, [1]), (2, 2, [2]), (4, 5, [3]), (5, 5, [4])]
    t6b = [(0, 5, [2]), (1, 1, [5]), (4, 4, [1])]
    x1 = [(0, 1, [3, 5]), (1, 2, [5, -2])]
    x2 = [(0, 1, [4, 6]), (2, 2, [7, 9])]
    S = []
    # ---- plain files in0/in1 (+ the same list object of URIs, the same output path)
    S.append(dict(slot="files", inputs=[inp("A4", True, C32, t1), inp("A4", True, C32, t2)], mergebuf=2))
    S.append(dict(slot="files", inputs=None, mergebuf=2, seq="tuple"))                       # nothing rewritten, same objects again
    S.append(dict(slot="files", inputs=[inp("A4", True, C32, t3), inp("A4", True, C32, t4)], mergebuf=2))      # other nnz, same names and mergebuf
    S.append(dict(slot="files", inputs=[inp("V4", True, C32, t1), inp("V4", True, C32, t4)], mergebuf=2))      # other bin table, same nbins
    S.append(dict(slot="files", inputs=[inp("A6", True, C32, t6a), inp("A6", True, C32, t6b)], mergebuf=2))    # other nbins
    S.append(dict(slot="files", inputs=[inp("A4len", False, C32, t2), inp("A4len", False, C32, [(3, 0, [2])])], mergebuf=2))   # other lengths, other storage mode
    S.append(dict(slot="files", inputs=[None, inp("A4", False, C32, t1)], mergebuf=2))       # only in1 rewritten: now incompatible with in0
    S.append(dict(slot="files", inputs=[inp("A4", True, C32, t1), inp("A4", True, C32, t2)], mergebuf=2, via="cli"))
    S.append(dict(slot="files", inputs=[inp("A4", True, C32, t4), None], mergebuf=2, via="cli"))
    # ---- the same columns list / agg dict / dtypes dict OBJECTS for consecutive calls over rewritten inputs
    S.append(dict(slot="files", inputs=[inp("A4", True, c2, x1), inp("A4", True, c2, x2)], mergebuf=1,
                  columns=["count", "x"], agg={"x": "max"}, dtypes={"x": 64}, objs="K1"))
    S.append(dict(slot="files", inputs=[inp("A4", True, c2, x2), inp("A4", True, c2, x1)], mergebuf=1,
                  columns=["count", "x"], agg={"x": "max"}, dtypes={"x": 64}, objs="K1"))    # same common dtypes: the carried entry is harmless
    S.append(dict(slot="files", inputs=[inp("A4", True, c64, [(0, 1, [2 ** 40, 5])]), inp("A4", True, c64, x2)], mergebuf=1,
                  columns=["count", "x"], agg={"x": "max"}, dtypes={"x": 64}, objs="K1", carried=True))   # count is int64 now
    # ---- several coolers as groups of ONE file, plus in2
    S.append(dict(slot="groups", inputs=[inp("A4", True, C32, t1), inp("A4", True, C32, t2), inp("A4", True, C32, t4)], mergebuf=1))
    S.append(dict(slot="groups", inputs=[inp("A4", True, C32, t3), None, None], mergebuf=1))                  # one group rewritten
    S.append(dict(slot="groups", inputs=None, mergebuf=3, seq="tuple"))
    S.append(dict(slot="groups", inputs=[inp("B5", True, c2, [(0, 4, [1, 1]), (2, 2, [2, 2])]), inp("B5", True, c2, [(0, 4, [5, 5])]),
                                         inp("B5", True, c2, [(1, 1, [1, 0]), (2, 2, [1, 1]), (4, 4, [3, 3])])], mergebuf=1, columns=["x", "count"]))
    return S


def history_pass(ctx, root):
    import cooler
    from click.testing import CliRunner
    from cooler.cli import cli
    hroot = os.path.join(root, "history")
    os.makedirs(hroot, exist_ok=True)
    multi = os.path.join(hroot, "multi.mcool")
    slots = {"files": [os.path.join(hroot, "in0.cool"), os.path.join(hroot, "in1.cool")],
             "groups": [multi + "::/g/a", multi + "::/g/b", os.path.join(hroot, "in2.cool")]}
    out = os.path.join(hroot, "out.cool")
    current = {k: [None] * len(v) for k, v in slots.items()}      # what is stored behind each URI now
    objs = {}
    done = []
    for step_no, st in enumerate(history_steps()):
        uris = slots[st["slot"]]                                  # the SAME list object every time
        try:
            with warnings.catch_warnings():
                warnings.simplefilter("ignore")
                with G.time_limit(30.0):
                    for i, new in enumerate(st["inputs"] or []):
                        if new is None:
                            continue
                        mode = "a" if ("::" in uris[i] and os.path.exists(multi)) else "w"
                        G.write_cooler(uris[i], new["ax"], new["symm"], [tuple(c) for c in new["cols"]], new["px"], mode=mode)
                        current[st["slot"]][i] = new
                    ins = list(current[st["slot"]])
                    case = mk(ins, st["mergebuf"], via=st.get("via", "api"), columns=st.get("columns"), dtypes=st.get("dtypes"), agg=st.get("agg"))
                    case["history_step"] = step_no
                    if st.get("carried"):
                        case["dtypes_object_reused_from_narrower_merge"] = True
                    raws = {canon(i_): G.read_raw(u, [c for c, _ in i_["cols"]]) for i_, u in zip(ins, uris)}
                    seq = tuple(uris) if st.get("seq") == "tuple" else uris
                    if st.get("via") == "cli":
                        _merge_cli(out, list(seq), case)
                    else:
                        kw = {}
                        if st.get("objs"):        # the same columns / agg / dtypes objects as in the previous call of that key
                            o = objs.setdefault(st["objs"], {"columns": list(st["columns"]), "agg": dict(st["agg"]),
                                                             "dtypes": {c: G.np_dtype(b) for c, b in st["dtypes"].items()}})
                            kw = {"columns": o["columns"], "agg": o["agg"], "dtypes": o["dtypes"]}
                        elif st.get("columns"):
                            kw["columns"] = tuple(st["columns"]) if step_no % 2 else list(st["columns"])
                        snap = (list(seq), {k: (dict(v) if isinstance(v, dict) else list(v)) for k, v in kw.items()})
                        cooler.merge_coolers(out, seq, mergebuf=st["mergebuf"], **kw)
                        unchanged = snap == (list(seq), {k: (dict(v) if isinstance(v, dict) else list(v)) for k, v in kw.items()})
                    want = case["columns"] if case.get("columns") is not None else ["count"]
                    got = G.obs_of_raw(G.read_raw(out, want))
                    if st.get("via") != "cli":
                        got["caller_args_unchanged"] = unchanged      # D34 (repaired): the caller's dtypes dict was written to
        except BaseException as e:  # noqa: BLE001
            if isinstance(e, (KeyboardInterrupt, SystemExit)):
                raise
            got = G.classify(e)
        done.append((case, raws, got))
    exprs = [model_expr(_RawOf(raws), case) for case, raws, _ in done if modelled(case)]
    mvals = iter(C.coq_eval(G.IMPORTS, exprs, tmpdir=ctx.tmp / "hist", jobs=2))
    for case, raws, got in done:
        exp, sig = oracle(case)
        ctx.case(case, nontrivial=True, kind="history")
        if isinstance(exp, dict) and case.get("via") != "cli":
            exp["caller_args_unchanged"] = True
        if modelled(case):
            mod = G.parse_obs(next(mvals))
            if isinstance(mod, dict):
                mod["bins"] = G.expected_bins(case["inputs"][0]["ax"])
                mod["bins_extra"] = {}
                if case.get("via") != "cli":
                    mod["caller_args_unchanged"] = True
            ctx.compare("merge_coolers (history pass)", case, got, mod)
        verdict(ctx, case, got, exp, sig)


def nontrivial(case, exp):
    if exp == "refuse":
        return True
    seen, shared = set(), False
    for i in case["inputs"]:
        ks = {(p[0], p[1]) for p in i["px"]}
        shared = shared or bool(ks & seen)
        seen |= ks
    nnz = sum(len(i["px"]) for i in case["inputs"])
    return shared or (case["mergebuf"] < nnz and len(seen) > 1)


# --------------------------------------------------------------------- merge_breakpoints (function level)
def mono_arrays(L, maxinc):
    out = []
    for incs in itertools.product(range(maxinc + 1), repeat=L - 1):
        a = [0]
        for d in incs:
            a.append(a[-1] + d)
        out.append(a)
    return out


def impl_breakpoints(idxs, buf):
    from cooler._reduce import merge_breakpoints
    try:
        with warnings.catch_warnings():
            warnings.simplefilter("ignore")
            with G.time_limit(2.0):
                part, cum = merge_breakpoints([np.array(a, dtype=np.int64) for a in idxs], buf)
        return [[int(x) for x in part], [int(x) for x in cum]]
    except BaseException as e:  # noqa: BLE001
        if isinstance(e, (KeyboardInterrupt, SystemExit)):
            raise
        return G.classify(e)


def oracle_breakpoints(idxs, buf, got):
    """independent reading: a strictly increasing partition from 0 that covers every record, cumulative
    counts are the combined index at the breakpoints, an epoch exceeds bufsize only if it is a single row,
    and epochs are maximal (the next row would not have fitted)"""
    if not isinstance(got, list):
        return False
    part, cum = got
    ci = [sum(a[i] for a in idxs) for i in range(len(idxs[0]))]
    if not part or part[0] != 0 or any(b <= a for a, b in zip(part, part[1:])) or part[-1] >= len(ci):
        return False
    if ci[part[-1]] != ci[-1] or cum != [ci[p] for p in part]:
        return False
    for a, b in zip(part, part[1:]):
        if ci[b] - ci[a] > buf and b != a + 1:
            return False
    return True


def breakpoint_families(rng, thorough, small=False):
    fams = []
    for L in ((2, 3) if small else (2, 3, 4)):
        arrs = mono_arrays(L, 2)
        for a in arrs:
            fams.append([a])
        for a, b in itertools.product(arrs, repeat=2):
            fams.append([a, b])
    for _ in range(40 if small else 600 if thorough else 150):
        L = rng.randint(2, 9)
        k = rng.randint(1, 4)
        fam = []
        for _ in range(k):
            a = [0]
            for _ in range(L - 1):
                a.append(a[-1] + rng.choice([0, 0, 1, 1, 2, 3, 5, 8]))
            fam.append(a)
        fams.append(fam)
    # regression: leading empty rows / everything empty
    fams += [[[0, 0, 2, 3, 4]], [[0, 0, 0, 0]], [[0, 0, 0, 0], [0, 0, 0, 0]], [[0, 0, 0, 3]], [[0, 3, 3, 3]], [[0, 0]], [[0, 7]]]
    return fams


def parse_mb(v):
    if v[1] == "Err":
        return {"EFuel": "timeout", "EIndex": "IndexError", "EValue": "refused"}[v[2][1]]
    part, cum = v[2]
    return [list(part), list(cum)]


def run_breakpoints(ctx, small=False):
    fams = breakpoint_families(ctx.rng, ctx.tier == "thorough", small)
    exprs, metas = [], []
    for fam in fams:
        nnz = sum(a[-1] for a in fam)
        bufs = list(range(1, nnz + 2)) if nnz <= 12 else sorted({1, 2, 3, nnz // 2, nnz - 1, nnz, nnz + 1, ctx.rng.randint(1, nnz)})
        metas.append((fam, bufs))
        exprs.append("map (mb_observe %s) %s" % (C.lst([C.zl(a) for a in fam]), C.zl(bufs)))
    model = C.coq_eval(G.IMPORTS, exprs, tmpdir=ctx.tmp / "mb", jobs=4)
    timeouts = 0
    for (fam, bufs), mo in zip(metas, model):
        for buf, m in zip(bufs, mo):
            case = {"fn": "merge_breakpoints", "indexes": fam, "bufsize": buf}
            got = impl_breakpoints(fam, buf) if timeouts < 3 else "skipped-after-timeouts"
            if got == "timeout":
                timeouts += 1
            mod = parse_mb(m)
            ctx.case(case, nontrivial=isinstance(mod, list) and len(mod[0]) > 2, kind="merge_breakpoints")
            if got == "skipped-after-timeouts":
                continue
            ctx.compare("merge_breakpoints", case, got, mod)
            if not oracle_breakpoints(fam, buf, got):
                ctx.fail(case, {"got": got}, None)


# --------------------------------------------------------------------- driver
def run(ctx):
    thorough = ctx.tier == "thorough"
    rng = ctx.rng
    G.AXES.setdefault("A3", ([[(0, 0, 10), (0, 10, 20), (0, 20, 30)]], ["chrB"]))
    ws = Workspace(str(ctx.tmp / "c07"))

    cases = corpus_cases()
    cases += small_scope_cases(rng, thorough)
    cases += random_cases(rng, 240 if thorough else 56, 5 if thorough else 3)
    cases += order_cases(rng, 30 if thorough else 8)
    cases += nested_cases(rng, 40 if thorough else 10)
    cases += incompatible_cases(rng)
    cases += cli_cases(rng)
    cases += audit_cases(rng)
    cases += agg_cases(rng, thorough)
    cases += layout_dtype_cases(rng)

    idx = [i for i, (_, case) in enumerate(cases) if modelled(case)]
    exprs = [model_expr(ws, cases[i][1]) for i in idx]
    mvals = dict(zip(idx, C.coq_eval(G.IMPORTS, exprs, tmpdir=ctx.tmp / "mv", shard=120, jobs=4)))
    model = [mvals.get(i) for i in range(len(cases))]
    timeouts = 0
    order_groups = {}
    for (kind, case), mo in zip(cases, model):
        exp, i64 = oracle(case)
        if isinstance(exp, dict):
            if case.get("mode_a"):
                exp["kept"] = True
            if case.get("check_bins"):
                exp["bins_cols"] = ["chrom", "end", "start"]
        ctx.case(case, nontrivial=nontrivial(case, exp), kind=kind)
        if timeouts >= 3:
            continue
        got = impl_run(ws, case)
        if got == "timeout":
            timeouts += 1
        if mo is not None:
            mod = G.parse_obs(mo)
            if isinstance(mod, dict):
                mod["bins"] = G.expected_bins(case["inputs"][first_leaf(case)]["ax"])     # theorem: the output carries the first input's axes
                mod["bins_extra"] = {}
            if isinstance(mod, dict) and isinstance(exp, dict):
                for k in ("kept", "bins_cols"):
                    if k in exp:
                        mod[k] = exp[k]
            ctx.compare("merge_coolers", case, got, mod)
        if kind.startswith("malformed"):
            continue
        verdict(ctx, case, got, exp, i64)
        if kind in ("orders", "nested"):
            key = canon({k: v for k, v in case.items() if k not in ("order", "tree")})
            order_groups.setdefault(key, []).append((case, got))
        if kind.startswith("layout:"):
            # same data, other layout / order / mergebuf: strip the representation from the key
            key = canon({"k": kind, "dt": case.get("dtypes"), "ins": sorted(canon({a: b for a, b in i.items() if a != "group"}) for i in case["inputs"])})
            order_groups.setdefault(key, []).append((case, got))
    # order independence / associativity, stated directly on the implementation's outputs
    for key, grp in order_groups.items():
        first = grp[0][1]
        for case, got in grp[1:]:
            if canon(got) != canon(first) and not (isinstance(got, str) and isinstance(first, str)):
                ctx.fail(case, {"differs from": grp[0][0].get("order") or grp[0][0].get("tree") or "flat", "got": got, "first": first}, None)

    history_pass(ctx, ws.root)
    run_breakpoints(ctx)
    ctx.extra["scopes"] = {"merges": len(cases), "input_files": len(ws.cache)}
    ctx.exhaustive = thorough
    shutil.rmtree(ws.root, ignore_errors=True)


def replay(ctx, case):
    G.AXES.setdefault("A3", ([[(0, 0, 10), (0, 10, 20), (0, 20, 30)]], ["chrB"]))
    if case["fn"] == "merge_breakpoints":
        got = impl_breakpoints(case["indexes"], case["bufsize"])
        return oracle_breakpoints(case["indexes"], case["bufsize"], got)
    ws = Workspace(str(ctx.tmp / "replay"))
    got = impl_run(ws, case)
    exp, i64 = oracle(case)
    if isinstance(exp, dict):
        if case.get("mode_a"):
            exp["kept"] = True
        if case.get("check_bins"):
            exp["bins_cols"] = ["chrom", "end", "start"]
    print("expected:", exp)
    print("got     :", got)
    if exp == "refuse":
        return not isinstance(got, dict) and got != "timeout"
    return same(got, exp)
