(** binary64 quotients in the binning code: [int(np.floor(a / b))] and [int(np.ceil(a / b))] are computed with float64
    true division; Proofs/FloatDiv.v (Flocq) shows that for operands below 2^53 they are the exact integer floor and
    ceiling divisions that the models use.  This file restates the result with the models' [cdiv]. *)
From Cooler Require Import Model.Base Model.Extent Proofs.FloatDiv.
From Coq Require Import ZArith Lia.
From Flocq Require Import Core.
Open Scope Z_scope.

Lemma neg_div_is_cdiv e b : 0 < b -> - ((- e) / b) = cdiv e b.
Proof.
  intro Hb. unfold cdiv.
  pose proof (Z.div_mod (- e) b ltac:(lia)) as H1. pose proof (Z.mod_pos_bound (- e) b Hb) as H2.
  pose proof (Z.div_mod (e + b - 1) b ltac:(lia)) as H3. pose proof (Z.mod_pos_bound (e + b - 1) b Hb) as H4.
  nia.
Qed.

Theorem floor_fdiv_is_div s b : 0 <= s < 2^53 -> 0 < b < 2^53 -> Zfloor (fdiv s b) = s / b.
Proof. exact (floor_fdiv_exact s b). Qed.
Theorem ceil_fdiv_is_cdiv e b : 0 <= e < 2^53 -> 0 < b < 2^53 -> Zceil (fdiv e b) = cdiv e b.
Proof. intros He Hb. rewrite ceil_fdiv_exact by assumption. apply neg_div_is_cdiv. lia. Qed.

(** the fixed-bin-size branch of _region_to_extent, computed in binary64, is the model's exact extent *)
Theorem binary64_fixed_extent_exact blocks c s e b :
  0 <= s < 2^53 -> 0 <= e < 2^53 -> 0 < b < 2^53 ->
  (chrom_offset blocks c + Zfloor (fdiv s b), chrom_offset blocks c + Zceil (fdiv e b)) = region_to_extent_fixed blocks c s e b.
Proof. intros Hs He Hb. unfold region_to_extent_fixed. now rewrite floor_fdiv_is_div, ceil_fdiv_is_cdiv. Qed.
