(** 2D range queries on a CSR pixel table: cooler/core/_rangequery.py and _selectors.py.
    One definition per anchored Python function.  No proofs here. *)
From Cooler Require Export Model.Pixels.

(** a stored record together with its position in the pixel table ("__index") *)
Definition ipixel := (Z * pixel)%type.
Definition bbox := (Z * Z * Z * Z)%type.          (* i0 i1 j0 j1 *)
Definition span := (Z * Z)%type.

Definition flip (p : pixel) : pixel := ((col p, row p), val p).
Definition iflip (r : ipixel) : ipixel := (fst r, flip (snd r)).

(** ---- _comes_before / _contains (_rangequery.py:52-68) *)
Definition comes_before (a0 a1 b0 b1 : Z) (strict : bool) : bool :=
  if a0 <? b0 then (if strict then a1 <=? b0 else a1 <=? b1) else false.
Definition contains (a0 a1 b0 b1 : Z) (strict : bool) : bool :=
  if (a0 >? b0) || (a1 <? b1) then false
  else if strict && ((a0 =? b0) || (a1 =? b1)) then false
  else (a0 <=? b0) && (a1 >=? b1).

(** ---- arg_prune_partition (_rangequery.py:140-151) *)
(** np.linspace(lo, hi, num, dtype=int) for 0 <= lo <= hi, num >= 2, in exact arithmetic
    (float rounding of the interior points is not modelled: the theorems quantify over every
    admissible cut sequence) *)
Definition linspace_int (lo hi num : Z) : list Z :=
  map (fun k => lo + (k * (hi - lo)) / (num - 1)) (zrange 0 (Z.to_nat num)).

(** np.unique of an integer array: sorted, duplicates removed *)
Fixpoint uins (x : Z) (l : list Z) : list Z :=
  match l with
  | [] => [x]
  | y :: t => if x <? y then x :: l else if x =? y then l else y :: uins x t
  end.
Definition unique (l : list Z) : list Z := fold_right uins [] l.

Definition prune_with_cuts (seq cuts : list Z) : list Z :=
  unique (map (searchsorted_left seq) cuts).
Definition arg_prune_partition (seq : list Z) (step : Z) : list Z :=
  let lo := hd 0 seq in
  let hi := last seq 0 in
  prune_with_cuts seq (linspace_int lo hi (2 + (hi - lo) / step)).

(** ---- CSRReader.get_spans (_rangequery.py:176-189) *)
Definition pairs_of_edges (edges : list Z) : list span := combine (removelast edges) (tl edges).
Definition get_spans (off : list Z) (chunksize : Z) (bb : bbox) : list span :=
  let '(i0, i1, j0, j1) := bb in
  if (i1 - i0 <? 1) || (j1 - j0 <? 1) then []
  else pairs_of_edges (map (Z.add i0) (arg_prune_partition (slice off i0 (i1 + 1)) chunksize)).

(** ---- CSRReader.__call__ (_rangequery.py:204-318)
    [epx] is the enumerated pixel table, [off] the bin1_offset index.
    The row id of an emitted record is the loop variable i (np.full(len(cols), i)), not the stored bin1_id. *)
Definition colmask (j0 j1 : Z) (r : ipixel) : bool := (j0 <=? col (snd r)) && (col (snd r) <? j1).
Definition read_row (epx : list ipixel) (off : list Z) (j0 j1 i : Z) : list ipixel :=
  map (fun r => (fst r, ((i, col (snd r)), val (snd r))))
      (filter (colmask j0 j1) (slice epx (znth off i 0) (znth off (i + 1) 0))).
Definition to_duplex (i1 : Z) (r : ipixel) : bool :=
  negb (row (snd r) =? col (snd r)) && (col (snd r) <? i1).
Definition csr_reader (epx : list ipixel) (off : list Z) (bb : bbox) (sp : span) (reflect : bool) : list ipixel :=
  let '(i0, i1, j0, j1) := bb in
  let '(s0, s1) := sp in
  let base := flat_map (read_row epx off j0 j1) (zrange s0 (Z.to_nat (s1 - s0))) in
  if reflect then base ++ map iflip (filter (to_duplex i1) base) else base.

(** ---- DirectRangeQuery2D: one task per span, no reflection *)
Definition direct_query (epx : list ipixel) (off : list Z) (spans : bbox -> list span) (bb : bbox) : list ipixel :=
  flat_map (fun sp => csr_reader epx off bb sp false) (spans bb).

(** ---- FillLowerRangeQuery2D.__init__ (_rangequery.py:506-565): the plan = list of (transpose the result?, bbox) *)
Definition fill_lower_plan (bb : bbox) : option (list (bool * bbox)) :=
  let '(i0, i1, j0, j1) := bb in
  let ut := i1 >? j1 in
  let '(a0, a1, b0, b1) := if ut then (j0, j1, i0, i1) else (i0, i1, j0, j1) in
  if (a0 =? b0) || comes_before a0 a1 b0 b1 true then Some [(ut, (a0, a1, b0, b1))]
  else if comes_before a0 a1 b0 b1 false then Some [(ut, (a0, b0, b0, b1)); (ut, (b0, a1, b0, b1))]
  else if contains b0 b1 a0 a1 false then Some [(negb ut, (b0, a0, a0, a1)); (ut, (a0, a1, a0, b1))]
  else None.                                             (* raise ValueError("This shouldn't happen.") *)

Definition run_task (epx : list ipixel) (off : list Z) (spans : bbox -> list span) (t : bool * bbox) : list ipixel :=
  flat_map (fun sp => let r := csr_reader epx off (snd t) sp true in if fst t then map iflip r else r) (spans (snd t)).
Definition fill_lower_query (epx : list ipixel) (off : list Z) (spans : bbox -> list span) (bb : bbox) : option (list ipixel) :=
  match fill_lower_plan bb with
  | None => None
  | Some tasks => Some (flat_map (run_task epx off spans) tasks)
  end.

(** ---- output conversions *)
(** to_array: coo_matrix(...).toarray() adds up entries with equal coordinates *)
Definition dense_of (out : list ipixel) (bb : bbox) : list (list Z) :=
  let '(i0, i1, j0, j1) := bb in
  map (fun i => map (fun j => look (map snd out) (i, j)) (zrange j0 (Z.to_nat (j1 - j0)))) (zrange i0 (Z.to_nat (i1 - i0))).

(** matrix(): engine choice (api.py:665-800, balance=False part) *)
Inductive outform := AsPixels | Sparse | Dense.
Definition matrix_records (epx : list ipixel) (off : list Z) (chunksize : Z) (fill_lower : bool) (form : outform) (bb : bbox)
  : option (list ipixel) :=
  match form with
  | AsPixels => Some (direct_query epx off (get_spans off chunksize) bb)
  | _ => if fill_lower then fill_lower_query epx off (get_spans off chunksize) bb
         else Some (direct_query epx off (get_spans off chunksize) bb)
  end.

(** ---- _IndexingMixin._process_slice (_selectors.py:32-53) *)
Definition process_slice (start stop : option Z) (nmax : Z) : Z * Z :=
  let i0 := match start with None => 0 | Some a => if a <? 0 then Z.max (nmax + a) 0 else a end in
  let i1 := match stop with None => nmax | Some b => if b <? 0 then Z.max (nmax + b) 0 else b end in
  (i0, i1).
Definition process_scalar (s nmax : Z) : option (Z * Z) :=
  let s' := if s <? 0 then s + nmax else s in
  if (s' <? 0) || (s' >=? nmax) then None else Some (s', s' + 1).
(** how an array resolves one bound of a step-1 slice (Python's slice.indices): add the length to a negative bound, then clamp *)
Definition array_bound (a n : Z) : Z := Z.min (Z.max (if a <? 0 then a + n else a) 0) n.

(** ---- helpers for the correspondence run (checksums keep the printed terms small) *)
Definition epx_of (px : list pixel) : list ipixel := enumerate px.
(** bin1_offset as index_pixels computes it: off[b] = number of records with bin1 < b *)
Definition offsets_of (n : Z) (px : list pixel) : list Z :=
  map (fun b => zlen (filter (fun p => row p <? b) px)) (zrange 0 (Z.to_nat (n + 1))).
Definition cksum_dense (d : list (list Z)) : Z :=
  sumZ (map (fun ir => sumZ (map (fun jc => (1 + 31 * fst ir + 1009 * fst jc) * snd jc) (enumerate (snd ir)))) (enumerate d)).
Definition cksum_recs (l : list ipixel) : Z :=
  sumZ (map (fun r => (1 + 7 * row (snd r) + 131 * col (snd r)) * val (snd r) + 17 * fst r) l).
Definition all_windows (n : Z) : list bbox :=
  let es := zrange 0 (Z.to_nat (n + 1)) in
  flat_map (fun i0 => flat_map (fun i1 => if i0 <=? i1 then
     flat_map (fun j0 => flat_map (fun j1 => if j0 <=? j1 then [(i0, i1, j0, j1)] else []) es) es else []) es) es.

Definition cksum_set (l : list ipixel) : Z :=
  sumZ (map (fun r => (1 + 7 * row (snd r) + 131 * col (snd r)) * val (snd r)) l).
Definition cksum_ord (l : list ipixel) : Z :=
  sumZ (map (fun kr => (fst kr + 1) * ((1 + 7 * row (snd (snd kr)) + 131 * col (snd (snd kr))) * val (snd (snd kr)) + 17 * fst (snd kr)))
            (enumerate l)).
(** per window: (dense checksum, sparse checksum, sparse entry count, pixel-frame checksum); -1 = the engine raised *)
Definition window_cksums (epx : list ipixel) (off : list Z) (cs : Z) (fill : bool) (bb : bbox) : Z * Z * Z * Z :=
  let p := direct_query epx off (get_spans off cs) bb in
  match matrix_records epx off cs fill Dense bb with
  | None => (-1, -1, -1, cksum_ord p)
  | Some o => (cksum_dense (dense_of o bb), cksum_set o, zlen o, cksum_ord p)
  end.
Definition all_window_cksums (n : Z) (px : list pixel) (off : list Z) (cs : Z) (fill : bool) : list (Z * Z * Z * Z) :=
  map (window_cksums (epx_of px) off cs fill) (all_windows n).

(** ---- executable validity check of a stored table (hypothesis of the C03 theorems; soundness in Proofs/QueryMain.v) *)
(** prefix sums: [acc; acc+l0; acc+l0+l1; ...] — the index index_pixels computes from the row lengths *)
Fixpoint psums (acc : Z) (ls : list Z) : list Z :=
  acc :: match ls with [] => [] | x :: t => psums (acc + x) t end.
Definition rows_of (n : Z) (epx : list ipixel) : list (list ipixel) :=
  map (fun i => filter (fun r => row (snd r) =? i) epx) (zrange 0 (Z.to_nat n)).
Definition list_eqb {A} (eqb : A -> A -> bool) := fix go (a b : list A) : bool :=
  match a, b with [] , [] => true | x :: a', y :: b' => eqb x y && go a' b' | _, _ => false end.
Definition ipixel_eqb (a b : ipixel) : bool :=
  (fst a =? fst b) && (row (snd a) =? row (snd b)) && (col (snd a) =? col (snd b)) && (val (snd a) =? val (snd b)).
Definition valid_csr_b (n : Z) (epx : list ipixel) (off : list Z) : bool :=
  (0 <=? n) && list_eqb ipixel_eqb epx (concat (rows_of n epx)) && list_eqb Z.eqb off (psums 0 (map zlen (rows_of n epx))).

