(** C04  Genomic ranges map to exactly the bins that cover them.
    Only statements, each closed by [exact] of a lemma proved in Proofs/ExtentProofs.v.
    A bin table is given by its chromosome blocks; [ValidBlocks] (C20) says block i is a non-empty
    tiling of chromosome i from 0.  [region_to_extent] takes the fixed-width (arithmetic) path when
    get_binsize reports a size and the searchsorted path otherwise. *)
From Cooler Require Import Model.Extent Model.Fetch Proofs.BinsProofs Proofs.ExtentProofs Proofs.FetchProofs.
From Cooler Require Model.Index Proofs.IndexProofs.

(** non-empty range: bin k is selected IFF it is a bin of the chromosome that overlaps [s,e);
    the run is non-empty and lies inside the chromosome's span (never another chromosome).
    Minimality and contiguity follow from the "iff" on a half-open interval of positions. *)
Theorem C04_extent_overlap : forall blocks i blk s e,
  ValidBlocks blocks -> nth_error blocks i = Some blk ->
  0 <= s < e -> e <= chrom_len blk ->
  let '(lo, hi) := region_to_extent blocks i s e in
  (forall k : nat, lo <= Z.of_nat k < hi <->
     exists x, nth_error (table blocks) k = Some x /\ bchrom x = Z.of_nat i /\ bstart x < e /\ s < bend x)
  /\ chrom_offset blocks i <= lo < hi /\ hi <= chrom_offset blocks (S i).
Proof. exact extent_overlap. Qed.
Print Assumptions C04_extent_overlap.

(** empty range: at most one bin, of the same chromosome, containing the position (closed at its end) *)
Theorem C04_extent_empty : forall blocks i blk s,
  ValidBlocks blocks -> nth_error blocks i = Some blk ->
  0 <= s <= chrom_len blk ->
  let '(lo, hi) := region_to_extent blocks i s s in
  lo <= hi <= lo + 1 /\ chrom_offset blocks i <= lo /\ hi <= chrom_offset blocks (S i) /\
  (forall k : nat, lo <= Z.of_nat k < hi ->
     exists x, nth_error (table blocks) k = Some x /\ bchrom x = Z.of_nat i /\ bstart x < s <= bend x).
Proof. exact extent_empty. Qed.
Print Assumptions C04_extent_empty.

(** fixed-width and variable-width tables are treated identically: whenever a size b is reported,
    arithmetic with b and binary search on the bin starts give the same extent *)
Theorem C04_extent_paths_agree : forall blocks i blk b,
  ValidBlocks blocks -> nth_error blocks i = Some blk -> get_binsize (table blocks) = Some b ->
  forall s e, 0 <= s <= e -> e <= chrom_len blk -> s < chrom_len blk ->
  region_to_extent_fixed blocks i s e b = region_to_extent_var blocks i s e.
Proof. exact extent_paths_agree. Qed.
Print Assumptions C04_extent_paths_agree.

(** ... which is false for arithmetic with an untruthful size (input of the repaired defect D1) *)
Theorem C04_extent_fixed_refuted :
  let blocks := [[(0,0,10);(0,10,20);(0,20,35)]; [(1,0,10);(1,10,20)]] in
  valid_blocks_b blocks = true /\
  region_to_extent_fixed blocks 0 25 35 10 = (2, 4) /\
  region_to_extent_var blocks 0 25 35 = (2, 3) /\
  get_binsize (table blocks) = None.
Proof. exact extent_fixed_refuted. Qed.
Print Assumptions C04_extent_fixed_refuted.

(** util.parse_region: a region is accepted exactly when 0 <= start <= end <= length (open ends
    default to 0 and to the chromosome length), and is then handed on unchanged *)
Theorem C04_parse_region_bounds : forall sizes c s e,
  parse_region sizes c s e =
  match nth_error sizes c with
  | None => None
  | Some L => if (0 <=? dflt 0 s) && (dflt 0 s <=? dflt L e) && (dflt L e <=? L)
              then Some (c, dflt 0 s, dflt L e) else None
  end.
Proof. exact parse_region_spec. Qed.
Print Assumptions C04_parse_region_bounds.

(** whole chromosome / bare name: exactly the chromosome's rows *)
Theorem C04_extent_whole_chrom : forall blocks i blk,
  ValidBlocks blocks -> nth_error blocks i = Some blk ->
  extent blocks i None None = Some (chrom_offset blocks i, chrom_offset blocks (S i)).
Proof. exact extent_whole_chrom. Qed.
Print Assumptions C04_extent_whole_chrom.

(** Cooler.bins().fetch returns exactly the overlapping bins of the chromosome, in table order *)
Theorem C04_bins_fetch_overlap : forall blocks i blk s e,
  ValidBlocks blocks -> nth_error blocks i = Some blk ->
  0 <= s < e -> e <= chrom_len blk ->
  bins_fetch blocks i (Some s) (Some e) = Some (filter (overlaps_b i s e) (table blocks)).
Proof. exact bins_fetch_overlap. Qed.
Print Assumptions C04_bins_fetch_overlap.

(** Cooler.pixels().fetch: the row range between the two bin1 offsets of an extent holds exactly
    the pixels whose bin1_id lies in the extent *)
Theorem C04_pixels_fetch_rows : forall px lo hi,
  Sorted.StronglySorted Z.le (map fst px) -> lo <= hi ->
  pixels_fetch_rows px lo hi = filter (fun p => (lo <=? fst p) && (fst p <? hi)) px.
Proof. exact pixels_fetch_rows_spec. Qed.
Print Assumptions C04_pixels_fetch_rows.

(** util.bedslice / GenomeSegmentation.fetch: exactly the overlapping bins (for an empty range the
    bin strictly containing the position, if any) *)
Theorem C04_bedslice_overlap : forall c blk s e,
  Tiled c 0 blk -> 0 <= s <= e -> e <= chrom_len blk ->
  bedslice blk (chrom_len blk) s e = filter (fun x => (bstart x <? e) && (s <? bend x)) blk.
Proof. exact bedslice_overlap. Qed.
Print Assumptions C04_bedslice_overlap.

Theorem C04_bedslice_eq_extent : forall blocks i blk s e,
  ValidBlocks blocks -> nth_error blocks i = Some blk ->
  0 <= s < e -> e <= chrom_len blk ->
  Some (bedslice blk (chrom_len blk) s e) = bins_fetch blocks i (Some s) (Some e).
Proof. exact bedslice_eq_extent. Qed.
Print Assumptions C04_bedslice_eq_extent.

(** the one corner where the two paths differ (both answers satisfy C04_extent_empty) *)
Theorem C04_extent_paths_differ_at_end :
  let blocks := [[(0,0,10);(0,10,20)]; [(1,0,10)]] in
  get_binsize (table blocks) = Some 10 /\
  region_to_extent_fixed blocks 0 20 20 10 = (2, 2) /\ region_to_extent_var blocks 0 20 20 = (1, 2).
Proof. exact extent_paths_differ_at_end. Qed.
Print Assumptions C04_extent_paths_differ_at_end.

(** the model's chrom_offset is the contract of indexes/chrom_offset read on the flat table:
    the number of rows of the chromosomes before c *)
Theorem C04_chrom_offset_counts : forall blocks c,
  ValidBlocks blocks ->
  chrom_offset blocks c = zlen (filter (fun x => bchrom x <? Z.of_nat c) (table blocks)).
Proof. exact chrom_offset_counts. Qed.
Print Assumptions C04_chrom_offset_counts.

(** ---- integration with C02 (schema of a stored collection) and C03 (range-query engine) ---- *)

(** a valid non-empty region resolves; its extent is exactly the ascending list of ids of the bins of that
    chromosome overlapping it *)
Theorem C04_extent_is_overlap_ids : forall blocks i blk s e,
  ValidBlocks blocks -> nth_error blocks i = Some blk -> 0 <= s < e -> e <= chrom_len blk ->
  exists lo hi, extent blocks i (Some s) (Some e) = Some (lo, hi) /\
    0 <= lo /\ lo < hi /\ hi <= zlen (table blocks) /\
    (forall k, lo <= k < hi <-> bin_overlaps blocks i s e k = true) /\
    zrange lo (Z.to_nat (hi - lo)) = overlap_ids blocks i s e.
Proof. exact extent_is_overlap_ids. Qed.
Print Assumptions C04_extent_is_overlap_ids.

(** a two-region fetch IS the index-slice query of the engine (C03) on the two extents *)
Theorem C04_fetch2_eq_slice : forall blocks epx off cs fill form r1 r2 i0 i1 j0 j1,
  extent blocks (fst (fst r1)) (snd (fst r1)) (snd r1) = Some (i0, i1) ->
  extent blocks (fst (fst r2)) (snd (fst r2)) (snd r2) = Some (j0, j1) ->
  matrix_fetch_records blocks epx off cs fill form r1 r2 = matrix_records epx off cs fill form (i0, i1, j0, j1).
Proof. exact fetch2_eq_slice. Qed.
Print Assumptions C04_fetch2_eq_slice.

(** on every schema-valid (C02) symmetric-upper collection, for every chunk size, the dense two-region fetch is the
    symmetric matrix over exactly (bins overlapping region 1) x (bins overlapping region 2) *)
Theorem C04_matrix_fetch_symm : forall (c : Index.cooler) blocks,
  IndexProofs.ValidCSR c -> ValidBlocks blocks -> zlen (table blocks) = Index.nbins c ->
  forall cs i1 blk1 s1 e1 i2 blk2 s2 e2,
  Index.symmetric_upper c = true -> 1 <= cs ->
  nth_error blocks i1 = Some blk1 -> 0 <= s1 < e1 -> e1 <= chrom_len blk1 ->
  nth_error blocks i2 = Some blk2 -> 0 <= s2 < e2 -> e2 <= chrom_len blk2 ->
  matrix_fetch_dense blocks (epx_of (Index.pixels_of c)) (Index.bin1_offset c) cs true
                     (i1, Some s1, Some e1) (i2, Some s2, Some e2) =
  Some (map (fun i => map (fun j => symm (Index.pixels_of c) i j) (overlap_ids blocks i2 s2 e2))
            (overlap_ids blocks i1 s1 e1)).
Proof. exact matrix_fetch_symm. Qed.
Print Assumptions C04_matrix_fetch_symm.

(** ... and the pixel-frame form returns exactly the stored records with bin1 overlapping region 1 and bin2
    overlapping region 2 *)
Theorem C04_matrix_fetch_pixels : forall (c : Index.cooler) blocks,
  IndexProofs.ValidCSR c -> ValidBlocks blocks -> zlen (table blocks) = Index.nbins c ->
  forall cs i1 blk1 s1 e1 i2 blk2 s2 e2,
  1 <= cs ->
  nth_error blocks i1 = Some blk1 -> 0 <= s1 < e1 -> e1 <= chrom_len blk1 ->
  nth_error blocks i2 = Some blk2 -> 0 <= s2 < e2 -> e2 <= chrom_len blk2 ->
  matrix_fetch_records blocks (epx_of (Index.pixels_of c)) (Index.bin1_offset c) cs true AsPixels
                       (i1, Some s1, Some e1) (i2, Some s2, Some e2) =
  Some (filter (fun r => bin_overlaps blocks i1 s1 e1 (row (snd r)) && bin_overlaps blocks i2 s2 e2 (col (snd r)))
               (epx_of (Index.pixels_of c))).
Proof. exact matrix_fetch_pixels. Qed.
Print Assumptions C04_matrix_fetch_pixels.

(** pixels().fetch(region) on a schema-valid collection (stored bin1_offset index): exactly the stored records
    whose bin1 overlaps the region *)
Theorem C04_pixels_fetch_stored : forall (c : Index.cooler) blocks i blk s e,
  IndexProofs.ValidCSR c -> ValidBlocks blocks -> zlen (table blocks) = Index.nbins c ->
  nth_error blocks i = Some blk -> 0 <= s < e -> e <= chrom_len blk ->
  pixels_fetch_stored blocks (Index.pixels_of c) (Index.bin1_offset c) (i, Some s, Some e) =
  Some (filter (fun p => bin_overlaps blocks i s e (row p)) (Index.pixels_of c)).
Proof. exact pixels_fetch_stored_spec. Qed.
Print Assumptions C04_pixels_fetch_stored.

(** non-vacuity *)
Example ex_C04_variable :
  let blocks := [[(0,0,3);(0,3,6);(0,6,8)]; [(1,0,4);(1,4,8)]; [(2,0,5)]] in
  valid_blocks_b blocks = true /\ get_binsize (table blocks) = None /\
  region_to_extent blocks 1 2 5 = (3, 5) /\ region_to_extent blocks 0 3 3 = (1, 1) /\
  region_to_extent blocks 0 8 8 = (2, 3).
Proof. vm_compute. repeat split; reflexivity. Qed.
Example ex_C04_fixed :
  let blocks := [[(0,0,10);(0,10,20);(0,20,25)]; [(1,0,7)]] in
  valid_blocks_b blocks = true /\ get_binsize (table blocks) = Some 10 /\
  region_to_extent blocks 0 10 21 = (1, 3) /\ region_to_extent blocks 1 0 7 = (3, 4).
Proof. vm_compute. repeat split; reflexivity. Qed.
Example ex_C04_stored_fetch :
  let blocks := [[(0,0,3);(0,3,6);(0,6,8)]; [(1,0,4);(1,4,8)]] in
  let px : list pixel := [((0,0),1); ((0,2),2); ((1,3),3); ((3,4),4)] in
  match Index.create_model 2 (map bchrom (table blocks)) px true with
  | None => False
  | Some c =>
    Index.valid_csr_b c = true /\ valid_blocks_b blocks = true /\ zlen (table blocks) = Index.nbins c /\
    overlap_ids blocks 0 2 7 = [0; 1; 2] /\ overlap_ids blocks 1 0 5 = [3; 4] /\
    matrix_fetch_dense blocks (epx_of (Index.pixels_of c)) (Index.bin1_offset c) 2 true (0%nat, Some 2, Some 7) (1%nat, Some 0, Some 5)
      = Some [[0; 0]; [3; 0]; [0; 0]] /\
    pixels_fetch_stored blocks (Index.pixels_of c) (Index.bin1_offset c) (0%nat, Some 3, Some 6) = Some [((1,3),3)]
  end.
Proof. vm_compute. repeat split; reflexivity. Qed.

(** the fixed-bin-size branch of _region_to_extent computes [int(np.floor(start / binsize))] and
    [int(np.ceil(end / binsize))] with float64 true division (core/_rangequery.py:20-23).  For coordinates and bin sizes
    below 2^53 the correctly rounded binary64 quotient has the same floor / ceiling as the exact quotient
    (Proofs/FloatDiv.v, Flocq), so the extent the code computes is the model's.  Depends on the standard library's
    real-number axioms only. *)
From Cooler Require Import Proofs.FloatDiv Proofs.FloatDivBridge.
From Flocq Require Import Core.
Theorem C04_binary64_fixed_extent_exact : forall blocks c s e b,
  0 <= s < 2^53 -> 0 <= e < 2^53 -> 0 < b < 2^53 ->
  (chrom_offset blocks c + Zfloor (fdiv s b), chrom_offset blocks c + Zceil (fdiv e b)) = region_to_extent_fixed blocks c s e b.
Proof. exact binary64_fixed_extent_exact. Qed.
Print Assumptions C04_binary64_fixed_extent_exact.

(** the float64 quotient expression of _region_to_extent that the binary64 theorem above is about is pinned in the source on every run
    (tools/py2v.py): a reciprocal multiplication or another shortcut is a different computation *)
From Cooler Require Import Gen.Translated.
Theorem C04_float_division_source_pins : Gen.float_division_pins_extent = true.
Proof. reflexivity. Qed.
Print Assumptions C04_float_division_source_pins.

(** the tail of util.parse_region (defaults of an open start / end, "End cannot be less than start", "Genomic region out of
    bounds") as translated from util.py on every run is the model's region check, for every chromosome table and region: the
    theorems above about [extent] are statements about the comparisons the source has now.  The tuple / string dispatch,
    the chromsizes lookup and the defaults are pinned by the translator. *)
From Cooler Require Import Proofs.GenBridgeRegion.
Theorem C04_source_parse_region_is_model : forall sizes c s e,
  Extent.parse_region sizes c s e =
  match nth_error sizes c with
  | None => None
  | Some L => match Gen.parse_region_tail s e (Some L) with None => None | Some (s', e') => Some (c, s', e') end
  end.
Proof. exact gen_parse_region_is_extent_model. Qed.
Print Assumptions C04_source_parse_region_is_model.

Theorem C04_parse_region_source_pins : Gen.parse_region_source_pins = true.
Proof. reflexivity. Qed.
Print Assumptions C04_parse_region_source_pins.
