(** Balanced reads in IEEE-754 binary64, bit for bit: the same three branches of cooler.api.matrix as Model/Balanced.v
    (api.py:744-800), first over an arbitrary scalar type with an arbitrary "cell" operation (section [Generic]), then
    instantiated with Coq's primitive floats so that the rounding of every product is the machine's:
      dense   arr * np.outer(bias1, bias2)            =  v * (b1 * b2)
      sparse  bias1[row] * bias2[col] * data          =  (b1 * b2) * v
      pixels  weight1 * weight2 * count               =  (w1 * w2) * v
    with  b = 1 / w  for divisive weights and NaN / inf propagating as in the hardware.  No proofs here. *)
From Cooler Require Export Model.Query.
From Coq Require Export PrimFloat.
From Coq Require Import Uint63 SpecFloat FloatOps.
Open Scope Z_scope.

Section Generic.
  Context {S : Type}.
  Variable sinv : S -> S.            (* reciprocal, applied to divisive weights *)
  Variable cell : S -> S -> Z -> S.  (* row weight, column weight, raw value -> balanced value *)
  Variable snan : S.                 (* default of out-of-range lookups (never reached inside the claimed domain) *)

  Definition gbias (w : list S) (lo hi : Z) (divisive : bool) : list S :=
    map (fun x => if divisive then sinv x else x) (slice w lo hi).
  Definition gbias2_of (w : list S) (bb : bbox) (divisive : bool) : list S :=
    let '(i0, i1, j0, j1) := bb in
    if (i0 =? j0) && (i1 =? j1) then gbias w i0 i1 divisive else gbias w j0 j1 divisive.
  Definition gnth (l : list S) (k : Z) : S := nth (Z.to_nat k) l snan.

  Definition gbalanced_dense (d : list (list Z)) (w : list S) (bb : bbox) (divisive : bool) : list (list S) :=
    let '(i0, i1, j0, j1) := bb in
    let b1 := gbias w i0 i1 divisive in
    let b2 := gbias2_of w bb divisive in
    map (fun rx => map (fun vy => cell (snd rx) (snd vy) (fst vy)) (combine (fst rx) b2)) (combine d b1).

  Definition gbalanced_sparse (out : list ipixel) (w : list S) (bb : bbox) (divisive : bool) : list (key * S) :=
    let '(i0, i1, j0, j1) := bb in
    let b1 := gbias w i0 i1 divisive in
    let b2 := gbias2_of w bb divisive in
    map (fun r => let p := snd r in (fst p, cell (gnth b1 (row p - i0)) (gnth b2 (col p - j0)) (val p))) out.

  Definition gbalanced_pixels (out : list ipixel) (w : list S) (divisive : bool) : list (ipixel * S) :=
    map (fun r => let p := snd r in
                  let w1 := gnth w (row p) in let w2 := gnth w (col p) in
                  let w1 := if divisive then sinv w1 else w1 in let w2 := if divisive then sinv w2 else w2 in
                  (r, cell w1 w2 (val p))) out.
End Generic.

(** ---- the binary64 instance *)
Definition f_of_Z (z : Z) : float :=
  if z <? 0 then PrimFloat.opp (PrimFloat.of_uint63 (Uint63.of_Z (- z))) else PrimFloat.of_uint63 (Uint63.of_Z z).
Definition f_inv (x : float) : float := PrimFloat.div PrimFloat.one x.
Definition f_cell_dense (b1 b2 : float) (v : Z) : float := PrimFloat.mul (f_of_Z v) (PrimFloat.mul b1 b2).
Definition f_cell_entry (b1 b2 : float) (v : Z) : float := PrimFloat.mul (PrimFloat.mul b1 b2) (f_of_Z v).

Definition fbalanced_dense := gbalanced_dense f_inv f_cell_dense.
Definition fbalanced_sparse := gbalanced_sparse f_inv f_cell_entry PrimFloat.nan.
Definition fbalanced_pixels := gbalanced_pixels f_inv f_cell_entry PrimFloat.nan.

(** which column / divisive or not: shared with the rational model (Model/Balanced.v); repeated here as plain data so
    that this file does not depend on QArith *)
Inductive fbal_result :=
| FRaw (recs : list ipixel)
| FDense (d : list (list float))
| FSparse (s : list (key * float))
| FPixels (p : list (ipixel * float)).
Definition fmatrix_balanced (epx : list ipixel) (off : list Z) (cs : Z) (fill : bool) (form : outform)
           (w : option (option (list float))) (divisive : bool) (bb : bbox) : option fbal_result :=
  (* w : None = balance off; Some None = the requested column is absent; Some (Some w) = the column *)
  match matrix_records epx off cs fill form bb with
  | None => None
  | Some out =>
    match w with
    | None => Some (FRaw out)
    | Some None => None
    | Some (Some w) =>
        Some (match form with
              | Dense => FDense (fbalanced_dense (dense_of out bb) w bb divisive)
              | Sparse => FSparse (fbalanced_sparse out w bb divisive)
              | AsPixels => FPixels (fbalanced_pixels out w divisive)
              end)
    end
  end.

(** ---- exact, order-independent checksums over the bit patterns *)
(** (is NaN, signed infinity, signed integer code of a finite value) *)
Definition fcode (x : float) : Z * Z * Z :=
  match Prim2SF x with
  | S754_nan => (1, 0, 0)
  | S754_infinity s => (0, (if s then -1 else 1), 0)
  | S754_zero s => (0, 0, 0)
  | S754_finite s m e => (0, 0, (if s then -1 else 1) * (Z.pos m * 4096 + (e + 1100)))
  end.
Definition fsum (l : list (Z * float)) : Z * Z * Z :=
  fold_left (fun acc cx => let '(a, b, c) := acc in let '(n, i, v) := fcode (snd cx) in
                           (a + n, b + i * fst cx, c + fst cx * v)) l (0, 0, 0).
Definition fbal_cksum (r : option fbal_result) : Z * Z * Z * Z :=   (* (tag, NaNs, infinities, code sum) *)
  match r with
  | None => (-1, 0, 0, 0)
  | Some (FRaw out) => (0, zlen out, 0, cksum_set out)
  | Some (FDense d) =>
      let cells := flat_map (fun ir => map (fun jc => (1 + 31 * fst ir + 1009 * fst jc, snd jc)) (enumerate (snd ir))) (enumerate d) in
      let '(a, b, c) := fsum cells in (1, a, b, c)
  | Some (FSparse l) =>
      let '(a, b, c) := fsum (map (fun e => (1 + 7 * fst (fst e) + 131 * snd (fst e), snd e)) l) in (2, a + 1000 * zlen l, b, c)
  | Some (FPixels l) =>
      let '(a, b, c) := fsum (map (fun ke => ((fst ke + 1) * (1 + 7 * row (snd (fst (snd ke))) + 131 * col (snd (fst (snd ke)))), snd (snd ke))) (enumerate l)) in
      (3, a + 1000 * zlen l, b, c)
  end.
Definition all_window_fbal_cksums (n : Z) (px : list pixel) (off : list Z) (cs : Z) (fill : bool) (form : outform)
           (w : option (option (list float))) (divisive : bool) : list (Z * Z * Z * Z) :=
  map (fun bb => fbal_cksum (fmatrix_balanced (epx_of px) off cs fill form w divisive bb)) (all_windows n).
