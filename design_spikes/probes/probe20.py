import time, numpy as np, pandas as pd, cooler, warnings; warnings.filterwarnings("ignore")
t=time.time()
n=1500; cs=pd.Series({"a":n*10}); bins=cooler.binnify(cs,10)
i,j=np.triu_indices(n); keep=(np.arange(len(i))%1)==0
px=pd.DataFrame({"bin1_id":i,"bin2_id":j,"count":np.ones(len(i),int)})
print(len(px))
cooler.create_cooler("big.cool",bins,px,ordered=True)
c=cooler.Cooler("big.cool"); off=c._load_dset("indexes/bin1_offset"); b1=c._load_dset("pixels/bin1_id")
print(np.array_equal(off,np.searchsorted(b1,np.arange(n+1))), time.time()-t)
