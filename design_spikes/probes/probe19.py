import warnings; warnings.filterwarnings("ignore")
import patch_gb
import numpy as np, pandas as pd, cooler, itertools, subprocess, sys, os, io, csv
from click.testing import CliRunner
from cooler.cli import cli
rng=np.random.default_rng(9)
cs=pd.Series({"a":35,"b":20}); bins=cooler.binnify(cs,10); n=len(bins)
b2=bins.copy(); w=rng.random(n)+0.5; w[1]=np.nan; b2["weight"]=w; b2["gc"]=np.arange(n)*0.5
M=np.triu((rng.random((n,n))<0.7)*rng.integers(1,9,(n,n))); i,j=np.nonzero(M)
cooler.create_cooler("d.cool",b2,pd.DataFrame({"bin1_id":i,"bin2_id":j,"count":M[i,j]}))
c=cooler.Cooler("d.cool"); runner=CliRunner()
def dump(*args):
    r=runner.invoke(cli,["dump",*args,"d.cool"]); 
    if r.exit_code!=0: return ("ERR",r.exit_code,str(r.exception)[:60])
    return [l.split("\t") for l in r.output.strip("\n").split("\n") if l!=""]
base=dump()
print("base rows",len(base),"nnz",c.info["nnz"])
# regions + fill-lower vs API
bad=0
for r1,r2 in (("a",None),("a","b"),("b","a"),("a:10-30","a:0-20"),("a:5-6","b")):
    for fl in (False,True):
        args=["-r",r1]+(["-r2",r2] if r2 else [])+(["-f"] if fl else [])
        out=dump(*args)
        i0,i1=c.extent(r1); j0,j1=c.extent(r2 or r1)
        if fl:
            A=c.matrix(balance=False,sparse=True)[i0:i1,j0:j1]; exp=sorted((int(a)+i0,int(b)+j0,int(v)) for a,b,v in zip(A.row,A.col,A.data))
            got=sorted((int(a),int(b),int(v)) for a,b,v in out)
        else:
            df=c.matrix(balance=False,as_pixels=True)[i0:i1,j0:j1]; exp=[tuple(map(int,x)) for x in df.values]; got=[(int(a),int(b),int(v)) for a,b,v in out]
        if got!=exp: bad+=1; print("DUMP REGION MISMATCH",args,got[:3],exp[:3])
print("region bad",bad)
print("join+annotate:",dump("--join","--annotate","gc","-H")[:2])
print("balanced:",dump("-b")[:2], "na-rep:", dump("-b","--na-rep","NA")[1:3])
print("one-based-ids+join:",dump("--join","--one-based-ids")[:1])
print("one-based-ids+b:",dump("-b","--one-based-ids")[:1], "vs", dump("-b")[:1])
print("chunksize 1:",dump("-k","1")==base, dump("-k","1","-f","-r","a")==dump("-f","-r","a"), sorted(dump("-k","1","-f","-r","a"))==sorted(dump("-f","-r","a")))
print("table bins cols:",dump("-t","bins","-c","start,end")[:2], dump("-t","chroms")[:2])
