(** C15  File-level operations preserve content and touch nothing else.
    Only statements about the object-store model (Model/H5.v), each closed by a lemma of
    Proofs/H5Proofs.v.  [world_le w w'] = every object of both files is still there with the
    same attributes/payload and every link it had (links and objects were only added). *)
From Cooler Require Import Model.H5 Proofs.H5Proofs.

(** path resolution is monotone: adding links/objects never changes what an already resolving
    path denotes (aliasing through hard, soft and external links included) *)
Theorem C15_resolution_monotone : forall w w' f p f1 o1,
  world_le w w' -> resolves w f p f1 o1 -> resolves w' f p f1 o1.
Proof. intros w w' f p f1 o1. apply resolves_mono. Qed.
Print Assumptions C15_resolution_monotone.

(** frame of cp / ln / ln -s (no overwrite flag), whatever the outcome (success or any error):
    nothing is removed or modified in either file *)
Theorem C15_copy_link_frame : forall w sf sp df dp link soft e w',
  _copy w sf sp df dp false link false soft = (e, w') ->
  (sf = df \/ dp <> [] \/ link = true \/ soft = true) ->
  world_le w w'.
Proof. exact copy_frame. Qed.
Print Assumptions C15_copy_link_frame.

(** the root-destination special case of a cross-file copy additionally updates the root attributes *)
Theorem C15_copy_root_frame : forall w sf sp df e w', sf <> df ->
  _copy w sf sp df [] false false false false = (e, w') ->
  exists w2 a, world_le w w2 /\ (w' = w2 \/ w' = set_attrs w2 df 0%nat a).
Proof. exact copy_root_frame. Qed.
Print Assumptions C15_copy_root_frame.

(** ln (hard): the destination path denotes the very object the source denoted *)
Theorem C15_ln_same_object : forall w f sp dp w',
  ln w f sp f dp false false = (Ok, w') ->
  exists fo o, resolve w f sp = Found fo o /\ resolves w' f dp fo o /\ world_le w w'.
Proof. exact ln_spec. Qed.
Print Assumptions C15_ln_same_object.

(** ---- the full statements that are FALSE of the faithful model (known findings), with witnesses *)

(** "listing = exactly the collections held" fails on a hard link to an ancestor (D14a): the traversal
    never terminates within its budget (RecursionError) although /a/b is a collection *)
Theorem C15_listing_exact_refuted_cycle :
  list_coolers w_cycle FA = (ERecursion, []) /\ is_cooler w_cycle FA ["a"; "b"]%string = TTrue.
Proof. exact listing_cycle_refuted. Qed.
Print Assumptions C15_listing_exact_refuted_cycle.

(** ... on an external link (D14b): /e is a collection of file B but the listing reports /x *)
Theorem C15_listing_exact_refuted_external :
  list_coolers w_ext FB = (Ok, [sx]) /\ is_cooler w_ext FB ["e"%string] = TTrue /\ is_cooler w_ext FB sx = TFalse.
Proof. exact listing_external_refuted. Qed.
Print Assumptions C15_listing_exact_refuted_external.

(** ... on a dangling link (D14c): the listing raises although /z is a collection *)
Theorem C15_listing_exact_refuted_dangling :
  list_coolers w_dangling FA = (EAttr, []) /\ is_cooler w_dangling FA ["z"%string] = TTrue /\
  is_cooler w_dangling FA ["y"%string] = TFalse.
Proof. exact listing_dangling_refuted. Qed.
Print Assumptions C15_listing_exact_refuted_dangling.

(** "after mv the destination reads as the source" fails for a destination inside the moved group (D23) *)
Theorem C15_mv_spec_refuted :
  let w := run world0 [OCreate FA sx false (tiny 1)] in
  let r := mv w FA sx FA sxy false in
  fst r = Ok /\ resolve (snd r) FA sxy = Missing true /\
  resolve (snd r) FA sx = Missing false /\ list_coolers (snd r) FA = (Ok, []).
Proof. exact mv_spec_refuted. Qed.
Print Assumptions C15_mv_spec_refuted.

(** "a failed operation leaves both files unchanged" fails for mv of the root collection (D24) ... *)
Theorem C15_error_frame_refuted_mv_root :
  let w := run world0 [OCreate FA [] false (tiny 1)] in
  let r := mv w FA [] FA sx false in
  fst r = EKey /\ is_cooler w FA sx = TFalse /\ is_cooler (snd r) FA sx = TTrue.
Proof. exact mv_root_error_changes_file. Qed.
Print Assumptions C15_error_frame_refuted_mv_root.

(** ... and under the overwrite flag (documented: the destination file is truncated first) *)
Theorem C15_error_frame_refuted_overwrite :
  let w := run world0 [OCreate FA sx false (tiny 1); OCreate FB sx false (tiny 2)] in
  let r := ln w FA sx FB ["y"%string] false true in
  fst r = EOS /\ is_cooler w FB sx = TTrue /\ is_cooler (snd r) FB sx = TFalse.
Proof. exact error_frame_overwrite_refuted. Qed.
Print Assumptions C15_error_frame_refuted_overwrite.

(** "a soft link reads as its source" fails when the destination lies behind an external link (D26) *)
Theorem C15_ln_soft_refuted_behind_external :
  let w := run world0 [OCreate FA sxy false (tiny 1); OCreate FB ["z"%string] false (tiny 2);
                       OCopy FA sxy FB sx false false false true] in
  let r := ln w FB ["z"%string] FB sxy true false in
  fst r = Ok /\ is_cooler w FB ["z"%string] = TTrue /\ is_cooler (snd r) FB sxy = TFalse /\
  lookup_link (snd r) FA 2%nat "y"%string = Some (Soft ["z"%string]).
Proof. exact lns_behind_external_refuted. Qed.
Print Assumptions C15_ln_soft_refuted_behind_external.

(** non-vacuity: a concrete successful hard link *)
Example ex_C15_ln :
  let w := run world0 [OCreate FA sx false (tiny 1)] in
  let r := ln w FA sx FA ["z"%string] false false in
  fst r = Ok /\ resolve (snd r) FA ["z"%string] = resolve w FA sx /\ resolve w FA sx = Found FA 1%nat.
Proof. exact ex_ln_ok. Qed.
