(** C15  File-level operations preserve content and touch nothing else.
    Only statements about the object-store model (Model/H5.v), each closed by a lemma of
    Proofs/H5Proofs.v.  [world_le w w'] = every object of both files is still there with the
    same attributes/payload and every link it had (links and objects were only added). *)
From Cooler Require Import Model.H5 Proofs.H5Proofs.

(** path resolution is monotone: adding links/objects never changes what an already resolving
    path denotes (aliasing through hard, soft and external links included) *)
Theorem C15_resolution_monotone : forall w w' f p f1 o1,
  world_le w w' -> resolves w f p f1 o1 -> resolves w' f p f1 o1.
Proof. intros w w' f p f1 o1. apply resolves_mono. Qed.
Print Assumptions C15_resolution_monotone.

(** frame of cp / ln / ln -s (no overwrite flag), whatever the outcome (success or any error):
    nothing is removed or modified in either file *)
Theorem C15_copy_link_frame : forall w sf sp df dp link soft e w',
  _copy w sf sp df dp false link false soft = (e, w') ->
  (sf = df \/ dp <> [] \/ link = true \/ soft = true) ->
  world_le w w'.
Proof. exact copy_frame. Qed.
Print Assumptions C15_copy_link_frame.

(** the root-destination special case of a cross-file copy additionally updates the root attributes *)
Theorem C15_copy_root_frame : forall w sf sp df e w', sf <> df ->
  _copy w sf sp df [] false false false false = (e, w') ->
  exists w2 a, world_le w w2 /\ (w' = w2 \/ w' = set_attrs w2 df 0%nat a).
Proof. exact copy_root_frame. Qed.
Print Assumptions C15_copy_root_frame.

(** ln (hard): the destination path denotes the very object the source denoted *)
Theorem C15_ln_same_object : forall w f sp dp w',
  ln w f sp f dp false false = (Ok, w') ->
  exists fo o, resolve w f sp = Found fo o /\ resolves w' f dp fo o /\ world_le w w'.
Proof. exact ln_spec. Qed.
Print Assumptions C15_ln_same_object.
