(** C19 x C04  From a region STRING to the bins it selects.
    api.Cooler.extent / bins().fetch / pixels().fetch / matrix().fetch all run
        region_to_extent(grp, self._chromids, parse_region(region, self._chromsizes), self.binsize)
    with  _chromsizes = Series(name -> length)  and  _chromids = dict(zip(names, range(n))).
    This file composes the string parser of C19 (Model/Text.v) with builder A's extent model of C04
    (Model/Extent.v, Proofs/ExtentProofs.v): the only new definitions are the glue between a chromosome
    NAME (what the parser returns) and its INDEX (what the extent model takes). *)
From Coq Require Import ZifyBool.
From Cooler Require Import Model.Text Model.Extent Proofs.BinsProofs.
From Cooler Require Proofs.TextProofs Proofs.ExtentProofs.
Import TextProofs.

(** ------------------------------------------------------------ glue (executable) *)
(** _chromids[name] for distinct names: position of the name in the chromosome list *)
Fixpoint index_of (c : str) (names : list str) : option nat :=
  match names with
  | [] => None
  | n :: r => if str_eqb n c then Some O else option_map S (index_of c r)
  end.

(** _chromsizes: name -> length of the chromosome (end of its last bin) *)
Definition chromsizes_table (names : list str) (blocks : list (list bin)) : Text.chromsizes :=
  combine names (Extent.chromsizes blocks).

(** Cooler.extent(region_string) *)
Definition extent_of_string (names : list str) (blocks : list (list bin)) (s : str) : option (Z * Z) :=
  match Text.parse_region s (Some (chromsizes_table names blocks)) with
  | None => None                                                      (* ValueError: nothing is looked up *)
  | Some (c, a, b) =>
      match index_of c names with
      | None => None                                                  (* cannot happen, see below *)
      | Some i => Some (region_to_extent blocks i a b)
      end
  end.

(** Cooler.bins().fetch(region_string) *)
Definition bins_fetch_string (names : list str) (blocks : list (list bin)) (s : str) : option (list bin) :=
  match extent_of_string names blocks s with
  | None => None
  | Some (lo, hi) => Some (slice (table blocks) lo hi)
  end.

(** ------------------------------------------------------------ name <-> index *)
Lemma lookup_combine_index : forall names sizes c, length names = length sizes ->
  lookup c (combine names sizes) =
  match index_of c names with None => None | Some i => nth_error sizes i end.
Proof.
  induction names as [|n names IH]; intros sizes c Hl; [reflexivity|].
  destruct sizes as [|L sizes]; [discriminate|]. simpl.
  destruct (str_eqb n c); [reflexivity|].
  rewrite IH by (simpl in Hl; lia). destruct (index_of c names); reflexivity.
Qed.

Lemma index_of_nth : forall names i name,
  NoDup names -> nth_error names i = Some name -> index_of name names = Some i.
Proof.
  induction names as [|n names IH]; intros i name Hnd Hi; [now destruct i|].
  inversion Hnd as [|? ? Hnot Hnd']; subst. destruct i as [|i]; simpl in *.
  - inversion Hi; subst. assert (str_eqb name name = true) as -> by now apply str_eqb_eq. reflexivity.
  - destruct (str_eqb n name) eqn:E.
    + apply str_eqb_eq in E. subst. exfalso. apply Hnot. eapply nth_error_In; eauto.
    + now rewrite (IH i name Hnd' Hi).
Qed.

Lemma index_of_sound : forall names c i, index_of c names = Some i -> nth_error names i = Some c.
Proof.
  induction names as [|n names IH]; intros c i H; [discriminate|]. simpl in H.
  destruct (str_eqb n c) eqn:E.
  - inversion H; subst. apply str_eqb_eq in E. now subst.
  - destruct (index_of c names) as [j|] eqn:J; [|discriminate]. inversion H; subst. simpl. now apply IH.
Qed.

(** the bounds check of the string parser IS the bounds check of the extent model, name for index *)
Lemma check_region_extent : forall names sizes c oa ob, length names = length sizes ->
  check_region (c, oa, ob) (Some (combine names sizes)) =
  match index_of c names with
  | None => None
  | Some i => match Extent.parse_region sizes i oa ob with
              | None => None
              | Some (_, a, b) => Some (c, a, b)
              end
  end.
Proof.
  intros names sizes c oa ob Hl. unfold check_region. rewrite lookup_combine_index by assumption.
  destruct (index_of c names) as [i|]; [|reflexivity].
  unfold Extent.parse_region. destruct (nth_error sizes i) as [L|]; [|reflexivity].
  destruct oa as [a|]; destruct ob as [b|]; simpl;
    repeat match goal with |- context [if ?x then _ else _] => destruct x eqn:? end; reflexivity.
Qed.

(** BRIDGE: fetching with a string = parsing the string (C19) and then running the extent model (C04)
    on the index of the parsed name.  Every C04 theorem about [extent] transfers through this equation. *)
Theorem extent_of_string_eq : forall names blocks s, length names = length blocks ->
  extent_of_string names blocks s =
  match parse_region_string s with
  | None => None
  | Some (c, oa, ob) =>
      match index_of c names with
      | None => None
      | Some i => Extent.extent blocks i oa ob
      end
  end.
Proof.
  intros names blocks s Hl. unfold extent_of_string, Text.parse_region, chromsizes_table.
  destruct (parse_region_string s) as [[[c oa] ob]|]; [|reflexivity].
  rewrite check_region_extent by (unfold Extent.chromsizes; now rewrite map_length).
  destruct (index_of c names) as [i|] eqn:I; [|reflexivity].
  unfold Extent.extent.
  destruct (Extent.parse_region (Extent.chromsizes blocks) i oa ob) as [[[i' a] b]|] eqn:P; [|reflexivity].
  rewrite I. apply ExtentProofs.parse_region_sound in P as (L & _ & -> & _). reflexivity.
Qed.

(** ------------------------------------------------------------ the statements a user relies on *)
Section Fetch.
  Variables (names : list str) (blocks : list (list bin)).
  Hypothesis Hlen : length names = length blocks.
  Hypothesis Hnd : NoDup names.
  Hypothesis HV : ValidBlocks blocks.

  Lemma chromsizes_nth : forall i blk, nth_error blocks i = Some blk ->
    nth_error (Extent.chromsizes blocks) i = Some (chrom_len blk).
  Proof. intros i blk H. unfold Extent.chromsizes. now apply map_nth_error. Qed.

  (** any string that parses to (name, Some s, Some e) with 0 <= s < e <= L_i selects exactly the
      bins of chromosome i that overlap [s, e) *)
  Lemma extent_of_parsed_closed : forall str name i blk s e,
    parse_region_string str = Some (name, Some s, Some e) ->
    nth_error names i = Some name -> nth_error blocks i = Some blk ->
    0 <= s < e -> e <= chrom_len blk ->
    exists lo hi, extent_of_string names blocks str = Some (lo, hi) /\
      (forall k : nat, lo <= Z.of_nat k < hi <->
         exists x, nth_error (table blocks) k = Some x /\ bchrom x = Z.of_nat i /\ bstart x < e /\ s < bend x) /\
      chrom_offset blocks i <= lo < hi /\ hi <= chrom_offset blocks (S i) /\
      bins_fetch_string names blocks str = Some (filter (overlaps_b i s e) (table blocks)).
  Proof.
    intros str name i blk s e Hp Hn Hb Hse HeL.
    pose proof (extent_of_string_eq names blocks str Hlen) as E. rewrite Hp in E.
    rewrite (index_of_nth names i name Hnd Hn) in E.
    unfold Extent.extent in E.
    rewrite (ExtentProofs.parse_region_complete _ i (Some s) (Some e) (chrom_len blk)) in E
      by (try apply chromsizes_nth; simpl; try assumption; lia).
    simpl in E.
    pose proof (ExtentProofs.extent_overlap blocks i blk s e HV Hb Hse HeL) as O.
    pose proof (ExtentProofs.bins_fetch_overlap blocks i blk s e HV Hb Hse HeL) as B.
    unfold bins_fetch, Extent.extent in B.
    rewrite (ExtentProofs.parse_region_complete _ i (Some s) (Some e) (chrom_len blk)) in B
      by (try apply chromsizes_nth; simpl; try assumption; lia).
    simpl in B.
    destruct (region_to_extent blocks i s e) as [lo hi]. destruct O as (O1 & O2 & O3).
    exists lo, hi. split; [exact E|]. split; [exact O1|]. split; [exact O2|]. split; [exact O3|].
    unfold bins_fetch_string. rewrite E. exact B.
  Qed.

  (** "name:s-e" written with plain digits *)
  Theorem fetch_string_overlap : forall name i blk s e,
    name_ok_b name = true -> nth_error names i = Some name -> nth_error blocks i = Some blk ->
    0 <= s < e -> e <= chrom_len blk ->
    exists lo hi, extent_of_string names blocks (fmt_region name s e) = Some (lo, hi) /\
      (forall k : nat, lo <= Z.of_nat k < hi <->
         exists x, nth_error (table blocks) k = Some x /\ bchrom x = Z.of_nat i /\ bstart x < e /\ s < bend x) /\
      chrom_offset blocks i <= lo < hi /\ hi <= chrom_offset blocks (S i) /\
      bins_fetch_string names blocks (fmt_region name s e) = Some (filter (overlaps_b i s e) (table blocks)).
  Proof.
    intros name i blk s e Hok Hn Hb Hse HeL.
    apply (extent_of_parsed_closed _ name i blk s e); try assumption.
    apply parse_format_roundtrip; [assumption|lia].
  Qed.

  (** ... with thousands separators (any comma placement; f"{z:,}" in particular) *)
  Theorem fetch_string_overlap_commas : forall name i blk s e cs ce,
    name_ok_b name = true -> nth_error names i = Some name -> nth_error blocks i = Some blk ->
    0 <= s < e -> e <= chrom_len blk ->
    forallb is_digit_or_comma cs = true -> remove_commas cs = dec s ->
    forallb is_digit_or_comma ce = true -> remove_commas ce = dec e ->
    exists lo hi, extent_of_string names blocks (name ++ c_colon :: cs ++ c_hyphen :: ce) = Some (lo, hi) /\
      (forall k : nat, lo <= Z.of_nat k < hi <->
         exists x, nth_error (table blocks) k = Some x /\ bchrom x = Z.of_nat i /\ bstart x < e /\ s < bend x) /\
      chrom_offset blocks i <= lo < hi /\ hi <= chrom_offset blocks (S i) /\
      bins_fetch_string names blocks (name ++ c_colon :: cs ++ c_hyphen :: ce)
        = Some (filter (overlaps_b i s e) (table blocks)).
  Proof.
    intros name i blk s e cs ce Hok Hn Hb Hse HeL H1 H2 H3 H4.
    apply (extent_of_parsed_closed _ name i blk s e); try assumption.
    apply parse_commas_roundtrip; try assumption. lia.
  Qed.

  Corollary fetch_string_overlap_grouped : forall name i blk s e,
    name_ok_b name = true -> nth_error names i = Some name -> nth_error blocks i = Some blk ->
    0 <= s < e -> e <= chrom_len blk ->
    bins_fetch_string names blocks (name ++ c_colon :: dec_commas s ++ c_hyphen :: dec_commas e)
      = Some (filter (overlaps_b i s e) (table blocks)).
  Proof.
    intros name i blk s e Hok Hn Hb Hse HeL.
    destruct (dec_commas_spec s) as [A1 A2]; [lia|]. destruct (dec_commas_spec e) as [B1 B2]; [lia|].
    destruct (fetch_string_overlap_commas name i blk s e _ _ Hok Hn Hb Hse HeL A2 A1 B2 B1)
      as (lo & hi & _ & _ & _ & _ & F). exact F.
  Qed.

  (** bare name: all bins of the chromosome, and nothing else *)
  Theorem fetch_bare_name : forall name i blk,
    name_ok_b name = true -> nth_error names i = Some name -> nth_error blocks i = Some blk ->
    extent_of_string names blocks name = Some (chrom_offset blocks i, chrom_offset blocks (S i)).
  Proof.
    intros name i blk Hok Hn Hb.
    rewrite extent_of_string_eq by assumption. rewrite parse_region_string_bare by assumption.
    rewrite (index_of_nth names i name Hnd Hn).
    now apply (ExtentProofs.extent_whole_chrom blocks i blk).
  Qed.

  (** open end "name:s-": the bins of the chromosome overlapping [s, L) *)
  Theorem fetch_open_end : forall name i blk s,
    name_ok_b name = true -> nth_error names i = Some name -> nth_error blocks i = Some blk ->
    0 <= s < chrom_len blk ->
    exists lo hi, extent_of_string names blocks (name ++ c_colon :: dec s ++ [c_hyphen]) = Some (lo, hi) /\
      (forall k : nat, lo <= Z.of_nat k < hi <->
         exists x, nth_error (table blocks) k = Some x /\ bchrom x = Z.of_nat i /\
                   bstart x < chrom_len blk /\ s < bend x) /\
      chrom_offset blocks i <= lo < hi /\ hi <= chrom_offset blocks (S i).
  Proof.
    intros name i blk s Hok Hn Hb Hs.
    pose proof (extent_of_string_eq names blocks (name ++ c_colon :: dec s ++ [c_hyphen]) Hlen) as E.
    rewrite parse_format_roundtrip_open in E by (assumption || lia).
    rewrite (index_of_nth names i name Hnd Hn) in E. unfold Extent.extent in E.
    rewrite (ExtentProofs.parse_region_complete _ i (Some s) None (chrom_len blk)) in E
      by (try apply chromsizes_nth; simpl; try assumption; lia).
    simpl in E.
    pose proof (ExtentProofs.extent_overlap blocks i blk s (chrom_len blk) HV Hb ltac:(lia) ltac:(lia)) as O.
    destruct (region_to_extent blocks i s (chrom_len blk)) as [lo hi]. destruct O as (O1 & O2 & O3).
    exists lo, hi. split; [exact E|]. split; [exact O1|]. split; [exact O2|exact O3].
  Qed.

  (** refused strings never reach region_to_extent: reversed, beyond the end, unknown name *)
  Theorem fetch_refused : forall name i blk s e,
    name_ok_b name = true -> nth_error names i = Some name -> nth_error blocks i = Some blk ->
    0 <= s -> 0 <= e ->
    (e < s \/ chrom_len blk < e) ->
    Text.parse_region (fmt_region name s e) (Some (chromsizes_table names blocks)) = None /\
    extent_of_string names blocks (fmt_region name s e) = None.
  Proof.
    intros name i blk s e Hok Hn Hb Hs He Hbad.
    assert (P : Text.parse_region (fmt_region name s e) (Some (chromsizes_table names blocks)) = None).
    { destruct (Z.lt_ge_cases e s) as [Hrev|Hord].
      - unfold Text.parse_region.
        pose proof (region_grammar_closed name [] (plain_tok (dec s)) [] [] (plain_tok (dec e)) [] Hok
                      eq_refl eq_refl eq_refl
                      (plain_tok_ok _ s (digits_are_dc _ (dec_digits s Hs)) (dec_remove_commas s Hs))
                      (plain_tok_ok _ e (digits_are_dc _ (dec_digits e He)) (dec_remove_commas e He)) I) as G.
        rewrite !plain_tok_str in G. simpl in G. rewrite app_nil_r in G.
        unfold fmt_region. rewrite G.
        rewrite (plain_tok_val (dec s) s), (plain_tok_val (dec e) e) by (try apply dec_remove_commas; lia).
        unfold region_result. assert ((e <? s) = true) as -> by lia. reflexivity.
      - apply (parse_region_format_beyond name s e _ (chrom_len blk)); try assumption; try lia.
        unfold chromsizes_table. rewrite lookup_combine_index by (unfold Extent.chromsizes; now rewrite map_length).
        rewrite (index_of_nth names i name Hnd Hn). now apply chromsizes_nth. }
    split; [exact P|]. unfold extent_of_string. now rewrite P.
  Qed.

  Theorem fetch_unknown_name : forall str c oa ob,
    parse_region_string str = Some (c, oa, ob) -> ~ In c names ->
    Text.parse_region str (Some (chromsizes_table names blocks)) = None /\
    extent_of_string names blocks str = None.
  Proof.
    intros str c oa ob Hp Hnot.
    assert (I0 : index_of c names = None).
    { destruct (index_of c names) as [i|] eqn:I; [|reflexivity].
      exfalso. apply Hnot. apply index_of_sound in I. eapply nth_error_In; eauto. }
    assert (P : Text.parse_region str (Some (chromsizes_table names blocks)) = None).
    { apply (parse_region_unknown_name str _ c oa ob Hp).
      unfold chromsizes_table. rewrite lookup_combine_index by (unfold Extent.chromsizes; now rewrite map_length).
      now rewrite I0. }
    split; [exact P|]. unfold extent_of_string. now rewrite P.
  Qed.

  (** conversely: whenever a string fetch reaches region_to_extent, it does so with a known chromosome
      and 0 <= start <= end <= its length, i.e. inside the hypotheses of the C04 theorems *)
  Theorem fetch_reaches_extent_in_bounds : forall str r,
    extent_of_string names blocks str = Some r ->
    exists c oa ob i blk a b,
      parse_region_string str = Some (c, oa, ob) /\ nth_error names i = Some c /\
      nth_error blocks i = Some blk /\ 0 <= a <= b /\ b <= chrom_len blk /\
      a = ExtentProofs.dflt 0 oa /\ b = ExtentProofs.dflt (chrom_len blk) ob /\
      r = region_to_extent blocks i a b.
  Proof.
    intros str r. rewrite extent_of_string_eq by assumption.
    destruct (parse_region_string str) as [[[c oa] ob]|]; [|discriminate].
    destruct (index_of c names) as [i|] eqn:I; [|discriminate].
    unfold Extent.extent.
    destruct (Extent.parse_region (Extent.chromsizes blocks) i oa ob) as [[[i' a] b]|] eqn:P; [|discriminate].
    intros H; inversion H; subst r.
    apply ExtentProofs.parse_region_sound in P as (L & HL & -> & -> & -> & H1 & H2).
    unfold Extent.chromsizes in HL. rewrite nth_error_map in HL.
    destruct (nth_error blocks i) as [blk|] eqn:Hb; [|discriminate]. inversion HL; subst L.
    exists c, oa, ob, i, blk, (ExtentProofs.dflt 0 oa), (ExtentProofs.dflt (chrom_len blk) ob).
    repeat split; try assumption; try reflexivity; try lia. now apply index_of_sound.
  Qed.
End Fetch.

(** ------------------------------------------------------------ URI normal form (used by C15's uri_slash) *)
Definition render_uri (r : str * str) : str := fst r ++ c_colon :: c_colon :: snd r.

Lemma norm_group_idem : forall g, norm_group (norm_group g) = norm_group g.
Proof.
  intros [|c g]; [reflexivity|]. cbn [norm_group]. destruct (is_slash c) eqn:E.
  - cbn [norm_group]. now rewrite E.
  - reflexivity.
Qed.

Lemma norm_group_no_dcolon : forall g, no_dcolon g = true -> no_dcolon (norm_group g) = true.
Proof.
  intros [|c g] H; [reflexivity|]. unfold norm_group. destruct (is_slash c); [assumption|].
  change (no_dcolon (c_slash :: c :: g)) with (negb (is_colon c_slash && is_colon c) && no_dcolon (c :: g)).
  now rewrite H.
Qed.

(** parse, render, parse again: the rendered URI is a fixed point (normal form) *)
Theorem uri_normal_form : forall f g,
  no_dcolon f = true -> last_notcolon f = true -> no_dcolon g = true ->
  exists r, parse_cooler_uri (f ++ c_colon :: c_colon :: g) = Some r /\
            r = (f, norm_group g) /\
            parse_cooler_uri (render_uri r) = Some r.
Proof.
  intros f g Hf Hl Hg. exists (f, norm_group g). split; [now apply uri_split|]. split; [reflexivity|].
  unfold render_uri. simpl. rewrite uri_split; try assumption.
  - now rewrite norm_group_idem.
  - now apply norm_group_no_dcolon.
Qed.

Lemma split_dcolon_head : forall c2 r2 h t, split_dcolon (c2 :: r2) = h :: t -> h = [] \/ exists h', h = c2 :: h'.
Proof.
  intros c2 [|c3 r3] h t H.
  - simpl in H. inversion H; subst. right. now exists [].
  - rewrite split_dcolon_cons2 in H. destruct (is_colon c2 && is_colon c3).
    + inversion H; subst. now left.
    + destruct (split_dcolon (c3 :: r3)) as [|h0 t0]; inversion H; subst; right; eauto.
Qed.

(** no part of a split contains a separator *)
Lemma split_dcolon_parts : forall n s, (length s <= n)%nat -> Forall (fun p => no_dcolon p = true) (split_dcolon s).
Proof.
  induction n as [|n IH]; intros s Hl.
  - destruct s; [repeat constructor|simpl in Hl; lia].
  - destruct s as [|c [|c2 r2]]; try (repeat constructor).
    rewrite split_dcolon_cons2.
    destruct (is_colon c && is_colon c2) eqn:E.
    + constructor; [reflexivity|]. apply IH. simpl in Hl. lia.
    + pose proof (IH (c2 :: r2) ltac:(simpl in *; lia)) as F.
      destruct (split_dcolon (c2 :: r2)) as [|h t] eqn:S; [repeat constructor|].
      inversion F as [|? ? Fh Ft]; subst. constructor; [|assumption].
      destruct (split_dcolon_head _ _ _ _ S) as [->|[h' ->]]; [reflexivity|].
      change (no_dcolon (c :: c2 :: h')) with (negb (is_colon c && is_colon c2) && no_dcolon (c2 :: h')).
      now rewrite E, Fh.
Qed.

(** for EVERY accepted URI (file part not ending in ':'): rendering the parsed pair and parsing again
    gives the same pair *)
Theorem uri_render_idempotent : forall s r,
  parse_cooler_uri s = Some r -> last_notcolon (fst r) = true ->
  parse_cooler_uri (render_uri r) = Some r.
Proof.
  intros s [f g]. unfold parse_cooler_uri at 1.
  pose proof (split_dcolon_parts _ s (le_n _)) as F.
  destruct (split_dcolon s) as [|p0 [|p1 [|p2 t]]]; try discriminate.
  - inversion F as [|? ? F0 _]; subst. intros H Hl; inversion H; subst. simpl in Hl.
    unfold render_uri. simpl fst. simpl snd. now rewrite uri_split by (assumption || reflexivity).
  - inversion F as [|? ? F0 F']; subst. inversion F' as [|? ? F1 _]; subst.
    intros H Hl; inversion H; subst. simpl in Hl.
    assert (N : match p1 with [] => c_slash :: p1 | c :: _ => if is_slash c then p1 else c_slash :: p1 end
                = norm_group p1) by (destruct p1; reflexivity).
    rewrite N. unfold render_uri. simpl fst. simpl snd.
    rewrite uri_split; try assumption; [now rewrite norm_group_idem|now apply norm_group_no_dcolon].
Qed.
