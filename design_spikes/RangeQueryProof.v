From Coq Require Import ZArith List Bool Lia ZifyBool Permutation.
Import ListNotations.
Open Scope Z_scope.

Definition pixel := (Z * Z * Z)%type.
Definition row (p:pixel) := fst (fst p).
Definition col (p:pixel) := snd (fst p).
Definition val (p:pixel) := snd p.
Definition coord (p:pixel) := fst p.
Definition inb (lo hi x:Z) := (lo <=? x) && (x <? hi).
Definition flip (p:pixel) : pixel := (col p, row p, val p).
Definition reader (px:list pixel) (i1 j0 j1 s0 s1:Z) (reflect:bool) : list pixel :=
  let base := filter (fun p => inb s0 s1 (row p) && inb j0 j1 (col p)) px in
  if reflect then base ++ map flip (filter (fun p => negb (row p =? col p) && (col p <? i1)) base)
  else base.
Definition transpose (l:list pixel) := map flip l.
Definition comes_before (a0 a1 b0 b1:Z) (strict:bool) :=
  if a0 <? b0 then (if strict then a1 <=? b0 else a1 <=? b1) else false.
Definition task (px:list pixel) (tr:bool) (bb:Z*Z*Z*Z) : list pixel :=
  let '(x0,x1,y0,y1) := bb in
  let r := reader px x1 y0 y1 x0 x1 true in if tr then transpose r else r.
Definition fill_lower (px:list pixel) (i0 i1 j0 j1:Z) : list pixel :=
  let ut := j1 <? i1 in
  let '(a0,a1,b0,b1) := if ut then (j0,j1,i0,i1) else (i0,i1,j0,j1) in
  if (a0 =? b0) || comes_before a0 a1 b0 b1 true then task px ut (a0,a1,b0,b1)
  else if comes_before a0 a1 b0 b1 false then task px ut (a0,b0,b0,b1) ++ task px ut (b0,a1,b0,b1)
  else task px (negb ut) (b0,a0,a0,a1) ++ task px ut (a0,a1,a0,b1).

(* spec: symmetric completion membership *)
Definition Upper (px:list pixel) := forall p, In p px -> row p <= col p.
Definition InSymm (px:list pixel) (q:pixel) := In q px \/ (row q <> col q /\ In (flip q) px).

Definition pixel_eqb (p q:pixel) := (row p =? row q) && (col p =? col q) && (val p =? val q).
Definition memb (q:pixel) (px:list pixel) := existsb (pixel_eqb q) px.
Lemma memb_In q px : In q px <-> memb q px = true.
Proof. unfold memb. rewrite existsb_exists. split.
  - intro H. exists q. split; auto. unfold pixel_eqb. rewrite !Z.eqb_refl. reflexivity.
  - intros [x [H1 H2]]. unfold pixel_eqb in H2. destruct q as [[a b] c], x as [[a' b'] c']; unfold row,col,val in *; cbn in *.
    assert (a=a' /\ b=b' /\ c=c') as (->&->&->) by lia. exact H1.
Qed.
Lemma flip_flip p : flip (flip p) = p.
Proof. destruct p as [[a b] c]; reflexivity. Qed.

Lemma in_reader px i1 j0 j1 s0 s1 q :
  In q (reader px i1 j0 j1 s0 s1 true) <->
  (In q px /\ s0 <= row q < s1 /\ j0 <= col q < j1) \/
  (In (flip q) px /\ s0 <= col q < s1 /\ j0 <= row q < j1 /\ row q <> col q /\ row q < i1).
Proof.
  unfold reader. rewrite in_app_iff, in_map_iff. setoid_rewrite filter_In. setoid_rewrite filter_In.
  unfold inb. split.
  - intros [[H1 H2]|[p [Hp [[H1 H2] H3]]]].
    + left. split; auto. lia.
    + right. subst q. rewrite flip_flip. unfold flip, row, col in *; cbn in *. split; auto. lia.
  - intros [[H1 H2]|[H1 H2]].
    + left. split; auto. lia.
    + right. exists (flip q). rewrite flip_flip. split; auto. unfold flip, row, col in *; cbn in *. repeat split; auto; lia.
Qed.

Theorem fill_lower_in px i0 i1 j0 j1 q :
  Upper px -> i0 <= i1 -> j0 <= j1 ->
  (In q (fill_lower px i0 i1 j0 j1) <-> (InSymm px q /\ i0 <= row q < i1 /\ j0 <= col q < j1)).
Proof.
  intros HU Hi Hj. unfold fill_lower, InSymm.
  assert (HUq: In q px -> row q <= col q) by (intro; auto).
  assert (HUf: In (flip q) px -> col q <= row q).
  { intro H. apply HU in H. destruct q as [[a b] c]; unfold flip,row,col in *; cbn in *; lia. }
  destruct (j1 <? i1) eqn:Eut; cbn [negb];
  repeat match goal with
  | |- context [if ?b then _ else _] => destruct b eqn:?
  end; unfold task, transpose; cbn [negb];
  rewrite ?in_app_iff, ?in_map_iff;
  repeat match goal with
  | |- context [exists x, flip x = ?q /\ In x (reader ?a ?b ?c ?d ?e ?f ?g)] =>
      let H := fresh in
      assert (H: (exists x, flip x = q /\ In x (reader a b c d e f g)) <-> In (flip q) (reader a b c d e f g));
      [ split; [intros [x [Hx1 Hx2]]; subst q; rewrite flip_flip; exact Hx2 | intro Hx; exists (flip q); rewrite flip_flip; auto] | rewrite H; clear H ]
  end;
  rewrite ?in_reader, ?flip_flip;
  unfold comes_before in *;
  destruct q as [[a b] c]; unfold flip, row, col in *; cbn [fst snd] in *;
  repeat match goal with H: context [if ?b then _ else _] |- _ => destruct b eqn:? end;
  unfold val in *; cbn [snd] in *; destruct (Z.eq_dec a b) as [->|Hne]; clear HU; rewrite !memb_In in *; repeat match goal with |- context [memb ?q px] => generalize dependent (memb q px); intros end; try lia.
Qed.
Print Assumptions fill_lower_in.
