(** Proofs about the k-way merge model (Model/Merge.v): C07 and C06. *)
From Cooler Require Import Model.Merge Proofs.PixelsProofs Proofs.BinsProofs.
From Coq Require Import Sorted Permutation ZifyBool Arith.

(* ================================================================== A. merge_breakpoints *)

(** monotone (non-decreasing) offset array, positional form *)
Definition MonoN (l : list Z) : Prop :=
  forall i j, (i <= j < length l)%nat -> nth i l 0 <= nth j l 0.

Lemma ssorted_mono l : StronglySorted Z.le l -> MonoN l.
Proof.
  induction 1 as [|a l HS IH HF]; intros i j Hij; cbn [length] in Hij.
  - lia.
  - destruct i as [|i], j as [|j]; cbn [nth]; try lia.
    + rewrite Forall_forall in HF. apply HF. apply nth_In. lia.
    + apply IH. lia.
Qed.
Lemma sorted_mono l : Sorted Z.le l -> MonoN l.
Proof. intros H. apply ssorted_mono. apply Sorted_StronglySorted; [|exact H]. intros x y z; lia. Qed.

Lemma nth_skipn {A} (l : list A) lo i d : nth i (skipn lo l) d = nth (lo + i) l d.
Proof.
  revert l. induction lo as [|lo IH]; intros l; [reflexivity|].
  destruct l as [|x l]; cbn [skipn plus]; [destruct i; reflexivity|]. apply IH.
Qed.

Lemma count_le_facts l x :
  (count_le l x <= length l)%nat /\
  (forall i, (i < count_le l x)%nat -> nth i l 0 <= x) /\
  ((count_le l x < length l)%nat -> x < nth (count_le l x) l 0).
Proof.
  induction l as [|y r (IH1 & IH2 & IH3)]; cbn [count_le length].
  - repeat split; intros; lia.
  - destruct (y <=? x) eqn:E.
    + repeat split; [lia| |intros; cbn [nth]; apply IH3; lia].
      intros [|i] Hi; cbn [nth]; [lia|apply IH2; lia].
    + repeat split; [lia|intros; lia|intros _; cbn [nth]; lia].
Qed.

Lemma bisect_right_facts ci x lo : (lo <= length ci)%nat ->
  let r := bisect_right ci x lo in
  (lo <= r <= length ci)%nat /\
  (forall i, (lo <= i < r)%nat -> nth i ci 0 <= x) /\
  ((r < length ci)%nat -> x < nth r ci 0).
Proof.
  intros Hlo r. unfold bisect_right in r.
  destruct (count_le_facts (skipn lo ci) x) as (F1 & F2 & F3).
  rewrite skipn_length in F1, F3. subst r. repeat split; try lia.
  - intros i Hi. specialize (F2 (i - lo)%nat ltac:(lia)). rewrite nth_skipn in F2.
    replace (lo + (i - lo))%nat with i in F2 by lia. exact F2.
  - intros Hr. specialize (F3 ltac:(lia)). rewrite nth_skipn in F3. exact F3.
Qed.

(** the loop terminates within [length ci - 1 - lo] iterations and yields a strictly increasing
    list of positions whose last element carries all records *)
Lemma mb_loop_ok ci buf nnz : MonoN ci -> 0 <= buf ->
  nnz = nth (length ci - 1) ci 0 ->
  forall fuel lo start,
  (S lo < length ci)%nat -> start = nth lo ci 0 -> (length ci - 1 - lo <= fuel)%nat ->
  exists p, mb_loop fuel ci buf nnz lo start = Ok p /\ p <> [] /\
            StronglySorted lt (lo :: p) /\ Forall (fun h => (h < length ci)%nat) p /\
            nth (last p O) ci 0 = nnz.
Proof.
  intros HM Hbuf Hnnz. induction fuel as [|f IH]; intros lo start Hlo Hstart Hfuel; [lia|].
  cbn [mb_loop].
  set (tgt := Z.min (start + buf) nnz).
  destruct (bisect_right_facts ci tgt lo ltac:(lia)) as (B1 & B2 & B3).
  set (r := bisect_right ci tgt lo) in *.
  assert (Hstart_le : start <= tgt).
  { subst tgt start nnz. apply Z.min_glb; [lia|]. apply HM. lia. }
  assert (Hr : (lo < r)%nat).
  { destruct (Nat.eq_dec r lo) as [E|]; [|lia]. specialize (B3 ltac:(lia)). rewrite E in B3. lia. }
  set (hi0 := (r - 1)%nat).
  set (hi := if (hi0 =? lo)%nat then S hi0 else hi0).
  assert (Hhi : (lo < hi < length ci)%nat).
  { subst hi. destruct (hi0 =? lo)%nat eqn:E; [apply Nat.eqb_eq in E|apply Nat.eqb_neq in E]; subst hi0; lia. }
  destruct (nth_error ci hi) as [v|] eqn:Ev; [|apply nth_error_None in Ev; lia].
  assert (Hv : v = nth hi ci 0) by (symmetry; now apply nth_error_nth).
  destruct (v =? nnz) eqn:Evn.
  - exists [hi]. split; [reflexivity|]. split; [discriminate|]. split; [|split].
    + repeat constructor. lia.
    + repeat constructor. lia.
    + cbn [last]. lia.
  - assert (Hhi2 : (S hi < length ci)%nat).
    { destruct (Nat.eq_dec hi (length ci - 1)) as [E|]; [|lia]. rewrite E in Hv. lia. }
    destruct (IH hi v Hhi2 Hv ltac:(lia)) as (p & Ep & Pne & PS & PF & PL).
    rewrite Ep. exists (hi :: p). split; [reflexivity|]. split; [discriminate|]. split; [|split].
    + constructor; [exact PS|]. constructor; [lia|].
      inversion PS as [|? ? _ HF]; subst. eapply Forall_impl; [|exact HF]. cbn. intros; lia.
    + constructor; [lia|exact PF].
    + destruct p as [|q p']; [contradiction|]. exact PL.
Qed.

(* ---- the combined index *)
Definition colsum (idxs : list (list Z)) (i : nat) : Z :=
  fold_right (fun a s => nth i a 0 + s) 0 idxs.

Lemma vadd_facts a : forall b, length a = length b ->
  length (vadd a b) = length a /\ forall i, nth i (vadd a b) 0 = nth i a 0 + nth i b 0.
Proof.
  induction a as [|x a IH]; intros [|y b] Hl; cbn [length] in Hl; try discriminate; cbn [vadd length].
  - split; [reflexivity|]. intros [|i]; reflexivity.
  - destruct (IH b ltac:(lia)) as (L & N). split; [lia|]. intros [|i]; cbn [nth]; [reflexivity|apply N].
Qed.

Lemma fold_vadd_facts idxs : forall acc,
  Forall (fun a => length a = length acc) idxs ->
  length (fold_left vadd idxs acc) = length acc /\
  forall i, nth i (fold_left vadd idxs acc) 0 = nth i acc 0 + colsum idxs i.
Proof.
  induction idxs as [|a idxs IH]; intros acc HF; cbn [fold_left colsum fold_right].
  - split; [reflexivity|]. intros; lia.
  - inversion HF as [|? ? Ha HF']; subst.
    destruct (vadd_facts acc a ltac:(lia)) as (L & N).
    destruct (IH (vadd acc a)) as (L' & N').
    { eapply Forall_impl; [|exact HF']. cbn. intros; lia. }
    split; [lia|]. intros i. rewrite N', N. fold (colsum idxs i). lia.
Qed.

Lemma nth_repeat0 n i : nth i (repeat 0 n) 0 = 0.
Proof. revert i. induction n; intros [|i]; cbn; auto. Qed.

Lemma combined_index_facts idxs L :
  Forall (fun a => length a = L) idxs -> idxs <> [] ->
  length (combined_index idxs) = L /\ forall i, nth i (combined_index idxs) 0 = colsum idxs i.
Proof.
  intros HF Hne. unfold combined_index.
  assert (HL : length (hd [] idxs) = L).
  { destruct idxs; [contradiction|]. inversion HF; subst. reflexivity. }
  destruct (fold_vadd_facts idxs (repeat 0 (length (hd [] idxs)))) as (A & B).
  { rewrite repeat_length, HL. exact HF. }
  rewrite repeat_length in A. split; [lia|]. intros i. rewrite B, nth_repeat0. lia.
Qed.

Lemma colsum_mono idxs i j : Forall MonoN idxs -> Forall (fun a => (j < length a)%nat) idxs ->
  (i <= j)%nat -> colsum idxs i <= colsum idxs j.
Proof.
  induction idxs as [|a idxs IH]; intros HM HL Hij; cbn [colsum fold_right]; [lia|].
  inversion HM; inversion HL; subst. fold (colsum idxs i). fold (colsum idxs j).
  specialize (IH ltac:(assumption) ltac:(assumption) Hij).
  assert (nth i a 0 <= nth j a 0) by (match goal with H : MonoN a |- _ => apply H end; lia). lia.
Qed.

(** equal column sums at two positions force equality in every (monotone) input *)
Lemma colsum_eq_each idxs i j : Forall MonoN idxs -> Forall (fun a => (j < length a)%nat) idxs ->
  (i <= j)%nat -> colsum idxs i = colsum idxs j ->
  Forall (fun a => nth i a 0 = nth j a 0) idxs.
Proof.
  induction idxs as [|a idxs IH]; intros HM HL Hij E; [constructor|].
  inversion HM as [|? ? Ma HM']; inversion HL as [|? ? La HL']; subst.
  cbn [colsum fold_right] in E. fold (colsum idxs i) in E. fold (colsum idxs j) in E.
  pose proof (colsum_mono idxs i j HM' HL' Hij).
  assert (nth i a 0 <= nth j a 0) by (apply Ma; lia).
  constructor; [lia|]. apply IH; auto. lia.
Qed.

Lemma last_nth {A} (l : list A) d : last l d = nth (length l - 1) l d.
Proof.
  induction l as [|x l IH]; [reflexivity|]. destruct l as [|y l]; [reflexivity|].
  change (last (x :: y :: l) d) with (last (y :: l) d). rewrite IH. cbn [length].
  replace (S (S (length l)) - 1)%nat with (S (S (length l) - 1)) by lia. reflexivity.
Qed.

(** C07 theorem 1: for every family of monotone offset arrays of equal length L >= 2 that start at 0
    and every bufsize >= 1 (>= 0 suffices), fuel L is never exhausted, the partition starts at 0, is strictly
    increasing, stays inside the index, and every row from its last element on is empty in every input. *)
Theorem breakpoints_partition idxs L buf :
  idxs <> [] -> (2 <= L)%nat ->
  Forall (fun a => length a = L /\ MonoN a /\ nth 0 a 0 = 0) idxs -> 0 <= buf ->
  exists p, merge_breakpoints L idxs buf = Ok p /\
    hd 1%nat p = O /\ StronglySorted lt p /\ Forall (fun h => (h < L)%nat) p /\
    Forall (fun a => forall r, (last p O <= r < L)%nat -> nth r a 0 = nth (L - 1) a 0) idxs.
Proof.
  intros Hne HL HF Hbuf.
  assert (FL : Forall (fun a => length a = L) idxs) by (eapply Forall_impl; [|exact HF]; cbn; tauto).
  assert (FM : Forall MonoN idxs) by (eapply Forall_impl; [|exact HF]; cbn; tauto).
  destruct (combined_index_facts idxs L FL Hne) as (CL & CN).
  set (ci := combined_index idxs) in *.
  assert (FJ : forall j, (j < L)%nat -> Forall (fun a => (j < length a)%nat) idxs).
  { intros j Hj. eapply Forall_impl; [|exact FL]. cbn. intros; lia. }
  assert (CM : MonoN ci).
  { intros i j Hij. rewrite !CN. apply colsum_mono; [exact FM|apply FJ; lia|lia]. }
  assert (C0 : nth 0 ci 0 = 0).
  { rewrite CN. clear -HF. induction idxs as [|a t IH]; [reflexivity|]. inversion HF as [|? ? (_ & _ & H0) HF']; subst.
    cbn [colsum fold_right]. fold (colsum t 0). rewrite IH by assumption. lia. }
  unfold merge_breakpoints. fold ci.
  destruct ci as [|c0 ci'] eqn:Eci; [cbn in CL; lia|]. rewrite <- Eci in *.
  destruct (mb_loop_ok ci buf (last ci 0) CM Hbuf (last_nth ci 0) L O 0 ltac:(lia) ltac:(lia) ltac:(lia))
    as (p & Ep & Pne & PS & PF & PLast).
  rewrite Ep. exists (O :: p). split; [reflexivity|]. split; [reflexivity|]. split; [exact PS|]. split.
  - constructor; [lia|]. rewrite CL in PF. exact PF.
  - assert (Hl : last (O :: p) O = last p O) by (destruct p; [contradiction|reflexivity]). rewrite Hl.
    assert (Hlt : (last p O < L)%nat).
    { rewrite Forall_forall in PF. rewrite <- CL. apply PF. destruct p; [contradiction|]. apply (@exists_last _ (n :: p)) in Pne.
      destruct Pne as (q & z & Eq). rewrite Eq. rewrite last_last. apply in_or_app. right. left. reflexivity. }
    rewrite (last_nth ci 0), CL, !CN in PLast.
    pose proof (colsum_eq_each idxs (last p O) (L - 1) FM (FJ (L - 1)%nat ltac:(lia)) ltac:(lia) PLast) as HE.
    rewrite Forall_forall in *. intros a Ha r Hr. specialize (HE a Ha).
    destruct (HF a Ha) as (La & Ma & _).
    assert (nth (last p O) a 0 <= nth r a 0) by (apply Ma; lia).
    assert (nth r a 0 <= nth (L - 1) a 0) by (apply Ma; lia). lia.
Qed.

(* ================================================================== B. group-by *)
Section GroupBy.
Context {V : Type}.
Notation recd := (key * V)%type.
Notation grp := (key * list V)%type.

Definition gkeys (g : list grp) : list key := map fst g.
Definition GSorted (g : list grp) : Prop := StronglySorted klt (gkeys g).
(** all values stored under key k in a grouped table *)
Fixpoint glook (g : list grp) (k : key) : list V :=
  match g with
  | [] => []
  | (k', vs) :: t => (if keqb k' k then vs else []) ++ glook t k
  end.

Lemma keqb_eq a b : keqb a b = true <-> a = b.
Proof. unfold keqb. destruct a, b; cbn [fst snd]. split; [intros H; f_equal; lia|intros H; inversion H; lia]. Qed.
Lemma keqb_refl a : keqb a a = true. Proof. now apply keqb_eq. Qed.
Lemma keqb_neq a b : keqb a b = false <-> a <> b.
Proof. rewrite <- keqb_eq. destruct (keqb a b); split; congruence. Qed.

Lemma vals_nil k : @vals V [] k = []. Proof. reflexivity. Qed.
Lemma vals_cons (p : recd) l k : vals (p :: l) k = (if keqb (fst p) k then [snd p] else []) ++ vals l k.
Proof. unfold vals. cbn [filter]. destruct (keqb (fst p) k); reflexivity. Qed.
Lemma vals_app (l1 l2 : list recd) k : vals (l1 ++ l2) k = vals l1 k ++ vals l2 k.
Proof. unfold vals. now rewrite filter_app, map_app. Qed.
Lemma vals_notin (l : list recd) k : ~ In k (map fst l) -> vals l k = [].
Proof.
  induction l as [|p l IH]; intros H; [reflexivity|]. rewrite vals_cons, IH.
  - destruct (keqb (fst p) k) eqn:E; [|reflexivity]. apply keqb_eq in E. exfalso. apply H. left. exact E.
  - intro X. apply H. right. exact X.
Qed.
Lemma vals_in (l : list recd) k : In k (map fst l) -> vals l k <> [].
Proof.
  induction l as [|p l IH]; intros H; [contradiction|]. rewrite vals_cons.
  destruct (keqb (fst p) k) eqn:E; [discriminate|]. cbn [app]. apply IH.
  destruct H as [H|H]; [|exact H]. apply keqb_neq in E. contradiction.
Qed.
(** filtering by a predicate on the key keeps or drops all values of a key *)
Lemma vals_filter (P : key -> bool) (l : list recd) k :
  vals (filter (fun p => P (fst p)) l) k = if P k then vals l k else [].
Proof.
  induction l as [|p l IH]; cbn [filter]; [destruct (P k); reflexivity|].
  rewrite vals_cons. destruct (P (fst p)) eqn:Ep.
  - rewrite vals_cons, IH. destruct (keqb (fst p) k) eqn:E.
    + apply keqb_eq in E. subst k. rewrite Ep. reflexivity.
    + destruct (P k); reflexivity.
  - rewrite IH. destruct (keqb (fst p) k) eqn:E; [|reflexivity].
    apply keqb_eq in E. subst k. rewrite Ep. reflexivity.
Qed.
Lemma keys_filter (P : key -> bool) (l : list recd) k :
  In k (map fst (filter (fun p => P (fst p)) l)) <-> In k (map fst l) /\ P k = true.
Proof.
  rewrite !in_map_iff. split.
  - intros (p & E & Hp). apply filter_In in Hp. destruct Hp as (Hp & HP). subst k. split; [exists p; auto|exact HP].
  - intros ((p & E & Hp) & HP). subst k. exists p. split; [reflexivity|]. apply filter_In. auto.
Qed.

Lemma glook_notin g k : ~ In k (gkeys g) -> glook g k = [].
Proof.
  induction g as [|[k' vs] t IH]; intros H; [reflexivity|]. cbn [glook gkeys map fst In] in *.
  destruct (keqb k' k) eqn:E. { apply keqb_eq in E. exfalso. apply H. left. exact E. }
  cbn [app]. apply IH. intro X. apply H. right. exact X.
Qed.
Lemma glook_app g1 g2 k : glook (g1 ++ g2) k = glook g1 k ++ glook g2 k.
Proof. induction g1 as [|[k' vs] t IH]; cbn [app glook]; [reflexivity|]. now rewrite IH, app_assoc. Qed.

Lemma gkeys_gins k v g x : In x (gkeys (gins k v g)) <-> x = k \/ In x (gkeys g).
Proof.
  induction g as [|[k0 vs] t IH]; cbn [gins gkeys map In fst]; [intuition|].
  destruct (kcmp k k0) eqn:E; cbn [gkeys map In fst].
  - apply kcmp_eq in E; subst. intuition.
  - intuition.
  - fold (gkeys (gins k v t)). rewrite IH. fold (gkeys t). intuition.
Qed.
Lemma gsorted_gins k v g : GSorted g -> GSorted (gins k v g).
Proof.
  unfold GSorted. induction g as [|[k0 vs] t IH]; cbn [gins gkeys map fst]; intro H.
  - constructor; constructor.
  - inversion H as [|? ? Ht Hall]; subst. destruct (kcmp k k0) eqn:E; cbn [gkeys map fst].
    + constructor; assumption.
    + apply kcmp_lt in E. constructor; [exact H|]. constructor; [exact E|].
      eapply Forall_impl; [|exact Hall]. intros a Ha. eapply klt_trans; eauto.
    + apply kcmp_gt in E. constructor; [apply IH; exact Ht|].
      apply Forall_forall. intros x Hx. apply (gkeys_gins k v t x) in Hx. destruct Hx as [->|Hx]; [exact E|].
      rewrite Forall_forall in Hall. apply Hall; exact Hx.
Qed.
Lemma gsorted_head_notin k0 vs t : GSorted ((k0, vs) :: t) -> ~ In k0 (gkeys t).
Proof.
  intros H X. inversion H as [|? ? _ Hall]; subst. rewrite Forall_forall in Hall.
  apply (klt_irrefl k0). apply Hall. exact X.
Qed.
Lemma glook_gins k v g q : GSorted g ->
  glook (gins k v g) q = glook g q ++ (if keqb k q then [v] else []).
Proof.
  induction g as [|[k0 vs] t IH]; intros HS; cbn [gins glook].
  - now rewrite app_nil_r.
  - pose proof (gsorted_head_notin _ _ _ HS) as Hn.
    inversion HS as [|? ? HSt Hall]; subst. fold (gkeys t) in *.
    destruct (kcmp k k0) eqn:E; cbn [glook].
    + apply kcmp_eq in E; subst k0. destruct (keqb k q) eqn:Eq.
      * apply keqb_eq in Eq; subst q. rewrite (glook_notin t k Hn). now rewrite !app_nil_r.
      * now rewrite !app_nil_r.
    + apply kcmp_lt in E. destruct (keqb k q) eqn:Eq; [|now rewrite app_nil_r].
      apply keqb_eq in Eq; subst q.
      assert (Hk0 : keqb k0 k = false) by (apply keqb_neq; intros ->; now apply (klt_irrefl k)).
      rewrite Hk0. cbn [app]. rewrite (glook_notin t k); [reflexivity|].
      intro X. rewrite Forall_forall in Hall. apply (klt_irrefl k). eapply klt_trans; [exact E|apply Hall; exact X].
    + rewrite (IH HSt). now rewrite app_assoc.
Qed.

(** g is the sorted grouping of src: strictly sorted keys, same key set, same values per key in order *)
Definition GCanon (src : list recd) (g : list grp) : Prop :=
  GSorted g /\ (forall k, In k (gkeys g) <-> In k (map fst src)) /\ (forall k, glook g k = vals src k).

Lemma fold_gins_facts (l : list recd) : forall acc, GSorted acc ->
  let r := fold_left (fun acc p => gins (fst p) (snd p) acc) l acc in
  GSorted r /\ (forall k, In k (gkeys r) <-> In k (gkeys acc) \/ In k (map fst l))
  /\ (forall k, glook r k = glook acc k ++ vals l k).
Proof.
  induction l as [|[k0 v0] t IH]; intros acc HS; cbn [fold_left].
  - split; [exact HS|]. split; [intros k; cbn; intuition|]. intros k. now rewrite vals_nil, app_nil_r.
  - specialize (IH (gins k0 v0 acc) (gsorted_gins k0 v0 acc HS)). cbn zeta in IH.
    destruct IH as (S' & K' & L'). cbn [fst snd]. split; [exact S'|]. split.
    + intros k. rewrite K', gkeys_gins. cbn [map In fst]. intuition.
    + intros k. rewrite L', (glook_gins _ _ _ _ HS), vals_cons. cbn [fst snd]. now rewrite app_assoc.
Qed.
Theorem group_canon (l : list recd) : GCanon l (group l).
Proof.
  unfold group. destruct (fold_gins_facts l [] ltac:(constructor)) as (S' & K' & L').
  split; [exact S'|]. split.
  - intros k. rewrite K'. cbn. intuition.
  - intros k. rewrite L'. reflexivity.
Qed.

(** two sorted groupings with the same keys whose value lists are related key-wise are related entry-wise *)
Lemma gsorted_rel (R : list V -> list V -> Prop) g1 : forall g2, GSorted g1 -> GSorted g2 ->
  (forall k, In k (gkeys g1) <-> In k (gkeys g2)) ->
  (forall k, In k (gkeys g1) -> R (glook g1 k) (glook g2 k)) ->
  Forall2 (fun e1 e2 => fst e1 = fst e2 /\ R (snd e1) (snd e2)) g1 g2.
Proof.
  induction g1 as [|[k1 v1] t1 IH]; intros g2 S1 S2 HK HL.
  - destruct g2 as [|[k2 v2] t2]; [constructor|]. exfalso. apply (HK k2). left; reflexivity.
  - destruct g2 as [|[k2 v2] t2]. { exfalso. apply (HK k1). left; reflexivity. }
    pose proof (gsorted_head_notin _ _ _ S1) as N1. pose proof (gsorted_head_notin _ _ _ S2) as N2.
    cbn [gkeys map fst] in *. inversion S1 as [|? ? S1t A1]; inversion S2 as [|? ? S2t A2]; subst.
    rewrite Forall_forall in A1, A2.
    assert (k1 = k2) as ->.
    { destruct (proj1 (HK k1) (or_introl eq_refl)) as [E|E]; [symmetry; exact E|].
      destruct (proj2 (HK k2) (or_introl eq_refl)) as [E'|E']; [exact E'|].
      exfalso. apply (klt_irrefl k1). eapply klt_trans; [apply A1; exact E' | apply A2; exact E]. }
    constructor.
    + split; [reflexivity|]. cbn [snd]. specialize (HL k2 (or_introl eq_refl)). cbn [glook] in HL.
      rewrite keqb_refl, (glook_notin t1 k2 N1), (glook_notin t2 k2 N2), !app_nil_r in HL. exact HL.
    + apply IH; auto.
      * intro k. split; intro X.
        -- destruct (proj1 (HK k) (or_intror X)) as [E|E]; [subst; contradiction|exact E].
        -- destruct (proj2 (HK k) (or_intror X)) as [E|E]; [subst; contradiction|exact E].
      * intros k X. specialize (HL k (or_intror X)). cbn [glook] in HL.
        assert (keqb k2 k = false) as Ek by (apply keqb_neq; intros ->; contradiction).
        rewrite Ek in HL. exact HL.
Qed.

Theorem gcanon_unique src g1 g2 : GCanon src g1 -> GCanon src g2 -> g1 = g2.
Proof.
  intros (S1 & K1 & L1) (S2 & K2 & L2).
  assert (F : Forall2 (fun e1 e2 : grp => fst e1 = fst e2 /\ snd e1 = snd e2) g1 g2).
  { apply gsorted_rel; auto.
    - intro k. rewrite K1, K2. reflexivity.
    - intros k _. rewrite L1, L2. reflexivity. }
  clear -F. induction F as [|[a b] [c d] l1 l2 (E1 & E2) _ IH]; [reflexivity|]. cbn in *. subst. reflexivity.
Qed.

(** the source only matters through its key set and its values per key *)
Lemma gcanon_src src src' g :
  (forall k, In k (map fst src) <-> In k (map fst src')) -> (forall k, vals src k = vals src' k) ->
  GCanon src g -> GCanon src' g.
Proof.
  intros HK HV (S1 & K1 & L1). split; [exact S1|]. split.
  - intro k. rewrite K1. apply HK.
  - intro k. rewrite L1. apply HV.
Qed.

Lemma ssorted_klt_app (a b : list key) : StronglySorted klt a -> StronglySorted klt b ->
  (forall x y, In x a -> In y b -> klt x y) -> StronglySorted klt (a ++ b).
Proof.
  induction 1 as [|x a HS IH HF]; intros Sb H; [exact Sb|]. cbn [app]. constructor.
  - apply IH; auto. intros; apply H; [right|]; assumption.
  - apply Forall_app. split; [exact HF|]. apply Forall_forall. intros y Hy. apply H; [left; reflexivity|exact Hy].
Qed.

(** grouping is compositional over a split of the keys into a lower and an upper part *)
Lemma group_app_sorted (l1 l2 : list recd) :
  (forall k1 k2, In k1 (map fst l1) -> In k2 (map fst l2) -> klt k1 k2) ->
  group (l1 ++ l2) = group l1 ++ group l2.
Proof.
  intros Hlt. apply (gcanon_unique (l1 ++ l2)); [apply group_canon|].
  destruct (group_canon l1) as (S1 & K1 & L1). destruct (group_canon l2) as (S2 & K2 & L2).
  split; [|split].
  - unfold GSorted, gkeys in *. rewrite map_app. apply ssorted_klt_app; auto.
    intros x y Hx Hy. apply Hlt; [apply K1; exact Hx|apply K2; exact Hy].
  - intro k. unfold gkeys in *. rewrite !map_app, !in_app_iff, K1, K2. reflexivity.
  - intro k. rewrite glook_app, vals_app, L1, L2. reflexivity.
Qed.

Lemma groupby_agg_app agg (l1 l2 : list recd) :
  (forall k1 k2, In k1 (map fst l1) -> In k2 (map fst l2) -> klt k1 k2) ->
  groupby_agg agg (l1 ++ l2) = groupby_agg agg l1 ++ groupby_agg agg l2.
Proof. intros H. unfold groupby_agg. now rewrite (group_app_sorted _ _ H), map_app. Qed.

Lemma groupby_agg_src agg (l l' : list recd) :
  (forall k, In k (map fst l) <-> In k (map fst l')) -> (forall k, vals l k = vals l' k) ->
  groupby_agg agg l = groupby_agg agg l'.
Proof.
  intros HK HV. unfold groupby_agg. f_equal. apply (gcanon_unique l'); [|apply group_canon].
  eapply gcanon_src; [exact HK|exact HV|apply group_canon].
Qed.

Lemma groupby_agg_keys agg (l : list recd) k : In k (map fst (groupby_agg agg l)) <-> In k (map fst l).
Proof.
  unfold groupby_agg. rewrite map_map. cbn [fst]. destruct (group_canon l) as (_ & K & _). apply K.
Qed.
Lemma groupby_agg_sorted agg (l : list recd) : StronglySorted klt (map fst (groupby_agg agg l)).
Proof. unfold groupby_agg. rewrite map_map. cbn [fst]. destruct (group_canon l) as (S1 & _ & _). exact S1. Qed.
(** the stored value of a key is the aggregate of that key's values over the source, in order *)
Lemma groupby_agg_value agg (l : list recd) k v :
  In (k, v) (groupby_agg agg l) -> v = agg (vals l k).
Proof.
  unfold groupby_agg. rewrite in_map_iff. intros ([k' vs] & E & Hin). cbn [fst snd] in E. inversion E; subst.
  destruct (group_canon l) as (S1 & _ & L1). rewrite <- L1. f_equal.
  clear L1. revert S1 Hin. generalize (group l). induction l0 as [|[k0 vs0] t IH]; intros S1 Hin; [contradiction|].
  pose proof (gsorted_head_notin _ _ _ S1) as N. cbn [glook]. destruct Hin as [E0|Hin].
  - inversion E0; subst. rewrite keqb_refl, (glook_notin t k N), app_nil_r. reflexivity.
  - assert (keqb k0 k = false) as Ek.
    { apply keqb_neq. intros ->. apply N. apply in_map_iff. exists (k, vs). auto. }
    rewrite Ek. cbn [app]. apply IH; [|exact Hin]. inversion S1; assumption.
Qed.
End GroupBy.

(* ================================================================== C. CoolerMerger *)
Section Merger.
Context {V : Type}.
Notation recd := (key * V)%type.

Definition rowof (p : recd) : Z := fst (fst p).
Definition RowSorted (px : list recd) : Prop := StronglySorted Z.le (map rowof px).
(** number of records in rows < b : the value of bin1_offset[b] *)
Definition cnt (px : list recd) (b : Z) : Z := zlen (filter (fun p => rowof p <? b) px).
Definition inrowsk (a b : Z) (k : key) : bool := (a <=? fst k) && (fst k <? b).
Definition inrows (a b : Z) (p : recd) : bool := inrowsk a b (fst p).

(** what the merger needs of an input cooler over n bins: rows non-decreasing and in range, and
    bin1_offset is the index of the pixel table (C02) *)
Record ValidIn (n : nat) (c : mcool V) : Prop := {
  vi_off : mc_off c = index_of n (mc_px c);
  vi_sorted : RowSorted (mc_px c);
  vi_range : Forall (fun p => 0 <= rowof p < Z.of_nat n) (mc_px c) }.

Definition allpx (inputs : list (mcool V)) : list recd := concat (map (@mc_px V) inputs).

Lemma cnt_cons p t x : cnt (p :: t) x = (if rowof p <? x then 1 else 0) + cnt t x.
Proof. unfold cnt, zlen. cbn [filter]. destruct (rowof p <? x); cbn [length]; lia. Qed.
Lemma cnt_nonneg px x : 0 <= cnt px x. Proof. unfold cnt, zlen. lia. Qed.
Lemma cnt_zero px x : Forall (fun q => x <= rowof q) px -> cnt px x = 0.
Proof.
  intros H. unfold cnt. rewrite filter_none; [reflexivity|].
  rewrite Forall_forall in H. intros q Hq. specialize (H q Hq). lia.
Qed.
Lemma cnt_mono px a b : a <= b -> cnt px a <= cnt px b.
Proof.
  intros H. induction px as [|p t IH]; [reflexivity|]. rewrite !cnt_cons.
  destruct (rowof p <? a) eqn:E1, (rowof p <? b) eqn:E2; lia.
Qed.
Lemma cnt_all px x : Forall (fun q => rowof q < x) px -> cnt px x = zlen px.
Proof.
  intros H. unfold cnt. rewrite filter_all; [reflexivity|].
  rewrite Forall_forall in H. intros q Hq. specialize (H q Hq). lia.
Qed.
Lemma cnt_le_len px x : cnt px x <= zlen px.
Proof.
  induction px as [|p t IH]; [reflexivity|]. rewrite cnt_cons. unfold zlen in *. cbn [length].
  destruct (rowof p <? x); lia.
Qed.
Lemma cnt_all_inv px x : cnt px x = zlen px -> Forall (fun q => rowof q < x) px.
Proof.
  induction px as [|p t IH]; intros H; [constructor|]. rewrite cnt_cons in H. unfold zlen in *. cbn [length] in H.
  pose proof (cnt_nonneg t x). pose proof (cnt_le_len t x) as Hle. unfold zlen in Hle.
  destruct (rowof p <? x) eqn:E; [|lia]. constructor; [lia|]. apply IH. unfold zlen. lia.
Qed.

Lemma nth_index_of n (px : list recd) b : (b <= n)%nat -> nth b (index_of n px) 0 = cnt px (Z.of_nat b).
Proof.
  intros Hb. unfold index_of. apply nth_error_nth.
  erewrite map_nth_error; [|apply nth_error_zrange; lia]. reflexivity.
Qed.
Lemma index_of_length n (px : list recd) : length (index_of n px) = S n.
Proof. unfold index_of. now rewrite map_length, zrange_length. Qed.

Lemma slice_S {A} (p : A) t x y : 0 <= x -> slice (p :: t) (1 + x) (1 + y) = slice t x y.
Proof.
  intros Hx. unfold slice. replace (1 + y - (1 + x)) with (y - x) by lia.
  replace (Z.to_nat (1 + x)) with (S (Z.to_nat x)) by lia. reflexivity.
Qed.
Lemma slice_0_S {A} (p : A) t y : 0 <= y -> slice (p :: t) 0 (1 + y) = p :: slice t 0 y.
Proof.
  intros Hy. unfold slice. replace (Z.to_nat (1 + y - 0)) with (S (Z.to_nat y)) by lia.
  replace (y - 0) with y by lia. reflexivity.
Qed.

(** the slice between two index entries is exactly the records of the rows in between *)
Lemma slice_rows px a b : RowSorted px -> a <= b ->
  slice px (cnt px a) (cnt px b) = filter (inrows a b) px.
Proof.
  unfold RowSorted. intros HS Hab. induction px as [|p t IH]; [reflexivity|].
  cbn [map] in HS. inversion HS as [|? ? HSt HF]; subst. specialize (IH HSt).
  assert (HF' : Forall (fun q => rowof p <= rowof q) t) by (rewrite Forall_map in HF; exact HF).
  rewrite !cnt_cons. cbn [filter]. unfold inrows at 1, inrowsk. fold (rowof p).
  pose proof (cnt_nonneg t a). pose proof (cnt_nonneg t b).
  destruct (rowof p <? a) eqn:Ea.
  - assert (Eb : rowof p <? b = true) by lia. rewrite Eb.
    replace (a <=? rowof p) with false by lia. cbn [andb]. rewrite slice_S by lia. exact IH.
  - assert (Ha0 : cnt t a = 0).
    { apply cnt_zero. eapply Forall_impl; [|exact HF']. cbn. intros; lia. }
    rewrite Ha0 in *. replace (a <=? rowof p) with true by lia. cbn [andb Z.add].
    destruct (rowof p <? b) eqn:Eb.
    + rewrite slice_0_S by lia. f_equal. exact IH.
    + assert (Hb0 : cnt t b = 0).
      { apply cnt_zero. eapply Forall_impl; [|exact HF']. cbn. intros; lia. }
      rewrite Hb0 in *. rewrite <- IH. reflexivity.
Qed.

Lemma epoch_frames_eq (inputs : list (mcool V)) (f g : mcool V -> Z) :
  epoch_frames inputs (map f inputs) (map g inputs)
  = concat (map (fun c => slice (mc_px c) (f c) (g c)) inputs).
Proof.
  unfold epoch_frames. induction inputs as [|c t IH]; [reflexivity|].
  cbn [map combine concat fst snd]. f_equal. exact IH.
Qed.

Lemma concat_map_filter (P : recd -> bool) (inputs : list (mcool V)) :
  concat (map (fun c => filter P (mc_px c)) inputs) = filter P (allpx inputs).
Proof.
  unfold allpx. induction inputs as [|c t IH]; [reflexivity|]. cbn [map concat]. now rewrite filter_app, IH.
Qed.

Lemma frames_rows n (inputs : list (mcool V)) (a b : nat) :
  Forall (ValidIn n) inputs -> (a <= b <= n)%nat ->
  epoch_frames inputs (map (fun c => nth a (mc_off c) 0) inputs) (map (fun c => nth b (mc_off c) 0) inputs)
  = filter (inrows (Z.of_nat a) (Z.of_nat b)) (allpx inputs).
Proof.
  intros HV Hab. rewrite epoch_frames_eq, <- concat_map_filter. f_equal.
  apply map_ext_in. intros c Hc. rewrite Forall_forall in HV. destruct (HV c Hc) as [Ho Hs Hr].
  rewrite Ho, !nth_index_of by lia. apply slice_rows; [exact Hs|lia].
Qed.

Lemma groupby_agg_nil agg : @groupby_agg V agg [] = []. Proof. reflexivity. Qed.

Lemma ssorted_le_last (b : nat) rest : StronglySorted le (b :: rest) -> (b <= last rest b)%nat.
Proof.
  intros H. inversion H as [|? ? _ HF]; subst. destruct rest as [|r rest']; [cbn; lia|].
  rewrite Forall_forall in HF. apply HF. destruct (@exists_last _ (r :: rest') ltac:(discriminate)) as (q & z & E).
  rewrite E, last_last. apply in_or_app. right. left. reflexivity.
Qed.

Lemma last_cons_default {A} (rest : list A) : forall a b, last (b :: rest) a = last rest b.
Proof.
  induction rest as [|r rest IH]; intros a b; [reflexivity|].
  change (last (b :: r :: rest) a) with (last (r :: rest) a). rewrite (IH a r), (IH b r). reflexivity.
Qed.

(** the epochs over a non-decreasing list of breakpoints aggregate exactly the rows they span *)
Lemma merger_epochs_rows agg n (inputs : list (mcool V)) : Forall (ValidIn n) inputs ->
  forall part a, StronglySorted le (a :: part) -> Forall (fun h => (h <= n)%nat) (a :: part) ->
  concat (merger_epochs agg inputs (map (fun c => nth a (mc_off c) 0) inputs) part)
  = groupby_agg agg (filter (inrows (Z.of_nat a) (Z.of_nat (last part a))) (allpx inputs)).
Proof.
  intros HV. induction part as [|b rest IH]; intros a HS HB.
  - cbn [merger_epochs concat last]. rewrite filter_none; [reflexivity|].
    intros p _. unfold inrows, inrowsk. lia.
  - cbn [merger_epochs].
    inversion HS as [|? ? HS' HFa]; subst. inversion HB as [|? ? Ha HB']; subst.
    assert (Hab : (a <= b)%nat) by (inversion HFa; assumption).
    assert (Hbn : (b <= n)%nat) by (inversion HB'; assumption).
    rewrite (frames_rows n inputs a b HV ltac:(lia)).
    set (F := filter (inrows (Z.of_nat a) (Z.of_nat b)) (allpx inputs)).
    pose proof (ssorted_le_last b rest HS') as Hbl.
    assert (E : forall X, concat (match F with
                                  | [] => X
                                  | p :: l => groupby_agg agg (p :: l) :: X
                                  end) = groupby_agg agg F ++ concat X).
    { intros X. destruct F; reflexivity. }
    rewrite E, (IH b HS' HB'). clear E.
    assert (Hl : last (b :: rest) a = last rest b) by apply last_cons_default.
    rewrite Hl. set (l := last rest b) in *.
    rewrite <- groupby_agg_app.
    + apply groupby_agg_src.
      * intro k. unfold F, inrows. rewrite map_app, in_app_iff, !keys_filter. unfold inrowsk.
        split; [intros [(H1 & H2)|(H1 & H2)]; (split; [exact H1|lia])|].
        intros (H1 & H2). destruct (fst k <? Z.of_nat b) eqn:Eb; [left|right]; (split; [exact H1|lia]).
      * intro k. unfold F, inrows. rewrite vals_app, !vals_filter. unfold inrowsk.
        destruct ((Z.of_nat a <=? fst k) && (fst k <? Z.of_nat b)) eqn:E1;
        destruct ((Z.of_nat b <=? fst k) && (fst k <? Z.of_nat l)) eqn:E2;
        destruct ((Z.of_nat a <=? fst k) && (fst k <? Z.of_nat l)) eqn:E3; try lia;
        rewrite ?app_nil_r; reflexivity.
    + intros k1 k2 H1 H2. unfold F, inrows in H1, H2. rewrite keys_filter in H1, H2. unfold inrowsk in *.
      left. lia.
Qed.

Lemma valid_index_facts n (c : mcool V) : ValidIn n c ->
  length (mc_off c) = S n /\ MonoN (mc_off c) /\ nth 0 (mc_off c) 0 = 0.
Proof.
  intros [Ho Hs Hr]. rewrite Ho. split; [apply index_of_length|]. split.
  - intros i j Hij. rewrite index_of_length in Hij. rewrite !nth_index_of by lia. apply cnt_mono. lia.
  - rewrite nth_index_of by lia. apply cnt_zero. eapply Forall_impl; [|exact Hr]. cbn. intros; lia.
Qed.

(** C07 theorem 2 (any value type, any aggregation function): for every non-empty family of valid
    inputs over n >= 1 bins and every buffer size, the merger terminates without error, never yields an
    empty chunk, and the concatenation of its chunks is the sorted group-by aggregate of all input
    records (values of a pixel in input order) *)
Theorem merger_exact agg n (inputs : list (mcool V)) buf :
  inputs <> [] -> (1 <= n)%nat -> Forall (ValidIn n) inputs -> 0 <= buf ->
  exists eps, cooler_merger agg inputs buf = Ok eps /\
              concat eps = groupby_agg agg (allpx inputs) /\ Forall (fun e => e <> []) eps.
Proof.
  intros Hne Hn HV Hbuf. unfold cooler_merger, merge_breakpoints_auto.
  set (idxs := map (@mc_off V) inputs).
  assert (HF : Forall (fun a => length a = S n /\ MonoN a /\ nth 0 a 0 = 0) idxs).
  { subst idxs. rewrite Forall_map. eapply Forall_impl; [|exact HV]. apply valid_index_facts. }
  assert (Hne' : idxs <> []) by (subst idxs; destruct inputs; [contradiction|discriminate]).
  assert (FL : Forall (fun a => length a = S n) idxs) by (eapply Forall_impl; [|exact HF]; cbn; tauto).
  destruct (combined_index_facts idxs (S n) FL Hne') as (CL & _). rewrite CL.
  destruct (breakpoints_partition idxs (S n) buf Hne' ltac:(lia) HF Hbuf) as (p & Ep & P0 & PS & PF & PE).
  rewrite Ep. cbn [bind]. eexists. split; [reflexivity|].
  destruct p as [|p0 p']; [cbn in P0; lia|]. cbn [hd] in P0. subst p0. cbn [tl].
  assert (E0 : map (fun _ : mcool V => 0) inputs = map (fun c => nth 0 (mc_off c) 0) inputs).
  { apply map_ext_in. intros c Hc. rewrite Forall_forall in HV. destruct (valid_index_facts n c (HV c Hc)) as (_ & _ & H0). now rewrite H0. }
  rewrite E0. split.
  - rewrite (merger_epochs_rows agg n inputs HV p' O).
    + f_equal. apply filter_all. intros q Hq. unfold allpx in Hq. apply in_concat in Hq.
      destruct Hq as (l & Hl & Hq). apply in_map_iff in Hl. destruct Hl as (c & <- & Hc).
      rewrite Forall_forall in HV. destruct (HV c Hc) as [Ho Hs Hr].
      assert (Hlast : last (O :: p') O = last p' O) by (destruct p'; reflexivity).
      rewrite Forall_forall in PE. specialize (PE (mc_off c) ltac:(subst idxs; apply in_map; exact Hc) (last (O :: p') O)).
      assert (Hlt : (last (O :: p') O < S n)%nat).
      { rewrite Forall_forall in PF. apply PF. destruct (@exists_last _ (O :: p') ltac:(discriminate)) as (z & w & E).
        rewrite E, last_last. apply in_or_app. right. left. reflexivity. }
      specialize (PE ltac:(lia)). rewrite Ho, !nth_index_of in PE by lia.
      replace (S n - 1)%nat with n in PE by lia.
      rewrite (cnt_all (mc_px c) (Z.of_nat n)) in PE by (eapply Forall_impl; [|exact Hr]; cbn; intros; lia).
      apply cnt_all_inv in PE. rewrite Forall_forall in PE, Hr. specialize (PE q Hq). specialize (Hr q Hq).
      rewrite Hlast in PE. unfold inrows, inrowsk. fold (rowof q). lia.
    + clear -PS. induction PS as [|x l HS IH HF]; constructor; [exact IH|].
      eapply Forall_impl; [|exact HF]. cbn. intros; lia.
    + eapply Forall_impl; [|exact PF]. cbn. intros; lia.
  - clear. generalize (map (fun c : mcool V => nth 0 (mc_off c) 0) inputs). induction p' as [|b rest IH]; intros st; cbn [merger_epochs]; [constructor|].
    destruct (epoch_frames inputs st _) as [|r fr] eqn:E; [apply IH|]. constructor; [|apply IH].
    unfold groupby_agg. destruct (group_canon (r :: fr)) as (_ & K & _).
    destruct (group (r :: fr)) as [|g gs]; [|discriminate]. exfalso. apply (K (fst r)). left. reflexivity.
Qed.
End Merger.

(* ================================================================== D. counts: V = Z, aggregation = sum *)

Definition total (l : list pixel) : Z := sumZ (map snd l).

Lemma sumZ_cons x l : sumZ (x :: l) = x + sumZ l. Proof. reflexivity. Qed.
Lemma sumZ_app a b : sumZ (a ++ b) = sumZ a + sumZ b.
Proof. induction a as [|x a IH]; cbn [app]; [change (sumZ []) with 0; lia|]. rewrite !sumZ_cons, IH. lia. Qed.
Lemma look_vals (l : list (key * Z)) k : look l k = sumZ (vals l k).
Proof.
  induction l as [|[k' v] t IH]; [reflexivity|]. rewrite vals_cons. cbn [look fst snd]. rewrite IH.
  destruct (kcmp k k') eqn:E.
  - apply kcmp_eq in E. subst k'. rewrite keqb_refl. cbn [app]. rewrite sumZ_cons. lia.
  - assert (keqb k' k = false) as ->; [|cbn [app]; lia]. apply keqb_neq. intros ->. rewrite kcmp_refl in E. discriminate.
  - assert (keqb k' k = false) as ->; [|cbn [app]; lia]. apply keqb_neq. intros ->. rewrite kcmp_refl in E. discriminate.
Qed.

Lemma look_in_sorted (out : list pixel) k v : SSorted out -> In (k, v) out -> look out k = v.
Proof.
  unfold SSorted. induction out as [|[k0 v0] t IH]; intros HS Hin; [contradiction|].
  cbn [keys map fst] in HS. inversion HS as [|? ? HSt HF]; subst. cbn [look]. destruct Hin as [E|Hin].
  - inversion E; subst. rewrite kcmp_refl, look_notin; [lia|].
    intro X. rewrite Forall_forall in HF. apply (klt_irrefl k). apply HF. exact X.
  - assert (Hk : In k (keys t)) by (apply in_map_iff; exists (k, v); auto).
    rewrite Forall_forall in HF. specialize (HF k Hk).
    destruct (kcmp k k0) eqn:E.
    + apply kcmp_eq in E. subst. exfalso. now apply (klt_irrefl k0).
    + rewrite (IH HSt Hin). lia.
    + rewrite (IH HSt Hin). lia.
Qed.

Lemma key_eq_dec (a b : key) : {a = b} + {a <> b}.
Proof. decide equality; apply Z.eq_dec. Qed.

(** the pandas group-by sum is the canonical aggregate of Model/Pixels.v *)
Theorem groupby_sum_aggregate (l : list pixel) : groupby_agg sumZ l = aggregate l.
Proof.
  apply (canon_unique l); [|apply aggregate_canon].
  pose proof (groupby_agg_sorted sumZ l) as HS.
  split; [exact HS|]. split.
  - intro k. apply groupby_agg_keys.
  - intro k. rewrite (look_vals l k).
    destruct (in_dec key_eq_dec k (keys (groupby_agg sumZ l))) as [Hin|Hnin].
    + unfold keys in Hin. apply in_map_iff in Hin. destruct Hin as ([k' v] & E & Hin). cbn [fst] in E. subst k'.
      rewrite (look_in_sorted _ k v HS Hin). apply groupby_agg_value in Hin. exact Hin.
    + rewrite look_notin by exact Hnin. rewrite vals_notin; [reflexivity|].
      intro X. apply Hnin. apply groupby_agg_keys. exact X.
Qed.

Lemma total_ins k v l : total (ins k v l) = v + total l.
Proof.
  unfold total. induction l as [|[k0 v0] t IH]; cbn [ins]; [cbn [map snd]; rewrite sumZ_cons; lia|].
  destruct (kcmp k k0); cbn [map snd] in *; rewrite ?sumZ_cons in *; lia.
Qed.
Lemma total_aggregate l : total (aggregate l) = total l.
Proof.
  unfold aggregate. assert (H : forall acc, total (fold_left (fun acc p => ins (fst p) (snd p) acc) l acc) = total acc + total l).
  { induction l as [|[k v] t IH]; intros acc; cbn [fold_left]; [unfold total; cbn [map]; change (sumZ []) with 0; lia|].
    rewrite IH, total_ins. unfold total. cbn [fst snd map]. rewrite sumZ_cons. lia. }
  rewrite H. unfold total. cbn [map]. change (sumZ []) with 0. lia.
Qed.
Lemma total_app l1 l2 : total (l1 ++ l2) = total l1 + total l2.
Proof. unfold total. now rewrite map_app, sumZ_app. Qed.
Lemma total_allpx (inputs : list (mcool Z)) : total (allpx inputs) = sumZ (map (fun c => total (mc_px c)) inputs).
Proof.
  unfold allpx. induction inputs as [|c t IH]; [reflexivity|]. cbn [map concat].
  rewrite total_app, IH, sumZ_cons. reflexivity.
Qed.

Definition merged_px {V} (agg : list V -> V) (inputs : list (mcool V)) (buf : Z) : res (list (key * V)) :=
  match cooler_merger agg inputs buf with Ok eps => Ok (concat eps) | Err e => Err e end.

(** C07 theorem 2, count column: the chunks written by the merger, concatenated, are the canonical
    aggregate (strictly sorted, same pixel set, per-pixel sum) of all input pixels, and the recorded
    total is the sum of the input totals *)
Theorem merger_canon n (inputs : list (mcool Z)) buf :
  inputs <> [] -> (1 <= n)%nat -> Forall (ValidIn n) inputs -> 0 <= buf ->
  exists out, merged_px sumZ inputs buf = Ok out /\
    Canon (allpx inputs) out /\ out = aggregate (allpx inputs) /\
    total out = sumZ (map (fun c => total (mc_px c)) inputs).
Proof.
  intros Hne Hn HV Hb. destruct (merger_exact sumZ n inputs buf Hne Hn HV Hb) as (eps & E & Ec & _).
  unfold merged_px. rewrite E. eexists. split; [reflexivity|]. rewrite Ec, groupby_sum_aggregate.
  split; [apply aggregate_canon|]. split; [reflexivity|]. now rewrite total_aggregate, total_allpx.
Qed.

(** generic form of the same statement for any value type and aggregation function *)
Theorem merger_groupby {V} (agg : list V -> V) n (inputs : list (mcool V)) buf :
  inputs <> [] -> (1 <= n)%nat -> Forall (ValidIn n) inputs -> 0 <= buf ->
  merged_px agg inputs buf = Ok (groupby_agg agg (allpx inputs)).
Proof.
  intros Hne Hn HV Hb. destruct (merger_exact agg n inputs buf Hne Hn HV Hb) as (eps & E & Ec & _).
  unfold merged_px. now rewrite E, Ec.
Qed.

(** every stored pixel carries the aggregate of exactly that pixel's values over the inputs *)
Corollary merger_pixelwise {V} (agg : list V -> V) n (inputs : list (mcool V)) buf :
  inputs <> [] -> (1 <= n)%nat -> Forall (ValidIn n) inputs -> 0 <= buf ->
  exists out, merged_px agg inputs buf = Ok out /\
    StronglySorted klt (map fst out) /\
    (forall k, In k (map fst out) <-> In k (map fst (allpx inputs))) /\
    (forall k v, In (k, v) out -> v = agg (vals (allpx inputs) k)).
Proof.
  intros Hne Hn HV Hb. exists (groupby_agg agg (allpx inputs)). split; [now apply (merger_groupby agg n)|].
  split; [apply groupby_agg_sorted|]. split; [intro k; apply groupby_agg_keys|]. intros k v. apply groupby_agg_value.
Qed.

(** buffer-size independence *)
Corollary merge_buffer_independent {V} (agg : list V -> V) n (inputs : list (mcool V)) buf buf' :
  inputs <> [] -> (1 <= n)%nat -> Forall (ValidIn n) inputs -> 0 <= buf -> 0 <= buf' ->
  merged_px agg inputs buf = merged_px agg inputs buf'.
Proof. intros. rewrite !(merger_groupby agg n); auto. Qed.

Lemma permutation_concat {A} (l l' : list (list A)) : Permutation l l' -> Permutation (concat l) (concat l').
Proof.
  induction 1 as [|x l l' _ IH|x y l|l l' l'' _ IH1 _ IH2]; cbn [concat].
  - constructor.
  - now apply Permutation_app_head.
  - rewrite !app_assoc. apply Permutation_app_tail. apply Permutation_app_comm.
  - eapply Permutation_trans; eauto.
Qed.

(** input-order independence (sum) *)
Corollary merge_order_independent n (inputs inputs' : list (mcool Z)) buf buf' :
  Permutation inputs inputs' ->
  inputs <> [] -> (1 <= n)%nat -> Forall (ValidIn n) inputs -> 0 <= buf -> 0 <= buf' ->
  merged_px sumZ inputs buf = merged_px sumZ inputs' buf'.
Proof.
  intros HP Hne Hn HV Hb Hb'.
  assert (Hne' : inputs' <> []) by (intros ->; apply Permutation_sym, Permutation_nil in HP; contradiction).
  assert (HV' : Forall (ValidIn n) inputs') by (eapply Permutation_Forall; eauto).
  rewrite !(merger_groupby sumZ n), !groupby_sum_aggregate by auto. f_equal.
  apply aggregate_perm. unfold allpx. apply permutation_concat. now apply Permutation_map.
Qed.

Lemma klt_row_le (a b : key) : klt a b -> fst a <= fst b. Proof. unfold klt. lia. Qed.
Lemma ssorted_rowsorted {V} (px : list (key * V)) : StronglySorted klt (map fst px) -> RowSorted px.
Proof.
  unfold RowSorted. induction px as [|p t IH]; intros H; cbn [map]; [constructor|].
  cbn [map] in H. inversion H as [|? ? Ht HF]; subst. constructor; [apply IH; exact Ht|].
  rewrite Forall_map in *. eapply Forall_impl; [|exact HF]. intros q Hq. apply klt_row_le in Hq. exact Hq.
Qed.
(** a written table that is strictly sorted and in range, together with its index, is a valid input *)
Lemma valid_mk_cool {V} n (px : list (key * V)) :
  StronglySorted klt (map fst px) -> Forall (fun p => 0 <= rowof p < Z.of_nat n) px -> ValidIn n (mk_cool n px).
Proof. intros HS HR. constructor; [reflexivity|apply ssorted_rowsorted; exact HS|exact HR]. Qed.

Lemma allpx_range {V} n (inputs : list (mcool V)) : Forall (ValidIn n) inputs ->
  Forall (fun p => 0 <= rowof p < Z.of_nat n) (allpx inputs).
Proof.
  intros HV. unfold allpx. apply Forall_concat. rewrite Forall_map. eapply Forall_impl; [|exact HV].
  intros c [_ _ Hr]. exact Hr.
Qed.
Lemma groupby_range {V} (agg : list V -> V) n (l : list (key * V)) :
  Forall (fun p => 0 <= rowof p < Z.of_nat n) l -> Forall (fun p => 0 <= rowof p < Z.of_nat n) (groupby_agg agg l).
Proof.
  intros H. rewrite Forall_forall in *. intros [k v] Hin.
  assert (Hk : In k (map fst l)). { apply (groupby_agg_keys agg l k). apply in_map_iff. exists (k, v). auto. }
  apply in_map_iff in Hk. destruct Hk as (q & E & Hq). specialize (H q Hq). unfold rowof in *. cbn [fst]. rewrite <- E. exact H.
Qed.
Lemma valid_merged {V} (agg : list V -> V) n (inputs : list (mcool V)) :
  Forall (ValidIn n) inputs -> ValidIn n (mk_cool n (groupby_agg agg (allpx inputs))).
Proof.
  intros HV. apply valid_mk_cool; [apply groupby_agg_sorted|]. apply groupby_range. now apply allpx_range.
Qed.

Lemma allpx_app {V} (a b : list (mcool V)) : allpx (a ++ b) = allpx a ++ allpx b.
Proof. unfold allpx. now rewrite map_app, concat_app. Qed.

(** associativity (sum): merging the stored result of a merge with further inputs equals merging
    everything at once; in particular merge [merge [a;b]; c] = merge [a;b;c] *)
Theorem merge_assoc n (xs ys : list (mcool Z)) b1 b2 b3 :
  xs <> [] -> (1 <= n)%nat -> Forall (ValidIn n) xs -> Forall (ValidIn n) ys ->
  0 <= b1 -> 0 <= b2 -> 0 <= b3 ->
  exists m, merged_px sumZ xs b1 = Ok m /\
    merged_px sumZ (mk_cool n m :: ys) b2 = merged_px sumZ (xs ++ ys) b3.
Proof.
  intros Hne Hn HX HY H1 H2 H3. exists (groupby_agg sumZ (allpx xs)).
  split; [now apply (merger_groupby sumZ n)|].
  rewrite !(merger_groupby sumZ n); auto.
  - f_equal. change (mk_cool n (groupby_agg sumZ (allpx xs)) :: ys) with ([mk_cool n (groupby_agg sumZ (allpx xs))] ++ ys).
    rewrite !allpx_app. unfold allpx at 1. cbn [map concat mc_px mk_cool]. rewrite app_nil_r.
    rewrite !groupby_sum_aggregate. apply aggregate_app_agg.
  - destruct xs; [contradiction|discriminate].
  - apply Forall_app. split; assumption.
  - discriminate.
  - constructor; [now apply valid_merged|exact HY].
Qed.
