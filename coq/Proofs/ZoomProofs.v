(** Proofs about the multi-resolution model (Model/Zoom.v): C09. *)
From Cooler Require Import Model.Zoom Proofs.BinsProofs Proofs.PixelsProofs Proofs.CoarsenProofs.
From Coq Require Import Sorted Permutation ZifyBool.

(* ============================================================ get_multiplier_sequence *)
Lemma memZ_in x l : memZ x l = true <-> In x l.
Proof.
  unfold memZ. rewrite existsb_exists. split.
  - intros [y [Hy E]]. apply Z.eqb_eq in E. now subst.
  - intros H. exists x. split; [exact H|apply Z.eqb_refl].
Qed.

(** the downward scan returns the nearest smaller position whose resolution divides the target *)
Lemma scan_down_spec t : forall rp p,
  (scan_down t rp p = (-1, -1) /\ forall r, In r rp -> t mod r <> 0) \/
  (exists j r, nth_error rp j = Some r /\ t mod r = 0 /\ scan_down t rp p = (p - Z.of_nat j, t / r) /\
               forall j' r', (j' < j)%nat -> nth_error rp j' = Some r' -> t mod r' <> 0).
Proof.
  induction rp as [|r rp IH]; intros p; cbn [scan_down].
  - left. split; [reflexivity|intros r []].
  - destruct (t mod r =? 0) eqn:E.
    + right. exists 0%nat, r. split; [reflexivity|]. split; [lia|]. split; [f_equal; lia|]. intros j' r' Hj. lia.
    + destruct (IH (p - 1)) as [[H1 H2]|(j & r0 & Hj & Hm & Hs & Hbefore)].
      * left. split; [exact H1|]. intros r' [<-|Hr']; [lia|now apply H2].
      * right. exists (S j), r0. split; [exact Hj|]. split; [exact Hm|]. split; [rewrite Hs; f_equal; lia|].
        intros j' r' Hj' Hn. destruct j' as [|j']; cbn in Hn; [injection Hn as <-; lia|].
        apply (Hbefore j' r'); [lia|exact Hn].
Qed.

Lemma nth_error_rev_firstn (l : list Z) i j r : (i <= length l)%nat ->
  nth_error (rev (firstn i l)) j = Some r -> (j < i)%nat /\ nth_error l (i - 1 - j) = Some r.
Proof.
  intros Hi Hj.
  assert (Hlen : length (firstn i l) = i) by (rewrite firstn_length; lia).
  assert (Hjl : (j < i)%nat).
  { rewrite <- Hlen, <- rev_length. apply nth_error_Some. congruence. }
  split; [exact Hjl|].
  assert (H := nth_error_nth (rev (firstn i l)) j 0 Hj).
  rewrite rev_nth in H by (rewrite firstn_length; lia). rewrite firstn_length in H.
  replace (Nat.min i (length l) - S j)%nat with (i - 1 - j)%nat in H by lia.
  assert (Hf : nth_error (firstn i l) (i - 1 - j) = Some r).
  { rewrite <- H. apply nth_error_nth'. rewrite firstn_length. lia. }
  rewrite nth_error_firstn in Hf. destruct (i - 1 - j <? i)%nat; [exact Hf|discriminate].
Qed.

Lemma pred_mult_spec resn i : (i < length resn)%nat ->
  let t := nth i resn 0 in
  (pred_mult resn i = (-1, -1) /\ forall q r, (q < i)%nat -> nth_error resn q = Some r -> t mod r <> 0) \/
  (exists q r, (q < i)%nat /\ nth_error resn q = Some r /\ t mod r = 0 /\ pred_mult resn i = (Z.of_nat q, t / r)).
Proof.
  intros Hi t. unfold pred_mult. fold t.
  destruct (scan_down_spec t (rev (firstn i resn)) (Z.of_nat i - 1)) as [[H1 H2]|(j & r & Hj & Hm & Hs & _)].
  - left. split; [exact H1|]. intros q r Hq Hn. apply H2. apply in_rev. rewrite rev_involutive.
    apply (nth_error_In _ q). rewrite nth_error_firstn. apply Nat.ltb_lt in Hq. now rewrite Hq.
  - right. apply nth_error_rev_firstn in Hj as [Hji Hn]; [|lia].
    exists (i - 1 - j)%nat, r. split; [lia|]. split; [exact Hn|]. split; [exact Hm|].
    rewrite Hs. f_equal. lia.
Qed.

Definition Positive (l : list Z) : Prop := Forall (fun x => 1 <= x) l.

Lemma sorted_lt_nth l : StronglySorted Z.lt l ->
  forall i j x y, (i < j)%nat -> nth_error l i = Some x -> nth_error l j = Some y -> x < y.
Proof.
  induction 1 as [|a l HS IH Hall]; intros i j x y Hij Hx Hy; [now rewrite nth_error_nil' in Hx|].
  destruct j as [|j]; [lia|]. cbn in Hy. destruct i as [|i]; cbn in Hx.
  - injection Hx as <-. rewrite Forall_forall in Hall. apply Hall. eapply nth_error_In; eauto.
  - apply (IH i j); auto. lia.
Qed.

Section MultSeq.
  Variable res bs : list Z.
  Hypothesis Hres : Positive res.
  Hypothesis Hbs : Positive bs.
  Let resn := np_unique (bs ++ res).

  Lemma resn_in x : In x resn <-> In x bs \/ In x res.
  Proof. unfold resn. rewrite np_unique_in, in_app_iff. reflexivity. Qed.

  Lemma resn_pos x : In x resn -> 1 <= x.
  Proof.
    intros H. apply resn_in in H. unfold Positive in *. rewrite Forall_forall in Hres, Hbs.
    destruct H; auto.
  Qed.

  Lemma resn_sorted : StronglySorted Z.lt resn.
  Proof. apply np_unique_sorted. Qed.

  (** what get_multiplier_sequence returns, when it returns *)
  Theorem multseq_sound resn' pred mult :
    get_multiplier_sequence res (Some bs) = Some (resn', pred, mult) ->
    resn' = resn /\ length pred = length resn /\ length mult = length resn /\
    forall i, (i < length resn)%nat ->
      (nth i pred 0 = -1 /\ nth i mult 0 = -1 /\ In (nth i resn 0) bs) \/
      (0 <= nth i pred 0 < Z.of_nat i /\ 2 <= nth i mult 0 /\
       nth (Z.to_nat (nth i pred 0)) resn 0 * nth i mult 0 = nth i resn 0).
  Proof.
    unfold get_multiplier_sequence. fold resn.
    set (pm := map (pred_mult resn) (seq 0 (length resn))).
    destruct (existsb _ _) eqn:E; [discriminate|]. intros H. injection H as <- <- <-.
    split; [reflexivity|]. split; [unfold pm; now rewrite !map_length, seq_length|].
    split; [unfold pm; now rewrite !map_length, seq_length|].
    intros i Hi.
    assert (Hpm : nth_error pm i = Some (pred_mult resn i)).
    { unfold pm. rewrite nth_error_map, (nth_error_nth' _ 0%nat) by (rewrite seq_length; lia).
      rewrite seq_nth by lia. reflexivity. }
    assert (Hp : nth i (map fst pm) 0 = fst (pred_mult resn i)).
    { apply nth_error_nth. rewrite nth_error_map, Hpm. reflexivity. }
    assert (Hm : nth i (map snd pm) 0 = snd (pred_mult resn i)).
    { apply nth_error_nth. rewrite nth_error_map, Hpm. reflexivity. }
    rewrite Hp, Hm.
    assert (Hri : nth_error resn i = Some (nth i resn 0)) by now apply nth_error_nth'.
    destruct (pred_mult_spec resn i Hi) as [[H1 _]|(q & r & Hq & Hn & Hmod & H1)].
    - left. rewrite H1. cbn [fst snd]. split; [reflexivity|]. split; [reflexivity|].
      (* not refused: the entry is a base *)
      destruct (memZ (nth i resn 0) bs) eqn:Em; [now apply memZ_in|exfalso].
      apply Bool.not_true_iff_false in E. apply E. apply existsb_exists.
      exists (nth i resn 0, -1). split.
      + apply (nth_error_In _ i). apply nth_error_combine; [exact Hri|].
        rewrite nth_error_map, Hpm, H1. reflexivity.
      + cbn [fst snd]. rewrite Em. reflexivity.
    - right. rewrite H1. cbn [fst snd]. rewrite Nat2Z.id, (nth_error_nth _ _ 0 Hn).
      assert (Hr : 1 <= r) by (apply resn_pos; eapply nth_error_In; eauto).
      assert (Hlt : r < nth i resn 0) by (apply (sorted_lt_nth resn resn_sorted q i); auto).
      assert (Hex : nth i resn 0 = r * (nth i resn 0 / r)) by (apply Z_div_exact_full_2; lia).
      split; [lia|]. split; [nia|lia].
  Qed.

  (** it refuses exactly when some requested resolution is not a multiple of any base *)
  Theorem multseq_complete :
    get_multiplier_sequence res (Some bs) = None <->
    exists r, In r res /\ forall b, In b bs -> r mod b <> 0.
  Proof.
    unfold get_multiplier_sequence. fold resn.
    set (pm := map (pred_mult resn) (seq 0 (length resn))).
    assert (Hpm : forall i, (i < length resn)%nat -> nth_error pm i = Some (pred_mult resn i)).
    { intros i Hi. unfold pm. rewrite nth_error_map, (nth_error_nth' _ 0%nat) by (rewrite seq_length; lia).
      rewrite seq_nth by lia. reflexivity. }
    assert (Hlen : length (map fst pm) = length resn) by (unfold pm; now rewrite !map_length, seq_length).
    (* the refusal test, index by index *)
    assert (Hex : existsb (fun rp => (snd rp =? -1) && negb (memZ (fst rp) bs)) (combine resn (map fst pm)) = true <->
                  exists i, (i < length resn)%nat /\ fst (pred_mult resn i) = -1 /\ ~ In (nth i resn 0) bs).
    { rewrite existsb_exists. split.
      - intros [[r p] [Hin Ht]]. apply In_nth_error in Hin as [i Hi]. cbn [fst snd] in Ht.
        assert (Hil : (i < length resn)%nat).
        { assert (H : (i < length (combine resn (map fst pm)))%nat) by (apply nth_error_Some; congruence).
          rewrite combine_length in H. lia. }
        rewrite (nth_error_combine resn (map fst pm) i (nth i resn 0) (fst (pred_mult resn i))) in Hi.
        2:{ now apply nth_error_nth'. }
        2:{ rewrite nth_error_map, (Hpm i Hil). reflexivity. }
        injection Hi as <- <-. exists i. split; [exact Hil|]. split; [lia|].
        intros Hin'. apply memZ_in in Hin'. rewrite Hin' in Ht. cbn in Ht. lia.
      - intros (i & Hil & Hp & Hnb). exists (nth i resn 0, fst (pred_mult resn i)). split.
        + apply (nth_error_In _ i). apply nth_error_combine; [now apply nth_error_nth'|].
          rewrite nth_error_map, (Hpm i Hil). reflexivity.
        + cbn [fst snd]. rewrite Hp. destruct (memZ (nth i resn 0) bs) eqn:Em; [apply memZ_in in Em; contradiction|reflexivity]. }
    assert (Hdiv : forall x y z, 1 <= y -> 1 <= z -> x mod y = 0 -> y mod z = 0 -> x mod z = 0).
    { intros x y z Hy Hz H1 H2. apply Z.mod_divide; [lia|]. apply Z.mod_divide in H1, H2; try lia.
      eapply Z.divide_trans; eauto. }
    split.
    - intros H.
      assert (E : existsb (fun rp => (snd rp =? -1) && negb (memZ (fst rp) bs)) (combine resn (map fst pm)) = true).
      { destruct (existsb (fun rp => (snd rp =? -1) && negb (memZ (fst rp) bs)) (combine resn (map fst pm))) in H |- *; [reflexivity|discriminate]. }
      clear H. apply (proj1 Hex) in E. destruct E as (i & Hil & Hp & Hnb).
      assert (Hri : nth_error resn i = Some (nth i resn 0)) by now apply nth_error_nth'.
      assert (Hin : In (nth i resn 0) resn) by (eapply nth_error_In; eauto).
      exists (nth i resn 0). split.
      + apply resn_in in Hin as [Hin|Hin]; [contradiction|exact Hin].
      + intros b Hb Hmod.
        assert (Hbpos : 1 <= b) by (unfold Positive in Hbs; rewrite Forall_forall in Hbs; auto).
        assert (Hbr : In b resn) by (apply resn_in; now left).
        apply In_nth_error in Hbr as [q Hq].
        assert (Hble : b <= nth i resn 0).
        { apply Z.mod_divide in Hmod; [|lia]. apply Z.divide_pos_le; [|exact Hmod]. apply resn_pos in Hin. lia. }
        assert (Hne : b <> nth i resn 0) by (intros ->; contradiction).
        assert (Hqi : (q < i)%nat).
        { destruct (Nat.lt_trichotomy q i) as [Hlt|[->|Hgt]]; [exact Hlt| |].
          - rewrite Hri in Hq. injection Hq as Hq. lia.
          - pose proof (sorted_lt_nth resn resn_sorted i q _ _ Hgt Hri Hq). lia. }
        destruct (pred_mult_spec resn i Hil) as [[_ H2]|(q' & r' & Hq' & Hn' & Hm' & H1)].
        * apply (H2 q b Hqi Hq Hmod).
        * rewrite H1 in Hp. cbn in Hp. lia.
    - intros (r & Hr & Hnone).
      (* strong induction along the predecessor chain *)
      assert (Hchain : forall n i, (i < n)%nat -> (i < length resn)%nat ->
                (forall b, In b bs -> nth i resn 0 mod b <> 0) ->
                exists i', (i' < length resn)%nat /\ fst (pred_mult resn i') = -1 /\ ~ In (nth i' resn 0) bs).
      { induction n as [|n IH]; intros i Hin Hil Hnb; [lia|].
        assert (Hnotbase : ~ In (nth i resn 0) bs).
        { intros Hb. apply (Hnb _ Hb). apply Z.mod_same. assert (1 <= nth i resn 0) by (apply resn_pos, nth_In; lia). lia. }
        destruct (pred_mult_spec resn i Hil) as [[H1 _]|(q & r0 & Hq & Hn & Hm & H1)].
        - exists i. rewrite H1. auto.
        - apply (IH q); [lia|apply nth_error_Some; congruence|].
          intros b Hb Hmod. apply (Hnb b Hb).
          assert (1 <= r0) by (apply resn_pos; eapply nth_error_In; eauto).
          assert (1 <= b) by (unfold Positive in Hbs; rewrite Forall_forall in Hbs; auto).
          rewrite (nth_error_nth _ _ 0 Hn) in Hmod. apply (Hdiv _ r0 b); auto. }
      assert (Hrin : In r resn) by (apply resn_in; now right).
      apply (In_nth _ _ 0) in Hrin as (i & Hil & Hi).
      destruct (Hchain (S i) i ltac:(lia) Hil ltac:(rewrite Hi; exact Hnone)) as (i' & A & B & D).
      assert (E : existsb (fun rp => (snd rp =? -1) && negb (memZ (fst rp) bs)) (combine resn (map fst pm)) = true)
        by (apply Hex; eauto).
      rewrite E. reflexivity.
  Qed.
End MultSeq.

(* ================================================================= coolers as records *)
Definition ValidCooler (c : cooler) : Prop :=
  exists blocks, c_bins c = concat blocks /\ ValidBlocks blocks /\ c_sizes c = map chrom_end blocks /\
                 RowSorted (c_px c) /\ InRange (zlen (concat blocks)) (c_px c).

Lemma coarsen_c_valid c k cs bs : 1 <= k -> 1 <= cs -> 1 <= bs -> ValidCooler c -> ValidCooler (coarsen_c c k cs bs).
Proof.
  intros Hk Hcs Hbs (blocks & Eb & HV & Es & HS & HR).
  destruct (coarsen_bins_spec blocks k Hk HV) as (E1 & V1 & Ends1 & Lens1).
  exists (map (coarsen_block k) blocks). unfold coarsen_c, coarsen_cooler, c_bins, c_sizes, c_px in *. cbn [fst snd].
  rewrite Eb, Es, E1. split; [reflexivity|]. split; [exact V1|]. split; [now rewrite Ends1|].
  rewrite (coarsen_canon blocks (snd c) k cs bs) by (auto using inrange_rows).
  assert (Hlens : Forall (fun n => 0 <= n) (map zlen blocks)).
  { eapply Forall_impl; [|exact (valid_lens blocks HV)]. intros; cbn in *; lia. }
  split.
  - apply ssorted_rowsorted. unfold coarsen_spec. now destruct (aggregate_canon (map (rekey (index_table (map zlen blocks) k)) (snd c))).
  - rewrite zlen_concat, Lens1, <- (map_map zlen (fun n => cdiv n k)).
    apply coarsen_spec_inrange; auto. now rewrite <- zlen_concat.
Qed.

Lemma coarsen_c_compose c k1 k2 cs1 bs1 cs2 bs2 cs bs :
  1 <= k1 -> 1 <= k2 -> 1 <= cs1 -> 1 <= bs1 -> 1 <= cs2 -> 1 <= bs2 -> 1 <= cs -> 1 <= bs -> ValidCooler c ->
  coarsen_c (coarsen_c c k1 cs1 bs1) k2 cs2 bs2 = coarsen_c c (k1 * k2) cs bs.
Proof.
  intros H1 H2 Hc1 Hb1 Hc2 Hb2 Hc Hb (blocks & Eb & HV & Es & HS & HR).
  pose proof (coarsen_compose blocks (c_px c) k1 k2 cs1 bs1 cs2 bs2 cs bs H1 H2 Hc1 Hb1 Hc2 Hb2 Hc Hb HV HS HR) as H.
  cbv zeta in H. unfold coarsen_c. unfold c_bins, c_sizes, c_px in *. cbn [fst snd] in *.
  rewrite Eb, Es. rewrite H. reflexivity.
Qed.

Lemma coarsen_c_chunk_independent c k cs1 bs1 cs2 bs2 :
  1 <= k -> 1 <= cs1 -> 1 <= bs1 -> 1 <= cs2 -> 1 <= bs2 -> ValidCooler c ->
  coarsen_c c k cs1 bs1 = coarsen_c c k cs2 bs2.
Proof.
  intros Hk Hc1 Hb1 Hc2 Hb2 (blocks & Eb & HV & Es & HS & HR).
  unfold coarsen_c, coarsen_cooler. unfold c_bins, c_sizes, c_px in *. cbn [fst snd] in *. rewrite Eb, Es.
  rewrite (coarsen_chunk_independent blocks (snd c) k cs1 bs1 cs2 bs2) by (auto using inrange_rows). reflexivity.
Qed.

(* ================================================================ zoomify_cooler *)
Lemma lookup_in {A} r (lv : list (Z * A)) c : lookup r lv = Some c -> In (r, c) lv.
Proof.
  induction lv as [|[r' c'] lv IH]; cbn [lookup]; [discriminate|].
  destruct (r =? r') eqn:E; intros H.
  - injection H as <-. apply Z.eqb_eq in E. subst. now left.
  - right. now apply IH.
Qed.

Lemma lookup_key_in {A} r (lv : list (Z * A)) : In r (map fst lv) -> exists c, lookup r lv = Some c.
Proof.
  induction lv as [|[r' c'] lv IH]; cbn [map fst lookup In]; [intros []|].
  destruct (r =? r') eqn:E; [eauto|]. intros [H|H]; [lia|now apply IH].
Qed.

Lemma lookup_cons_ne {A} r r' (c' : A) lv : r <> r' -> lookup r ((r', c') :: lv) = lookup r lv.
Proof. intros H. cbn [lookup]. destruct (r =? r') eqn:E; [lia|reflexivity]. Qed.

Lemma lookup_copied {A} (f : Z -> A) l r : In r l -> lookup r (map (fun b => (b, f b)) l) = Some (f r).
Proof.
  induction l as [|x l IH]; [intros []|]. cbn [map lookup].
  destruct (r =? x) eqn:E; [apply Z.eqb_eq in E; now subst|]. intros [H|H]; [lia|now apply IH].
Qed.

Lemma sorted_lt_nodup l : StronglySorted Z.lt l -> NoDup l.
Proof.
  induction 1 as [|a l HS IH Hall]; constructor; [|exact IH].
  intros Hin. rewrite Forall_forall in Hall. specialize (Hall a Hin). lia.
Qed.

(** [c] is what the property demands at resolution [r]: the copied base, or the DIRECT coarsening of a
    base by the ratio of resolutions (for any chunk and batch size) *)
Section ZoomAbstract.
Context {C : Type}.
Variable coarsenC : C -> Z -> Z -> Z -> C.
Variable emptyC : C.
Variable ValidC : C -> Prop.
Hypothesis HCvalid : forall c k cs bs, 1 <= k -> 1 <= cs -> 1 <= bs -> ValidC c -> ValidC (coarsenC c k cs bs).
Hypothesis HCcompose : forall c k1 k2 cs1 bs1 cs2 bs2 cs bs,
  1 <= k1 -> 1 <= k2 -> 1 <= cs1 -> 1 <= bs1 -> 1 <= cs2 -> 1 <= bs2 -> 1 <= cs -> 1 <= bs -> ValidC c ->
  coarsenC (coarsenC c k1 cs1 bs1) k2 cs2 bs2 = coarsenC c (k1 * k2) cs bs.
Hypothesis HCindep : forall c k cs1 bs1 cs2 bs2,
  1 <= k -> 1 <= cs1 -> 1 <= bs1 -> 1 <= cs2 -> 1 <= bs2 -> ValidC c -> coarsenC c k cs1 bs1 = coarsenC c k cs2 bs2.

Definition DirectW (bases : list (Z * C)) (r : Z) (c : C) : Prop :=
  (In r (map fst bases) /\ lookup r (base_dict bases) = Some c) \/
  (~ In r (map fst bases) /\ exists b cb k, In b (map fst bases) /\ lookup b (base_dict bases) = Some cb /\ 2 <= k /\ r = b * k /\
      forall cs bs, 1 <= cs -> 1 <= bs -> c = coarsenC cb k cs bs).

Section Zoomify.
  Variable bases : list (Z * C).
  Variable res : list Z.
  Variables cs bs : Z.
  Hypothesis Hcs : 1 <= cs.
  Hypothesis Hbs : 1 <= bs.
  Hypothesis Hres : Positive res.
  Hypothesis Hbpos : Positive (map fst bases).
  Hypothesis Hvalid : forall b c, In (b, c) bases -> ValidC c.
  Let bres := map fst bases.
  Let BD := base_dict bases.
  Let base_of := fun b => match lookup b BD with Some c => c | None => emptyC end.

  Lemma base_lookup b : In b bres -> exists c, lookup b BD = Some c /\ ValidC c.
  Proof.
    intros Hb. assert (Hk : In b (map fst BD)).
    { unfold BD, base_dict. rewrite map_rev. apply in_rev. rewrite rev_involutive. exact Hb. }
    destruct (lookup_key_in b BD Hk) as [c Hc]. exists c. split; [exact Hc|].
    apply lookup_in in Hc. unfold BD, base_dict in Hc. apply (proj2 (in_rev bases (b, c))) in Hc. eauto.
  Qed.

  Variables resn pred mult : list Z.
  Hypothesis Hseq : get_multiplier_sequence res (Some bres) = Some (resn, pred, mult).

  Let sound := multseq_sound res bres Hres Hbpos resn pred mult Hseq.

  Lemma resn_eq : resn = np_unique (bres ++ res).
  Proof. now destruct sound. Qed.

  Lemma sound_resn : length pred = length resn /\ length mult = length resn /\
    forall i, (i < length resn)%nat ->
      (nth i pred 0 = -1 /\ nth i mult 0 = -1 /\ In (nth i resn 0) bres) \/
      (0 <= nth i pred 0 < Z.of_nat i /\ 2 <= nth i mult 0 /\
       nth (Z.to_nat (nth i pred 0)) resn 0 * nth i mult 0 = nth i resn 0).
  Proof. destruct sound as (E & A & B & D). rewrite <- E in *. auto. Qed.

  Lemma resn_nodup_nth i j : (i < length resn)%nat -> (j < length resn)%nat -> i <> j -> nth i resn 0 <> nth j resn 0.
  Proof.
    intros Hi Hj Hij. pose proof (np_unique_sorted (bres ++ res)) as HS. rewrite <- resn_eq in HS.
    destruct (Nat.lt_trichotomy i j) as [H|[H|H]]; [|contradiction|].
    - pose proof (sorted_lt_nth resn HS i j _ _ H (nth_error_nth' _ 0 Hi) (nth_error_nth' _ 0 Hj)). lia.
    - pose proof (sorted_lt_nth resn HS j i _ _ H (nth_error_nth' _ 0 Hj) (nth_error_nth' _ 0 Hi)). lia.
  Qed.

  (** invariant of the Aggregate loop after the first n entries of resn *)
  Definition ZInv (n : nat) (lv : list (Z * C)) : Prop :=
    (forall b, In b bres -> lookup b lv = Some (base_of b)) /\
    (forall i, (i < n)%nat -> (i < length resn)%nat -> exists c, lookup (nth i resn 0) lv = Some c /\ DirectW bases (nth i resn 0) c /\ ValidC c) /\
    NoDup (map fst lv) /\
    (forall r, In r (map fst lv) -> In r bres \/ exists j, (j < n)%nat /\ (j < length resn)%nat /\ r = nth j resn 0).

  Lemma zoom_step_inv n lv : (n < length resn)%nat -> ZInv n lv ->
    exists lv', zoom_step_w coarsenC resn pred mult bres cs bs (Some lv) n = Some lv' /\ ZInv (S n) lv'.
  Proof.
    intros Hn (IB & ID & IN & IK).
    destruct sound_resn as (Lp & Lm & Hs). specialize (Hs n Hn).
    unfold zoom_step_w.
    assert (Hnth : nth n pred (-1) = nth n pred 0) by (apply nth_indep; lia). rewrite Hnth.
    destruct Hs as [(Hp & Hm & Hb)|(Hp & Hm & Hprod)].
    - (* a base: nothing written *)
      rewrite Hp. cbn [Z.eqb orb]. replace (-1 =? -1) with true by reflexivity. cbn [orb].
      exists lv. split; [reflexivity|]. split; [exact IB|]. split; [|split; [exact IN|]].
      + intros i Hi Hil. destruct (Nat.eq_dec i n) as [->|Hne]; [|apply ID; lia].
        destruct (base_lookup _ Hb) as (c & Hc & Vc). exists c.
        split; [rewrite (IB _ Hb); unfold base_of; now rewrite Hc|]. split; [left; split; assumption|exact Vc].
      + intros r Hr. destruct (IK r Hr) as [H|(j & Hj & Hjl & ->)]; [now left|right; exists j; split; [lia|auto]].
    - destruct (memZ (nth n resn 0) bres) eqn:Em.
      + (* D17: a base that is a multiple of another base is copied, not re-derived *)
        rewrite Bool.orb_true_r. apply memZ_in in Em.
        exists lv. split; [reflexivity|]. split; [exact IB|]. split; [|split; [exact IN|]].
        * intros i Hi Hil. destruct (Nat.eq_dec i n) as [->|Hne]; [|apply ID; lia].
          destruct (base_lookup _ Em) as (c & Hc & Vc). exists c.
          split; [rewrite (IB _ Em); unfold base_of; now rewrite Hc|]. split; [left; split; assumption|exact Vc].
        * intros r Hr. destruct (IK r Hr) as [H|(j & Hj & Hjl & ->)]; [now left|right; exists j; split; [lia|auto]].
      + (* a derived level *)
        assert (Hnb : ~ In (nth n resn 0) bres) by (intros X; apply memZ_in in X; congruence).
        replace (nth n pred 0 =? -1) with false by lia. cbn [orb].
        set (q := Z.to_nat (nth n pred 0)). assert (Hq : (q < n)%nat) by (unfold q; lia).
        destruct (ID q Hq ltac:(lia)) as (cp & Hlp & Dp & Vp). rewrite Hlp.
        assert (Hmnth : nth n mult 0 = nth n mult 0) by reflexivity.
        eexists. split; [reflexivity|]. fold q in Hprod. rewrite Hprod.
        set (m := nth n mult 0) in *.
        assert (Hnew : forall r, In r (map fst lv) -> r <> nth n resn 0).
        { intros r Hr E. destruct (IK r Hr) as [H|(j & Hj & Hjl & Ej)]; [subst; contradiction|].
          apply (resn_nodup_nth n j Hn Hjl ltac:(lia)). congruence. }
        split; [|split; [|split]].
        * intros b Hb. rewrite lookup_cons_ne; [now apply IB|]. intros ->. contradiction.
        * intros i Hi Hil. destruct (Nat.eq_dec i n) as [->|Hne].
          -- exists (coarsenC cp m cs bs). split; [cbn [lookup]; now rewrite Z.eqb_refl|].
             split; [|apply HCvalid; auto; lia].
             right. split; [exact Hnb|].
             destruct Dp as [(Hb & Hl)|(_ & b & cb & k & Hb & Hl & Hk & Er & Hc)].
             ++ exists (nth q resn 0), cp, m. split; [exact Hb|]. split; [exact Hl|]. split; [exact Hm|]. split; [lia|].
                intros cs' bs' Hcs' Hbs'. apply HCindep; auto; lia.
             ++ destruct (base_lookup _ Hb) as (cb' & Hl' & Vcb). unfold BD in Hl'. rewrite Hl in Hl'. injection Hl' as <-.
                exists b, cb, (k * m). split; [exact Hb|]. split; [exact Hl|]. split; [nia|]. split; [rewrite <- Hprod, Er; lia|].
                intros cs' bs' Hcs' Hbs'. rewrite (Hc cs bs Hcs Hbs).
                apply HCcompose; auto; lia.
          -- destruct (ID i ltac:(lia) Hil) as (c & Hl & D & V). exists c. split; [|auto].
             rewrite lookup_cons_ne; [exact Hl|]. apply resn_nodup_nth; auto.
        * cbn [map fst]. constructor; [|exact IN]. intros X. now apply (Hnew _ X).
        * cbn [map fst In]. intros r [<-|Hr]; [right; exists n; auto|].
          destruct (IK r Hr) as [H|(j & Hj & Hjl & ->)]; [now left|right; exists j; split; [lia|auto]].
  Qed.

  Lemma zoom_fold_inv : forall m n lv, (n + m = length resn)%nat -> ZInv n lv ->
    exists lv', fold_left (zoom_step_w coarsenC resn pred mult bres cs bs) (seq n m) (Some lv) = Some lv' /\ ZInv (length resn) lv'.
  Proof.
    induction m as [|m IH]; intros n lv Hnm HI.
    - exists lv. split; [reflexivity|]. replace (length resn) with n by lia. exact HI.
    - cbn [seq fold_left]. destruct (zoom_step_inv n lv ltac:(lia) HI) as (lv1 & E & HI1).
      rewrite E. apply IH; [lia|exact HI1].
  Qed.
End Zoomify.

(** zoomify_cooler: every level of the file is the copied base or the DIRECT coarsening of a base by the
    ratio of resolutions, whatever chain of intermediate levels produced it; each of the requested and base
    resolutions is present exactly once; it refuses exactly the non-derivable requests *)
Theorem zoom_with_eq_direct bases res cs bs :
  1 <= cs -> 1 <= bs -> Positive res -> Positive (map fst bases) ->
  (forall b c, In (b, c) bases -> ValidC c) ->
  (forall lv, zoomify_with coarsenC emptyC bases res cs bs = Some lv ->
     Permutation (map fst lv) (np_unique (map fst bases ++ res)) /\ NoDup (map fst lv) /\
     forall r c, lookup r lv = Some c -> DirectW bases r c /\ ValidC c) /\
  (zoomify_with coarsenC emptyC bases res cs bs = None <->
     exists r, In r res /\ forall b, In b (map fst bases) -> r mod b <> 0).
Proof.
  intros Hcs Hbs Hres Hbpos Hvalid.
  pose proof (multseq_complete res (map fst bases) Hres Hbpos) as Hcomp.
  unfold zoomify_with.
  destruct (get_multiplier_sequence res (Some (map fst bases))) as [[[resn pred] mult]|] eqn:Hseq.
  2:{ split; [intros lv H; discriminate|]. split; [intros _; now apply Hcomp|reflexivity]. }
  set (copied := map (fun b => (b, match lookup b (base_dict bases) with Some c => c | None => emptyC end))
                     (np_unique (map fst bases))).
  assert (Hkeys : map fst copied = np_unique (map fst bases)).
  { unfold copied. rewrite map_map. cbn [fst]. apply map_id. }
  assert (H0 : ZInv bases resn 0 copied).
  { split; [|split; [|split]].
    - intros b Hb. unfold copied. apply (lookup_copied (fun b => match lookup b (base_dict bases) with Some c => c | None => emptyC end)).
      apply (proj2 (np_unique_in _ _)). exact Hb.
    - intros i Hi. lia.
    - rewrite Hkeys. apply sorted_lt_nodup, np_unique_sorted.
    - intros r Hr. left. rewrite Hkeys in Hr. rewrite np_unique_in in Hr. exact Hr. }
  destruct (zoom_fold_inv bases res cs bs Hcs Hbs Hres Hbpos Hvalid resn pred mult Hseq (length resn) 0 copied eq_refl H0)
    as (lv' & Efold & (IB & ID & IN & IK)).
  rewrite Efold.
  pose proof (resn_eq bases res Hres Hbpos resn pred mult Hseq) as Eresn.
  assert (Hset : forall x, In x (map fst lv') <-> In x resn).
  { intros x. split.
    - intros Hx. destruct (IK x Hx) as [H|(j & _ & Hj & ->)].
      + rewrite Eresn. apply (proj2 (np_unique_in _ _)), in_or_app. now left.
      + apply nth_In. exact Hj.
    - intros Hx. apply (In_nth _ _ 0) in Hx as (i & Hi & <-).
      destruct (ID i Hi Hi) as (c & Hl & _). apply lookup_in in Hl. now apply (in_map fst) in Hl. }
  split.
  - intros lv E. injection E as <-. split; [|split; [exact IN|]].
    + rewrite <- Eresn. apply NoDup_Permutation; [exact IN| |exact Hset].
      rewrite Eresn. apply sorted_lt_nodup, np_unique_sorted.
    + intros r c Hl. assert (Hr : In r resn) by (apply Hset; apply lookup_in in Hl; now apply (in_map fst) in Hl).
      apply (In_nth _ _ 0) in Hr as (i & Hi & <-).
      destruct (ID i Hi Hi) as (c' & Hl' & D & V). rewrite Hl in Hl'. injection Hl' as <-. auto.
  - split; [discriminate|]. intros Hex. apply Hcomp in Hex. congruence.
Qed.

End ZoomAbstract.

(** default aggregation (sum of the count column) *)
Definition Direct : list (Z * cooler) -> Z -> cooler -> Prop := DirectW coarsen_c.

Theorem zoom_level_eq_direct bases res cs bs :
  1 <= cs -> 1 <= bs -> Positive res -> Positive (map fst bases) ->
  (forall b c, In (b, c) bases -> ValidCooler c) ->
  (forall lv, zoomify_cooler bases res cs bs = Some lv ->
     Permutation (map fst lv) (np_unique (map fst bases ++ res)) /\ NoDup (map fst lv) /\
     forall r c, lookup r lv = Some c -> Direct bases r c /\ ValidCooler c) /\
  (zoomify_cooler bases res cs bs = None <->
     exists r, In r res /\ forall b, In b (map fst bases) -> r mod b <> 0).
Proof.
  intros. apply (zoom_with_eq_direct coarsen_c ([], [], []) ValidCooler coarsen_c_valid coarsen_c_compose
                   coarsen_c_chunk_independent); assumption.
Qed.

(* ============================== any value type, any aggregation that composes over a partition *)
Section ZoomAgg.
  Context {V : Type}.
  Variable agg : list V -> V.
  Hypothesis Hperm : AggPerm agg.
  Hypothesis Hdecomp : AggDecomp agg.

  Definition ValidCoolerG (c : gcooler V) : Prop :=
    exists blocks, fst (fst c) = concat blocks /\ ValidBlocks blocks /\ snd (fst c) = map chrom_end blocks /\
                   RowSorted (shadow (snd c)) /\ InRange (zlen (concat blocks)) (shadow (snd c)).

  Lemma coarsen_cg_valid c k cs bs : 1 <= k -> 1 <= cs -> 1 <= bs -> ValidCoolerG c -> ValidCoolerG (coarsen_cg agg c k cs bs).
  Proof.
    intros Hk Hcs Hbs (blocks & Eb & HV & Es & HS & HR).
    destruct (coarsen_bins_spec blocks k Hk HV) as (E1 & V1 & Ends1 & Lens1).
    exists (map (coarsen_block k) blocks). unfold coarsen_cg, coarsen_cooler_g. cbn [fst snd].
    rewrite Eb, Es, E1. split; [reflexivity|]. split; [exact V1|]. split; [now rewrite Ends1|].
    rewrite (coarsen_exact agg blocks (snd c) k cs bs) by (auto using inrange_rows).
    assert (Hlens : Forall (fun n => 0 <= n) (map zlen blocks)).
    { eapply Forall_impl; [|exact (valid_lens blocks HV)]. intros; cbn in *; lia. }
    split.
    - unfold coarsen_spec_g. apply groupby_rowsorted.
    - rewrite zlen_concat, Lens1, <- (map_map zlen (fun n => cdiv n k)).
      apply coarsen_spec_inrange_g; auto. now rewrite <- zlen_concat.
  Qed.

  Lemma coarsen_cg_compose c k1 k2 cs1 bs1 cs2 bs2 cs bs :
    1 <= k1 -> 1 <= k2 -> 1 <= cs1 -> 1 <= bs1 -> 1 <= cs2 -> 1 <= bs2 -> 1 <= cs -> 1 <= bs -> ValidCoolerG c ->
    coarsen_cg agg (coarsen_cg agg c k1 cs1 bs1) k2 cs2 bs2 = coarsen_cg agg c (k1 * k2) cs bs.
  Proof.
    intros H1 H2 Hc1 Hb1 Hc2 Hb2 Hc Hb (blocks & Eb & HV & Es & HS & HR).
    pose proof (coarsen_compose_g agg Hperm Hdecomp blocks (snd c) k1 k2 cs1 bs1 cs2 bs2 cs bs H1 H2 Hc1 Hb1 Hc2 Hb2 Hc Hb HV HS HR) as H.
    cbv zeta in H. unfold coarsen_cg. cbn [fst snd]. rewrite Eb, Es. rewrite H. reflexivity.
  Qed.

  Lemma coarsen_cg_chunk_independent c k cs1 bs1 cs2 bs2 :
    1 <= k -> 1 <= cs1 -> 1 <= bs1 -> 1 <= cs2 -> 1 <= bs2 -> ValidCoolerG c ->
    coarsen_cg agg c k cs1 bs1 = coarsen_cg agg c k cs2 bs2.
  Proof.
    intros Hk Hc1 Hb1 Hc2 Hb2 (blocks & Eb & HV & Es & HS & HR).
    unfold coarsen_cg, coarsen_cooler_g. cbn [fst snd]. rewrite Eb, Es.
    rewrite (coarsen_exact_chunk_independent agg blocks (snd c) k cs1 bs1 cs2 bs2) by (auto using inrange_rows). reflexivity.
  Qed.

  (** zoomify with a requested aggregation: every derived level is the DIRECT coarsening (with that
      aggregation) of a base by the ratio of resolutions, whatever chain produced it *)
  Theorem zoom_level_eq_direct_g bases res cs bs :
    1 <= cs -> 1 <= bs -> Positive res -> Positive (map fst bases) ->
    (forall b c, In (b, c) bases -> ValidCoolerG c) ->
    (forall lv, zoomify_cooler_g agg bases res cs bs = Some lv ->
       Permutation (map fst lv) (np_unique (map fst bases ++ res)) /\ NoDup (map fst lv) /\
       forall r c, lookup r lv = Some c -> DirectW (coarsen_cg agg) bases r c /\ ValidCoolerG c) /\
    (zoomify_cooler_g agg bases res cs bs = None <->
       exists r, In r res /\ forall b, In b (map fst bases) -> r mod b <> 0).
  Proof.
    intros. apply (zoom_with_eq_direct (coarsen_cg agg) ([], [], []) ValidCoolerG coarsen_cg_valid coarsen_cg_compose
                     coarsen_cg_chunk_independent); assumption.
  Qed.
End ZoomAgg.

(* ================================================= preferred_sequence / the -r grammar *)
Lemma pow2_pos i : 0 <= i -> 1 <= 2 ^ i.
Proof. intros. assert (0 < 2 ^ i) by (apply Z.pow_pos_nonneg; lia). lia. Qed.
Lemma pow10_pos i : 0 <= i -> 1 <= 10 ^ i.
Proof. intros. assert (0 < 10 ^ i) by (apply Z.pow_pos_nonneg; lia). lia. Qed.

(** binary progression: exactly the x * 2^i that are <= stop, ascending *)
Lemma geom_upto_spec stop : forall fuel x, 1 <= x -> stop < x * 2 ^ Z.of_nat fuel ->
  (forall y, In y (geom_upto fuel x 2 stop) <-> exists i, 0 <= i /\ y = x * 2 ^ i /\ y <= stop) /\
  StronglySorted Z.lt (geom_upto fuel x 2 stop) /\ Forall (fun y => x <= y) (geom_upto fuel x 2 stop).
Proof.
  induction fuel as [|f IH]; intros x Hx Hf.
  - cbn [geom_upto]. split; [|split; constructor]. intros y. split; [intros []|].
    intros (i & Hi & -> & Hy). pose proof (pow2_pos i Hi). cbn in Hf. nia.
  - cbn [geom_upto]. destruct (x <=? stop) eqn:E.
    + destruct (IH (x * 2) ltac:(lia)) as (A & B & D).
      { rewrite Nat2Z.inj_succ, Z.pow_succ_r in Hf by lia. lia. }
      split; [|split].
      * intros y. cbn [In]. rewrite A. split.
        -- intros [<-|(i & Hi & -> & Hy)]; [exists 0; split; [lia|split; [cbn; lia|lia]]|].
           exists (i + 1). rewrite Z.pow_add_r by lia. split; [lia|]. split; [cbn; lia|]. cbn in *; lia.
        -- intros (i & Hi & -> & Hy). destruct (Z.eq_dec i 0) as [->|Hne]; [left; cbn; lia|right].
           exists (i - 1). split; [lia|]. replace (2 ^ i) with (2 ^ (i - 1) * 2) in *.
           2:{ replace i with ((i - 1) + 1) at 2 by lia. rewrite Z.pow_add_r by lia. cbn. lia. }
           split; [lia|lia].
      * constructor; [exact B|]. eapply Forall_impl; [|exact D]. intros; cbn in *; lia.
      * constructor; [lia|]. eapply Forall_impl; [|exact D]. intros; cbn in *; lia.
    + split; [|split; constructor]. intros y. split; [intros []|].
      intros (i & Hi & -> & Hy). pose proof (pow2_pos i Hi). nia.
Qed.

Lemma log2_fuel stop : 0 <= stop -> stop < 2 ^ Z.of_nat (Z.to_nat (Z.log2_up (stop + 2))).
Proof.
  intros H. rewrite Z2Nat.id by apply Z.log2_up_nonneg.
  pose proof (Z.log2_up_spec (stop + 2) ltac:(lia)). lia.
Qed.

Theorem preferred_binary_spec start stop : 1 <= start ->
  (forall y, In y (preferred_sequence start stop true) <-> exists i, 0 <= i /\ y = start * 2 ^ i /\ y <= stop) /\
  StronglySorted Z.lt (preferred_sequence start stop true).
Proof.
  intros Hs. unfold preferred_sequence. destruct (stop <? start) eqn:E.
  - split; [|constructor]. intros y. split; [intros []|]. intros (i & Hi & -> & Hy). pose proof (pow2_pos i Hi). nia.
  - destruct (geom_upto_spec stop (Z.to_nat (Z.log2_up (stop + 2)) + 1) (start * 2) ltac:(lia)) as (A & B & D).
    { pose proof (log2_fuel stop ltac:(lia)) as H. rewrite Nat2Z.inj_add, Z.pow_add_r by lia.
      assert (1 <= 2 ^ Z.of_nat 1) by (cbn; lia). nia. }
    split.
    + intros y. cbn [In]. rewrite A. split.
      * intros [<-|(i & Hi & -> & Hy)]; [exists 0; split; [lia|split; [cbn; lia|lia]]|].
        exists (i + 1). rewrite Z.pow_add_r by lia. split; [lia|]. split; [cbn; lia|]. cbn in *; lia.
      * intros (i & Hi & -> & Hy). destruct (Z.eq_dec i 0) as [->|Hne]; [left; cbn; lia|right].
        exists (i - 1). split; [lia|]. replace (2 ^ i) with (2 ^ (i - 1) * 2) in *.
        2:{ replace i with ((i - 1) + 1) at 2 by lia. rewrite Z.pow_add_r by lia. cbn. lia. }
        split; [lia|lia].
    + constructor; [exact B|]. eapply Forall_impl; [|exact D]. intros; cbn in *; lia.
Qed.

(** nice progression: exactly the x * 10^j * m, m in {2,5,10}, that are <= stop, ascending *)
Lemma nice_upto_spec stop : forall fuel x, 1 <= x -> stop < x * 10 ^ Z.of_nat fuel ->
  (forall y, In y (nice_upto fuel x stop) <->
     exists j m, 0 <= j /\ (m = 2 \/ m = 5 \/ m = 10) /\ y = x * 10 ^ j * m /\ y <= stop) /\
  StronglySorted Z.lt (nice_upto fuel x stop) /\ Forall (fun y => x < y) (nice_upto fuel x stop).
Proof.
  induction fuel as [|f IH]; intros x Hx Hf.
  - cbn [nice_upto]. split; [|split; constructor]. intros y. split; [intros []|].
    intros (j & m & Hj & Hm & -> & Hy). pose proof (pow10_pos j Hj). cbn in Hf. nia.
  - assert (Hsplit : forall y, (exists j m, 0 <= j /\ (m = 2 \/ m = 5 \/ m = 10) /\ y = x * 10 ^ j * m /\ y <= stop) <->
             (y = x * 2 /\ y <= stop) \/ (y = x * 5 /\ y <= stop) \/ (y = x * 10 /\ y <= stop) \/
             (exists j m, 0 <= j /\ (m = 2 \/ m = 5 \/ m = 10) /\ y = (x * 10) * 10 ^ j * m /\ y <= stop)).
    { intros y. split.
      - intros (j & m & Hj & Hm & -> & Hy). destruct (Z.eq_dec j 0) as [->|Hne].
        + cbn. destruct Hm as [ -> | [ -> | -> ] ]; [left|right; left|right; right; left]; lia.
        + right; right; right. exists (j - 1), m. split; [lia|]. split; [exact Hm|].
          replace (10 ^ j) with (10 ^ (j - 1) * 10) in *.
          2:{ replace j with ((j - 1) + 1) at 2 by lia. rewrite Z.pow_add_r by lia. cbn. lia. }
          split; lia.
      - intros [[-> Hy]|[[-> Hy]|[[-> Hy]|(j & m & Hj & Hm & -> & Hy)]]].
        + exists 0, 2. cbn. repeat split; auto; lia.
        + exists 0, 5. cbn. repeat split; auto; lia.
        + exists 0, 10. cbn. repeat split; auto; lia.
        + exists (j + 1), m. rewrite Z.pow_add_r by lia. cbn. repeat split; auto; try lia. }
    assert (Hrec : stop < x * 10 * 10 ^ Z.of_nat f).
    { rewrite Nat2Z.inj_succ, Z.pow_succ_r in Hf by lia. lia. }
    destruct (IH (x * 10) ltac:(lia) Hrec) as (A & B & D).
    assert (Hlow : forall y, (exists j m, 0 <= j /\ (m = 2 \/ m = 5 \/ m = 10) /\ y = x * 10 * 10 ^ j * m /\ y <= stop) -> x * 20 <= y /\ x * 10 <= stop).
    { intros y (j & m & Hj & Hm & -> & Hy). pose proof (pow10_pos j Hj). split; nia. }
    cbn [nice_upto].
    destruct (x * 2 <=? stop) eqn:E2.
    2:{ split; [|split; constructor]. intros y. rewrite Hsplit. split; [intros []|].
        intros [H|[H|[H|H]]]; try lia; apply Hlow in H; lia. }
    destruct (x * 5 <=? stop) eqn:E5.
    2:{ split; [|split].
        - intros y. rewrite Hsplit. cbn [In]. split; [intros [<-|[]]; left; lia|].
          intros [H|[H|[H|H]]]; try lia; apply Hlow in H; lia.
        - constructor; constructor.
        - constructor; [lia|constructor]. }
    destruct (x * 10 <=? stop) eqn:E10.
    2:{ split; [|split].
        - intros y. rewrite Hsplit. cbn [In]. split; [intros [<-|[<-|[]]]; [left|right; left]; lia|].
          intros [H|[H|[H|H]]]; try lia; apply Hlow in H; lia.
        - constructor; [constructor; constructor|]. constructor; [lia|constructor].
        - constructor; [lia|]. constructor; [lia|constructor]. }
    split; [|split].
    + intros y. rewrite Hsplit. cbn [In]. rewrite A. split.
      * intros [<-|[<-|[<-|H]]]; [left|right; left|right; right; left|right; right; right]; auto; lia.
      * intros [H|[H|[H|H]]]; [left|right; left|right; right; left|right; right; right]; auto; lia.
    + assert (D' : Forall (fun y => x * 10 < y) (nice_upto f (x * 10) stop)) by exact D.
      constructor; [constructor; [constructor; [exact B|exact D']|]|].
      * constructor; [lia|]. eapply Forall_impl; [|exact D']. intros; cbn in *; lia.
      * constructor; [lia|]. constructor; [lia|]. eapply Forall_impl; [|exact D']. intros; cbn in *; lia.
    + constructor; [lia|]. constructor; [lia|]. constructor; [lia|].
      eapply Forall_impl; [|exact D]. intros; cbn in *; lia.
Qed.

Theorem preferred_nice_spec start stop : 1 <= start ->
  (forall y, In y (preferred_sequence start stop false) <->
     exists j m, 0 <= j /\ (m = 1 \/ m = 2 \/ m = 5) /\ y = start * 10 ^ j * m /\ y <= stop) /\
  StronglySorted Z.lt (preferred_sequence start stop false).
Proof.
  intros Hs. unfold preferred_sequence. destruct (stop <? start) eqn:E.
  - split; [|constructor]. intros y. split; [intros []|]. intros (j & m & Hj & Hm & -> & Hy). pose proof (pow10_pos j Hj). nia.
  - destruct (nice_upto_spec stop (Z.to_nat (Z.log2_up (stop + 2)) + 1) start Hs) as (A & B & D).
    { pose proof (log2_fuel stop ltac:(lia)) as H.
      assert (Hle : forall n : nat, 2 ^ Z.of_nat n <= 10 ^ Z.of_nat n).
      { intros n. apply Z.pow_le_mono_l. lia. }
      specialize (Hle (Z.to_nat (Z.log2_up (stop + 2)))).
      rewrite Nat2Z.inj_add, Z.pow_add_r by lia. assert (1 <= 10 ^ Z.of_nat 1) by (cbn; lia). nia. }
    split.
    + intros y. cbn [In]. rewrite A. split.
      * intros [<-|(j & m & Hj & Hm & -> & Hy)].
        -- exists 0, 1. cbn. repeat split; auto; lia.
        -- destruct Hm as [ -> | [ -> | -> ] ].
           ++ exists j, 2. repeat split; auto; lia.
           ++ exists j, 5. repeat split; auto; lia.
           ++ exists (j + 1), 1. rewrite Z.pow_add_r by lia. cbn. repeat split; auto; lia.
      * intros (j & m & Hj & Hm & -> & Hy). destruct Hm as [ -> | [ -> | -> ] ].
        -- destruct (Z.eq_dec j 0) as [->|Hne]; [left; cbn; lia|right].
           exists (j - 1), 10. split; [lia|]. split; [auto|].
           replace (10 ^ j) with (10 ^ (j - 1) * 10) in *.
           2:{ replace j with ((j - 1) + 1) at 2 by lia. rewrite Z.pow_add_r by lia. cbn. lia. }
           split; lia.
        -- right. exists j, 2. repeat split; auto; lia.
        -- right. exists j, 5. repeat split; auto; lia.
    + constructor; [exact B|exact D].
Qed.

(** a strictly sorted list is determined by its members: with the two theorems above the progressions
    are pinned down completely *)
Lemma sorted_lt_ext l1 : forall l2, StronglySorted Z.lt l1 -> StronglySorted Z.lt l2 ->
  (forall y, In y l1 <-> In y l2) -> l1 = l2.
Proof.
  induction l1 as [|a l1 IH]; intros l2 S1 S2 H.
  - destruct l2 as [|b l2]; [reflexivity|]. exfalso. apply (H b). now left.
  - destruct l2 as [|b l2]; [exfalso; apply (H a); now left|].
    inversion S1 as [|? ? S1' A1]; inversion S2 as [|? ? S2' A2]; subst. rewrite Forall_forall in A1, A2.
    assert (a = b) as ->.
    { destruct (proj1 (H a) (or_introl eq_refl)) as [E|E]; [auto|].
      destruct (proj2 (H b) (or_introl eq_refl)) as [E'|E']; [auto|].
      specialize (A1 b E'). specialize (A2 a E). lia. }
    f_equal. apply IH; auto. intros y. split; intros Hy.
    + destruct (proj1 (H y) (or_intror Hy)) as [E|E]; [subst; specialize (A1 _ Hy); lia|exact E].
    + destruct (proj2 (H y) (or_intror Hy)) as [E|E]; [subst; specialize (A2 _ Hy); lia|exact E].
Qed.
