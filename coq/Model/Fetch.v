(** C04 (integration)  Cooler.matrix().fetch(region1, region2) and Cooler.pixels().fetch(region) on a stored
    collection: the extents of Model/Extent.v handed to the range-query engine of Model/Query.v
    (api.py: matrix()._fetch -> RangeSelector2D -> CSRReader / FillLowerRangeQuery2D).   No proofs here. *)
From Cooler Require Export Model.Extent Model.Query.

Definition region := (nat * option Z * option Z)%type.

(** matrix(...).fetch(r1, r2) = matrix(...)[i0:i1, j0:j1] with (i0,i1), (j0,j1) the two extents:
    the records the engine emits (as_pixels / sparse / dense forms; fill_lower = symmetric-upper storage) *)
Definition matrix_fetch_records (blocks : list (list bin)) (epx : list ipixel) (off : list Z) (chunksize : Z)
           (fill_lower : bool) (form : outform) (r1 r2 : region) : option (list ipixel) :=
  match matrix_fetch_box blocks r1 r2 with
  | None => None                                           (* parse_region raised *)
  | Some bb => matrix_records epx off chunksize fill_lower form bb
  end.

(** the dense array returned by matrix(balance=False).fetch(r1, r2) *)
Definition matrix_fetch_dense (blocks : list (list bin)) (epx : list ipixel) (off : list Z) (chunksize : Z)
           (fill_lower : bool) (r1 r2 : region) : option (list (list Z)) :=
  match matrix_fetch_box blocks r1 r2 with
  | None => None
  | Some bb => match matrix_records epx off chunksize fill_lower Dense bb with
               | None => None
               | Some out => Some (dense_of out bb)
               end
  end.

(** pixels().fetch(region) on the stored table: rows bin1_offset[lo] .. bin1_offset[hi] of the pixel table *)
Definition pixels_fetch_stored (blocks : list (list bin)) (px : list pixel) (off : list Z) (r : region)
  : option (list pixel) :=
  match extent blocks (fst (fst r)) (snd (fst r)) (snd r) with
  | None => None
  | Some (lo, hi) => Some (slice px (znth off lo 0) (znth off hi 0))
  end.

(** bin id k of the table is a bin of chromosome c overlapping [s, e) *)
Definition bin_overlaps (blocks : list (list bin)) (c : nat) (s e : Z) (k : Z) : bool :=
  match nth_error (table blocks) (Z.to_nat k) with
  | Some x => (0 <=? k) && overlaps_b c s e x
  | None => false
  end.
(** the ids of those bins, ascending *)
Definition overlap_ids (blocks : list (list bin)) (c : nat) (s e : Z) : list Z :=
  filter (bin_overlaps blocks c s e) (zrange 0 (length (table blocks))).
