(** Shared numeric/list helpers of the cooler model.  No proofs here. *)
From Coq Require Export ZArith List Bool Lia.
Export ListNotations.
Open Scope Z_scope.

(** [zrange lo n] = [lo; lo+1; ...; lo+n-1]  (numpy arange(lo, lo+n)) *)
Definition zrange (lo : Z) (n : nat) : list Z := map (fun k => lo + Z.of_nat k) (seq 0 n).

(** ceil(a / b) for b > 0 (numpy: int(np.ceil(a / b)); exact on |a| < 2^53) *)
Definition cdiv (a b : Z) : Z := (a + b - 1) / b.

(** replace the last element: numpy  x[-1] = v  (no-op on an empty array is an error in numpy; the model keeps []) *)
Definition set_last (l : list Z) (v : Z) : list Z :=
  match l with [] => [] | _ => removelast l ++ [v] end.

(** numpy.searchsorted on a non-decreasing list *)
Fixpoint searchsorted_left (l : list Z) (x : Z) : Z :=
  match l with
  | [] => 0
  | y :: r => if y <? x then 1 + searchsorted_left r x else 0
  end.
Fixpoint searchsorted_right (l : list Z) (x : Z) : Z :=
  match l with
  | [] => 0
  | y :: r => if y <=? x then 1 + searchsorted_right r x else 0
  end.

Definition zlen {A} (l : list A) : Z := Z.of_nat (length l).

(** l[lo:hi] with numpy/python semantics for 0 <= lo, hi (clamped, empty when hi <= lo) *)
Definition slice {A} (l : list A) (lo hi : Z) : list A :=
  firstn (Z.to_nat (hi - lo)) (skipn (Z.to_nat lo) l).

Definition znth (l : list Z) (i : Z) (d : Z) : Z := nth (Z.to_nat i) l d.

Definition sumZ (l : list Z) : Z := fold_right Z.add 0 l.

(** enumerate: [(0,x0); (1,x1); ...] *)
Definition enumerate {A} (l : list A) : list (Z * A) := combine (zrange 0 (length l)) l.

(** lexicographic order on bin-id pairs *)
Definition key := (Z * Z)%type.
Definition kltb (a b : key) : bool := (fst a <? fst b) || ((fst a =? fst b) && (snd a <? snd b)).
Definition keqb (a b : key) : bool := (fst a =? fst b) && (snd a =? snd b).
