(** Proofs about the balancing model (C10, C11). *)
From Cooler Require Import Model.Balance.
From Coq Require Import Permutation Setoid Morphisms Lia Lqa ZifyBool.
Open Scope Z_scope.

(** * 1. Spans cover the pixel table exactly once (C11) *)

Lemma firstn_firstn_skipn {A} : forall (p q : nat) (l : list A),
  firstn p l ++ firstn q (skipn p l) = firstn (p + q) l.
Proof.
  induction p as [|p IH]; intros q l; simpl; [reflexivity|].
  destruct l as [|x l]; simpl.
  - now rewrite firstn_nil.
  - now rewrite IH.
Qed.

Lemma skipn_skipn' {A} : forall (p q : nat) (l : list A), skipn q (skipn p l) = skipn (p + q) l.
Proof.
  induction p as [|p IH]; intros q l; simpl; [reflexivity|].
  destruct l as [|x l]; simpl; [now rewrite skipn_nil | apply IH].
Qed.

Lemma slice_app {A} : forall (l : list A) a m b,
  0 <= a -> a <= m -> m <= b -> slice l a m ++ slice l m b = slice l a b.
Proof.
  intros l a m b Ha Hm Hb. unfold slice.
  replace (Z.to_nat m) with (Z.to_nat a + Z.to_nat (m - a))%nat by lia.
  rewrite <- skipn_skipn'. rewrite firstn_firstn_skipn. f_equal. lia.
Qed.

Lemma slice_all {A} : forall (l : list A) b, zlen l <= b -> slice l 0 b = l.
Proof.
  intros l b Hb. unfold slice, zlen in *. simpl. apply firstn_all2. lia.
Qed.

Lemma slice_empty {A} : forall (l : list A) a, slice l a a = [].
Proof. intros. unfold slice. now rewrite Z.sub_diag. Qed.

(** consecutive spans from [a] to [b] *)
Inductive Chain : Z -> list (Z * Z) -> Z -> Prop :=
| Chain_nil : forall a, Chain a [] a
| Chain_cons : forall a m b r, a <= m -> Chain m r b -> Chain a ((a, m) :: r) b.

Lemma chain_le : forall a s b, Chain a s b -> a <= b.
Proof. induction 1; lia. Qed.

Lemma chain_concat {A} : forall (l : list A) a s b,
  Chain a s b -> 0 <= a -> concat (map (fun sp => slice l (fst sp) (snd sp)) s) = slice l a b.
Proof.
  intros l a s b H. induction H as [a|a m b r Ham Hc IH]; intros Ha; simpl.
  - now rewrite slice_empty.
  - rewrite IH by lia. apply slice_app; try lia. now apply chain_le in Hc.
Qed.

(** every index of [a, b) lies in exactly one span of a chain *)
Definition in_span (k : Z) (s : Z * Z) : bool := (fst s <=? k) && (k <? snd s).

Lemma chain_none_below : forall a s b k, Chain a s b -> k < a -> filter (in_span k) s = [].
Proof.
  intros a s b k H. induction H as [a|a m b r Ham Hc IH]; intros Hk; simpl; [reflexivity|].
  unfold in_span at 1. simpl. replace (a <=? k) with false by lia. simpl. apply IH. lia.
Qed.

Lemma chain_exactly_one : forall a s b k, Chain a s b -> a <= k < b ->
  exists sp, filter (in_span k) s = [sp].
Proof.
  intros a s b k H. induction H as [a|a m b r Ham Hc IH]; intros Hk; simpl; [lia|].
  unfold in_span at 1. simpl.
  destruct (Z.ltb_spec k m) as [Hlt|Hge].
  - replace (a <=? k) with true by lia. simpl. exists (a, m). f_equal.
    eapply chain_none_below; eauto.
  - replace ((a <=? k) && false) with false by (now rewrite andb_false_r). apply IH. lia.
Qed.

(** closed form of the two span generators *)
Lemma pairs_cons2 {A} : forall (x y : A) l,
  combine (removelast (x :: y :: l)) (tl (x :: y :: l)) = (x, y) :: combine (removelast (y :: l)) (tl (y :: l)).
Proof. intros. reflexivity. Qed.

Lemma combine_removelast_tl {A} : forall (f : nat -> A) m s,
  combine (removelast (map f (seq s (S m)))) (tl (map f (seq s (S m)))) =
  map (fun k => (f k, f (S k))) (seq s m).
Proof.
  intros f m. induction m as [|m IH]; intros s; [reflexivity|].
  change (seq s (S (S m))) with (s :: S s :: seq (S (S s)) m).
  rewrite !map_cons. rewrite pairs_cons2.
  change (f (S s) :: map f (seq (S (S s)) m)) with (map f (seq (S s) (S m))).
  rewrite IH. reflexivity.
Qed.

Lemma cdiv_shift : forall n c, 1 <= c -> cdiv (n + c - 0) c = cdiv n c + 1.
Proof.
  intros n c Hc. unfold cdiv. replace (n + c - 0 + c - 1) with ((n + c - 1) + 1 * c) by lia.
  rewrite Z.div_add by lia. lia.
Qed.

Lemma cdiv_nonneg : forall n c, 0 <= n -> 1 <= c -> 0 <= cdiv n c.
Proof. intros. unfold cdiv. apply Z.div_pos; lia. Qed.

Lemma cdiv_ge : forall n c, 1 <= c -> n <= cdiv n c * c.
Proof.
  intros n c Hc. unfold cdiv.
  pose proof (Z.div_mod (n + c - 1) c ltac:(lia)).
  pose proof (Z.mod_pos_bound (n + c - 1) c ltac:(lia)). nia.
Qed.

Lemma cdiv_lt : forall n c, 1 <= c -> 0 < n -> (cdiv n c - 1) * c < n.
Proof.
  intros n c Hc Hn. unfold cdiv.
  pose proof (Z.div_mod (n + c - 1) c ltac:(lia)).
  pose proof (Z.mod_pos_bound (n + c - 1) c ltac:(lia)). nia.
Qed.

Lemma balance_spans_closed : forall nnz c, 0 <= nnz -> 1 <= c ->
  balance_spans nnz (Some c) =
  map (fun k => (0 + Z.of_nat k * c, 0 + Z.of_nat (S k) * c)) (seq 0 (Z.to_nat (cdiv nnz c))).
Proof.
  intros nnz c Hn Hc. unfold balance_spans, arange.
  rewrite cdiv_shift by lia.
  pose proof (cdiv_nonneg nnz c Hn Hc).
  replace (Z.to_nat (cdiv nnz c + 1)) with (S (Z.to_nat (cdiv nnz c))) by lia.
  apply (combine_removelast_tl (fun k => 0 + Z.of_nat k * c)).
Qed.

Lemma chain_uniform : forall c a m s,
  1 <= c ->
  Chain (a + Z.of_nat s * c)
        (map (fun k => (a + Z.of_nat k * c, a + Z.of_nat (S k) * c)) (seq s m))
        (a + Z.of_nat (s + m) * c).
Proof.
  intros c a m. induction m as [|m IH]; intros s Hc; cbn [seq map].
  - rewrite Nat.add_0_r. constructor.
  - constructor; [lia|]. replace (s + S m)%nat with (S s + m)%nat by lia. now apply IH.
Qed.

Lemma balance_spans_chain : forall nnz c, 0 <= nnz -> 1 <= c ->
  Chain 0 (balance_spans nnz (Some c)) (cdiv nnz c * c).
Proof.
  intros nnz c Hn Hc. rewrite balance_spans_closed by lia.
  pose proof (cdiv_nonneg nnz c Hn Hc).
  pose proof (chain_uniform c 0 (Z.to_nat (cdiv nnz c)) 0 Hc) as H1.
  simpl (0 + Z.of_nat 0 * c) in H1. rewrite Nat.add_0_l in H1.
  replace (0 + Z.of_nat (Z.to_nat (cdiv nnz c)) * c) with (cdiv nnz c * c) in H1 by lia.
  exact H1.
Qed.

Theorem spans_exact_cover : forall (px : list pixel) c, 1 <= c ->
  concat (map (get_chunk px) (balance_spans (zlen px) (Some c))) = px.
Proof.
  intros px c Hc. unfold get_chunk.
  assert (Hn : 0 <= zlen px) by (unfold zlen; lia).
  rewrite (chain_concat px 0 _ _ (balance_spans_chain _ _ Hn Hc)) by lia.
  apply slice_all. now apply cdiv_ge.
Qed.

Theorem spans_none_cover : forall (px : list pixel),
  concat (map (get_chunk px) (balance_spans (zlen px) None)) = px.
Proof.
  intros px. simpl. rewrite app_nil_r. unfold get_chunk. simpl. apply slice_all. lia.
Qed.

(** every pixel index lies in exactly one span; spans are consecutive from 0 and reach nnz *)
Theorem spans_index_once : forall nnz c k, 1 <= c -> 0 <= k < nnz ->
  exists sp, filter (in_span k) (balance_spans nnz (Some c)) = [sp].
Proof.
  intros nnz c k Hc Hk.
  apply (chain_exactly_one 0 _ (cdiv nnz c * c)); [apply balance_spans_chain; lia|].
  pose proof (cdiv_ge nnz c Hc). lia.
Qed.

(** util.partition: consecutive, clipped at [stop] *)
Lemma partition_chain_aux : forall c a stop m s,
  1 <= c -> a + Z.of_nat (s + m) * c <= stop ->
  Chain (a + Z.of_nat s * c)
        (map (fun i => (i, Z.min (i + c) stop)) (map (fun k => a + Z.of_nat k * c) (seq s m)))
        (a + Z.of_nat (s + m) * c).
Proof.
  intros c a stop m. induction m as [|m IH]; intros s Hc Hs; cbn [seq map].
  - rewrite Nat.add_0_r. constructor.
  - replace (Z.min (a + Z.of_nat s * c + c) stop) with (a + Z.of_nat (S s) * c) by lia.
    constructor; [lia|]. replace (s + S m)%nat with (S s + m)%nat in * by lia. now apply IH.
Qed.

Lemma seq_snoc : forall s m, seq s (S m) = seq s m ++ [(s + m)%nat].
Proof. intros. rewrite seq_S. reflexivity. Qed.

Lemma chain_app : forall a s1 m s2 b, Chain a s1 m -> Chain m s2 b -> Chain a (s1 ++ s2) b.
Proof. intros a s1 m s2 b H. induction H; intros; simpl; [assumption|constructor; auto]. Qed.

Lemma partition_chain : forall start stop c, 1 <= c -> start <= stop ->
  Chain start (partition start stop c) stop.
Proof.
  intros start stop c Hc Hle. unfold partition, arange.
  destruct (Z.eq_dec start stop) as [->|Hne].
  - unfold cdiv. replace (stop - stop + c - 1) with (c - 1) by lia.
    rewrite Z.div_small by lia. simpl. constructor.
  - set (K := cdiv (stop - start) c).
    assert (HK : 1 <= K).
    { pose proof (cdiv_ge (stop - start) c Hc). fold K in H. nia. }
    assert (Hlt : (K - 1) * c < stop - start) by (apply cdiv_lt; lia).
    assert (Hge : stop - start <= K * c) by (apply cdiv_ge; lia).
    replace (Z.to_nat K) with (S (Z.to_nat (K - 1))) by lia.
    rewrite seq_snoc, !map_app. simpl.
    eapply chain_app.
    + pose proof (partition_chain_aux c start stop (Z.to_nat (K - 1)) 0 Hc) as H1.
      simpl (start + Z.of_nat 0 * c) in H1. rewrite Z.add_0_r in H1. apply H1. lia.
    + rewrite Nat.add_0_l.
      rewrite Z2Nat.id by lia.
      replace (Z.min (start + (K - 1) * c + c) stop) with stop by nia.
      constructor; [lia|constructor].
Qed.

Theorem partition_exact_cover : forall (px : list pixel) plo phi c,
  1 <= c -> 0 <= plo <= phi ->
  concat (map (get_chunk px) (partition plo phi c)) = slice px plo phi.
Proof.
  intros px plo phi c Hc H. unfold get_chunk.
  apply chain_concat; [apply partition_chain; lia | lia].
Qed.

Theorem partition_index_once : forall plo phi c k, 1 <= c -> plo <= k < phi ->
  exists sp, filter (in_span k) (partition plo phi c) = [sp].
Proof.
  intros plo phi c k Hc Hk. apply (chain_exactly_one plo _ phi); [apply partition_chain; lia | lia].
Qed.

(** * 2. Folding per-chunk results in any order: the commutative-monoid argument (C11) *)
Section Monoid.
  Context {A : Type} (eqA : relation A) {Heq : Equivalence eqA}.
  Context (op : A -> A -> A) {Hop : Proper (eqA ==> eqA ==> eqA) op} (e : A).
  Hypothesis op_assoc : forall x y z, eqA (op x (op y z)) (op (op x y) z).
  Hypothesis op_comm : forall x y, eqA (op x y) (op y x).
  Hypothesis op_unit : forall x, eqA (op e x) x.

  Definition msum (l : list A) : A := fold_right op e l.

  Lemma msum_app : forall l1 l2, eqA (msum (l1 ++ l2)) (op (msum l1) (msum l2)).
  Proof.
    induction l1 as [|x l1 IH]; intros l2; simpl.
    - symmetry. apply op_unit.
    - rewrite IH. apply op_assoc.
  Qed.

  Lemma msum_perm : forall l l', Permutation l l' -> eqA (msum l) (msum l').
  Proof.
    induction 1; simpl.
    - reflexivity.
    - now rewrite IHPermutation.
    - rewrite !op_assoc. now rewrite (op_comm y x).
    - etransitivity; eauto.
  Qed.

  Lemma fold_left_msum : forall l a, eqA (fold_left op l a) (op a (msum l)).
  Proof.
    induction l as [|x l IH]; intros a; simpl.
    - rewrite op_comm. symmetry. apply op_unit.
    - rewrite IH. symmetry. apply op_assoc.
  Qed.

  Lemma msum_concat : forall ls, eqA (msum (map msum ls)) (msum (concat ls)).
  Proof.
    induction ls as [|l ls IH]; simpl; [reflexivity|].
    rewrite msum_app. now rewrite IH.
  Qed.

  Lemma msum_Forall2 : forall l l', Forall2 eqA l l' -> eqA (msum l) (msum l').
  Proof. induction 1; simpl; [reflexivity|]. now apply Hop. Qed.

  (** results of the chunks, delivered in ANY order (and each only up to [eqA]), folded from [init]:
      the monoid sum over all items of all chunks *)
  Theorem reduce_perm_invariant : forall (P : Type) (f : P -> A) (chunks : list (list P)) (rs rs' : list A) (init : A),
    Permutation rs rs' ->
    Forall2 eqA rs' (map (fun c => msum (map f c)) chunks) ->
    eqA (fold_left op rs init) (op init (msum (map f (concat chunks)))).
  Proof.
    intros P f chunks rs rs' init Hp Hf.
    rewrite fold_left_msum. rewrite (msum_perm _ _ Hp). rewrite (msum_Forall2 _ _ Hf).
    rewrite concat_map, <- msum_concat, map_map. reflexivity.
  Qed.

  (** hence two runs with different chunkings of the same items and different completion orders agree *)
  Corollary reduce_chunking_invariant : forall (P : Type) (f : P -> A) (ch1 ch2 : list (list P)) rs1 rs2 init,
    Permutation (concat ch1) (concat ch2) ->
    Permutation rs1 (map (fun c => msum (map f c)) ch1) ->
    Permutation rs2 (map (fun c => msum (map f c)) ch2) ->
    eqA (fold_left op rs1 init) (fold_left op rs2 init).
  Proof.
    intros P f ch1 ch2 rs1 rs2 init Hc H1 H2.
    assert (R : forall l : list A, Forall2 eqA l l) by (induction l; constructor; auto; reflexivity).
    rewrite (reduce_perm_invariant P f ch1 rs1 _ init H1 (R _)),
            (reduce_perm_invariant P f ch2 rs2 _ init H2 (R _)).
    apply Hop; [reflexivity|]. apply msum_perm. now apply Permutation_map.
  Qed.
End Monoid.

(** * 3. The balancing pipeline is such a fold: marginals are functions of the data alone (C11) *)
Local Open Scope Q_scope.

Definition pipe1 (fs : list (wpx -> wpx)) (w : wpx) : wpx := fold_left (fun x f => f x) fs w.
Definition init1 (p : pixel) : wpx := (fst p, inject_Z (snd p)).

Lemma pipe_map : forall fs l, pipe fs l = map (pipe1 fs) l.
Proof.
  induction fs as [|f fs IH]; intros l; simpl.
  - unfold pipe. simpl. now rewrite map_id.
  - unfold pipe in *. simpl. rewrite IH, map_map. reflexivity.
Qed.

Lemma init_map : forall l, init l = map init1 l.
Proof. reflexivity. Qed.

Lemma marg_at_sum : forall i l, marg_at i l == sumQ (map (contrib i) l).
Proof. intros. unfold marg_at. apply Qred_correct. Qed.

Lemma length_marginalize : forall n l, length (marginalize n l) = n.
Proof. intros. unfold marginalize, zrange. now rewrite !map_length, seq_length. Qed.

Lemma nth_zrange_map {B} : forall (g : Z -> B) (n : nat) (k : nat) (d : B),
  (k < n)%nat -> nth k (map g (zrange 0 n)) d = g (Z.of_nat k).
Proof.
  intros g n k d Hk. unfold zrange. rewrite map_map.
  rewrite (nth_indep _ d (g (0 + Z.of_nat 0)%Z)) by (now rewrite map_length, seq_length).
  rewrite (map_nth (fun x => g (0 + Z.of_nat x)%Z)). rewrite seq_nth by lia. f_equal.
Qed.

Lemma qnth_marginalize : forall n l i, (0 <= i < Z.of_nat n)%Z -> qnth (marginalize n l) i = marg_at i l.
Proof.
  intros n l i Hi. unfold qnth, marginalize.
  rewrite nth_zrange_map by lia. f_equal. lia.
Qed.

Lemma length_vadd : forall a b, length a = length b -> length (vadd a b) = length a.
Proof. intros. unfold vadd. rewrite map_length, combine_length. lia. Qed.

Lemma nth_vadd : forall a b k, length a = length b ->
  nth k (vadd a b) 0 == nth k a 0 + nth k b 0.
Proof.
  induction a as [|x a IH]; intros b k Hl; destruct b as [|y b]; simpl in Hl; try discriminate.
  - destruct k; simpl; ring.
  - change (vadd (x :: a) (y :: b)) with (Qred (x + y) :: vadd a b).
    destruct k; cbn [nth].
    + apply Qred_correct.
    + apply IH. congruence.
Qed.

Lemma qnth_reduce : forall n rs init i,
  Forall (fun r => length r = n) rs -> length init = n ->
  qnth (fold_left vadd rs init) i == fold_left Qplus (map (fun r => qnth r i) rs) (qnth init i).
Proof.
  intros n rs. induction rs as [|r rs IH]; intros init i Hf Hl; simpl; [reflexivity|].
  inversion Hf as [|? ? Hr Hrs]; subst.
  rewrite IH; [| assumption | rewrite length_vadd; congruence].
  assert (E : qnth (vadd init r) i == qnth init i + qnth r i) by (apply nth_vadd; congruence).
  generalize (map (fun r0 => qnth r0 i) rs). intros l.
  revert E. generalize (qnth (vadd init r) i) (qnth init i + qnth r i).
  induction l as [|z l IHl]; intros u v E; simpl; [exact E|]. apply IHl. now rewrite E.
Qed.

Lemma qnth_zeros : forall n i, qnth (zeros n) i = 0.
Proof.
  intros n i. unfold qnth, zeros. generalize (Z.to_nat i) as k. induction n as [|n IH]; intros [|k]; simpl; auto.
Qed.

Global Instance Qplus_proper : Proper (Qeq ==> Qeq ==> Qeq) Qplus.
Proof. intros a b H c d H'. now rewrite H, H'. Qed.

(** the per-pixel contribution to marginal [i] after the filters [fs] *)
Definition pcontrib (i : Z) (fs : list (wpx -> wpx)) (p : pixel) : Q := contrib i (pipe1 fs (init1 p)).

Lemma chunk_result_at : forall n fs i (chunk : list pixel), (0 <= i < Z.of_nat n)%Z ->
  qnth (marginalize n (pipe fs (init chunk))) i == sumQ (map (pcontrib i fs) chunk).
Proof.
  intros. rewrite qnth_marginalize by assumption. rewrite marg_at_sum.
  rewrite pipe_map, init_map, !map_map. reflexivity.
Qed.

(** For ANY list of spans that covers the pixel table and ANY order in which the map functor hands back the
    per-chunk results, the reduced marginal of bin i is the sum over all pixels of their contribution:
    the right-hand side mentions neither the spans nor the order. *)
Theorem marg_schedule_invariant : forall n spans fs (px : list pixel) rs i,
  concat (map (get_chunk px) spans) = px ->
  Permutation rs (marg_chunks n spans fs px) ->
  (0 <= i < Z.of_nat n)%Z ->
  qnth (reduce_add n rs) i == sumQ (map (pcontrib i fs) px).
Proof.
  intros n spans fs px rs i Hcov Hperm Hi. unfold reduce_add.
  assert (Hlen : Forall (fun r => length r = n) rs).
  { rewrite Forall_forall. intros r Hr.
    apply (Permutation_in _ Hperm) in Hr. unfold marg_chunks in Hr.
    rewrite in_map_iff in Hr. destruct Hr as [sp [<- _]]. apply length_marginalize. }
  rewrite (qnth_reduce n) by (auto; unfold zeros; now rewrite repeat_length).
  rewrite qnth_zeros.
  pose proof (reduce_perm_invariant Qeq Qplus 0 Qplus_assoc Qplus_comm Qplus_0_l
               pixel (pcontrib i fs) (map (get_chunk px) spans)
               (map (fun r => qnth r i) rs) (map (fun r => qnth r i) (marg_chunks n spans fs px)) 0) as H.
  rewrite H.
  - rewrite Hcov. unfold msum. fold (sumQ (map (pcontrib i fs) px)). ring.
  - now apply Permutation_map.
  - unfold marg_chunks. rewrite !map_map.
    clear - Hi. induction spans as [|sp spans IH]; simpl; constructor; [|exact IH].
    now apply chunk_result_at.
Qed.

(** two complete runs (any chunk sizes, any completion orders) give the same marginal for every bin *)
Corollary marg_data_only : forall n fs (px : list pixel) c1 c2 rs1 rs2 i,
  (1 <= c1)%Z -> (1 <= c2)%Z ->
  Permutation rs1 (marg_chunks n (balance_spans (zlen px) (Some c1)) fs px) ->
  Permutation rs2 (marg_chunks n (balance_spans (zlen px) (Some c2)) fs px) ->
  (0 <= i < Z.of_nat n)%Z ->
  qnth (reduce_add n rs1) i == qnth (reduce_add n rs2) i.
Proof.
  intros n fs px c1 c2 rs1 rs2 i H1 H2 P1 P2 Hi.
  rewrite (marg_schedule_invariant n _ fs px rs1 i (spans_exact_cover px c1 H1) P1 Hi).
  rewrite (marg_schedule_invariant n _ fs px rs2 i (spans_exact_cover px c2 H2) P2 Hi).
  reflexivity.
Qed.

(** the sequential run of the model ([marg_of]) is one such run *)
Corollary marg_of_spec : forall n fs (px : list pixel) chunk i,
  (match chunk with Some c => 1 <= c | None => True end)%Z ->
  (0 <= i < Z.of_nat n)%Z ->
  qnth (marg_of n (balance_spans (zlen px) chunk) fs px) i == sumQ (map (pcontrib i fs) px).
Proof.
  intros n fs px chunk i Hc Hi. unfold marg_of.
  apply (marg_schedule_invariant n (balance_spans (zlen px) chunk) fs px); auto.
  destruct chunk as [c|]; [now apply spans_exact_cover | apply spans_none_cover].
Qed.
