(** Balanced reads: the balance branches of cooler.api.matrix (api.py:744-800) and Cooler.matrix's divisive default
    (api.py:28-29,367-368).  Weights are exact rationals; [None] = NaN (absorbing).  No proofs here. *)
From Cooler Require Export Model.Query.
From Coq Require Export QArith String.
Open Scope Z_scope.

Definition weight := option Q.
Definition wmul (a b : weight) : weight :=
  match a, b with Some x, Some y => Some (Qmult x y) | _, _ => None end.
(** 1 / w  (a zero weight would give inf in numpy: outside the claimed domain, modelled as None) *)
Definition winv (a : weight) : weight :=
  match a with Some x => if Qeq_bool x 0 then None else Some (Qinv x) | None => None end.
Definition wofZ (v : Z) : weight := Some (inject_Z v).

(** bias = weights[lo:hi], reciprocal if divisive *)
Definition bias (w : list weight) (lo hi : Z) (divisive : bool) : list weight :=
  map (fun x => if divisive then winv x else x) (slice w lo hi).
Definition bbox_rows_eq_cols (bb : bbox) : bool := let '(i0, i1, j0, j1) := bb in (i0 =? j0) && (i1 =? j1).
Definition bias2_of (w : list weight) (bb : bbox) (divisive : bool) : list weight :=
  let '(i0, i1, j0, j1) := bb in
  if bbox_rows_eq_cols bb then bias w i0 i1 divisive      (* bias2 = bias1 if (i0, i1) == (j0, j1) *)
  else bias w j0 j1 divisive.
Definition wnth (l : list weight) (k : Z) : weight := nth (Z.to_nat k) l None.

(** dense: arr * np.outer(bias1, bias2) *)
Definition balanced_dense (d : list (list Z)) (w : list weight) (bb : bbox) (divisive : bool) : list (list weight) :=
  let '(i0, i1, j0, j1) := bb in
  let b1 := bias w i0 i1 divisive in
  let b2 := bias2_of w bb divisive in
  map (fun rx => map (fun vy => wmul (wmul (snd rx) (snd vy)) (wofZ (fst vy))) (combine (fst rx) b2)) (combine d b1).

(** sparse: bias1[mat.row] * bias2[mat.col] * mat.data on the emitted records (row/col relative to the window) *)
Definition balanced_sparse (out : list ipixel) (w : list weight) (bb : bbox) (divisive : bool) : list (key * weight) :=
  let '(i0, i1, j0, j1) := bb in
  let b1 := bias w i0 i1 divisive in
  let b2 := bias2_of w bb divisive in
  map (fun r => let p := snd r in
                (fst p, wmul (wmul (wnth b1 (row p - i0)) (wnth b2 (col p - j0))) (wofZ (val p)))) out.

(** pixels: annotate(df, weights) then  w[bin1] * w[bin2] * count  (whole weight column, by bin id) *)
Definition balanced_pixels (out : list ipixel) (w : list weight) (divisive : bool) : list (ipixel * weight) :=
  map (fun r => let p := snd r in
                let w1 := wnth w (row p) in let w2 := wnth w (col p) in
                let w1 := if divisive then winv w1 else w1 in let w2 := if divisive then winv w2 else w2 in
                (r, wmul (wmul w1 w2) (wofZ (val p)))) out.

(** Cooler.matrix: which weight column, and whether it is divisive.
    balance : None = False, Some None = True (column "weight"), Some (Some name) = that column.
    divisive_weights : None = not given *)
Definition divisive_names : list string := ["KR"; "VC"; "VC_SQRT"]%string.
Definition weight_name (balance : option (option string)) : option string :=
  match balance with None => None | Some None => Some "weight"%string | Some (Some s) => Some s end.
Definition effective_divisive (balance : option (option string)) (divisive_weights : option bool) : bool :=
  match divisive_weights with
  | Some b => b
  | None => match balance with
            | Some (Some s) => existsb (String.eqb s) divisive_names
            | _ => false
            end
  end.
(** result of the column lookup: an absent column is an error, never an unbalanced result *)
Definition lookup_weights (cols : list (string * list weight)) (name : string) : option (list weight) :=
  match find (fun c => String.eqb (fst c) name) cols with Some c => Some (snd c) | None => None end.

(** whole query, for the correspondence run: None = ValueError *)
Inductive bal_result :=
| BRaw (recs : list ipixel)
| BDense (d : list (list weight))
| BSparse (s : list (key * weight))
| BPixels (p : list (ipixel * weight)).
Definition matrix_balanced (epx : list ipixel) (off : list Z) (cs : Z) (fill : bool) (form : outform)
           (cols : list (string * list weight)) (balance : option (option string)) (divisive_weights : option bool)
           (bb : bbox) : option bal_result :=
  match matrix_records epx off cs fill form bb with
  | None => None
  | Some out =>
    match weight_name balance with
    | None => Some (BRaw out)
    | Some name =>
      match lookup_weights cols name with
      | None => None
      | Some w =>
        let dv := effective_divisive balance divisive_weights in
        Some (match form with
              | Dense => BDense (balanced_dense (dense_of out bb) w bb dv)
              | Sparse => BSparse (balanced_sparse out w bb dv)
              | AsPixels => BPixels (balanced_pixels out w dv)
              end)
      end
    end
  end.

(** ---- checksums for the correspondence run: (number of NaN cells, sum of coefficient x value) *)
Definition wsum (l : list (Z * weight)) : Z * Q :=
  fold_left (fun acc cw => match snd cw with
                           | None => (fst acc + 1, snd acc)
                           | Some x => (fst acc, Qred (snd acc + inject_Z (fst cw) * x))
                           end) l (0, 0%Q).
Definition bal_cksum (r : option bal_result) : Z * Z * Q :=      (* (tag, NaNs, sum): tag -1 error, 0 raw, 1 dense, 2 sparse, 3 pixels *)
  match r with
  | None => (-1, 0, 0%Q)
  | Some (BRaw out) => (0, zlen out, inject_Z (cksum_set out))
  | Some (BDense d) =>
      let cells := flat_map (fun ir => map (fun jc => (1 + 31 * fst ir + 1009 * fst jc, snd jc)) (enumerate (snd ir))) (enumerate d) in
      let s := wsum cells in (1, fst s, snd s)
  | Some (BSparse l) => let s := wsum (map (fun e => (1 + 7 * fst (fst e) + 131 * snd (fst e), snd e)) l) in (2, fst s + 1000 * zlen l, snd s)
  | Some (BPixels l) =>
      let s := wsum (map (fun ke => ((fst ke + 1) * (1 + 7 * row (snd (fst (snd ke))) + 131 * col (snd (fst (snd ke)))), snd (snd ke))) (enumerate l)) in
      (3, fst s + 1000 * zlen l, snd s)
  end.
(** the sum is printed as numerator/denominator (Coq would print a dyadic Q in hexadecimal) *)
Definition all_window_bal_cksums (n : Z) (px : list pixel) (off : list Z) (cs : Z) (fill : bool) (form : outform)
           (cols : list (string * list weight)) (balance : option (option string)) (dw : option bool) : list (Z * Z * Z * Z) :=
  map (fun bb => let c := bal_cksum (matrix_balanced (epx_of px) off cs fill form cols balance dw bb) in
                 (fst (fst c), snd (fst c), Qnum (Qred (snd c)), Z.pos (Qden (Qred (snd c))))) (all_windows n).
