(** Proofs about Model/Create.v (C01, C13). *)
From Cooler Require Import Model.Create Proofs.PixelsProofs Proofs.BinsProofs.
From Coq Require Import Permutation Sorting.Sorted ZifyBool FinFun.
Open Scope Z_scope.

Section Write.
Context {V : Type}.
Notation rowT := (key * V)%type.
Variable dflt : rowT.
Variable fits : rowT -> bool.
Variable count : option (rowT -> Z).

Lemma chunk_total_app (a b : list rowT) :
  chunk_total count (a ++ b) = chunk_total count a + chunk_total count b.
Proof.
  unfold chunk_total. destruct count as [f|]; [|lia].
  rewrite map_app. unfold sumZ. induction (map f a); simpl; lia.
Qed.

Lemma chunk_total_nil : chunk_total count ([] : list rowT) = 0.
Proof. unfold chunk_total. destruct count; reflexivity. Qed.

Lemma zlen_app {A} (a b : list A) : zlen (a ++ b) = zlen a + zlen b.
Proof. unfold zlen. rewrite app_length. lia. Qed.

(** invariant of the loop: the first nnz stored rows are exactly what was consumed so far *)
Definition WInv (st : @wstate V) (acc : list rowT) : Prop :=
  let '(stored, nnz, total) := st in
  nnz = zlen acc /\ firstn (length acc) stored = acc /\ total = chunk_total count acc.

Lemma resize_length (l : list rowT) m : 0 <= m -> length (resize dflt l m) = Z.to_nat m.
Proof.
  intros Hm. unfold resize. rewrite app_length, firstn_length, repeat_length. lia.
Qed.

Lemma write_chunk_step maxsize stored nnz total acc c st' :
  WInv (stored, nnz, total) acc ->
  write_chunk dflt fits count maxsize (stored, nnz, total) c = inr st' ->
  st' = (acc ++ c, zlen (acc ++ c), chunk_total count (acc ++ c)) /\
  forallb fits c = true /\ zlen (acc ++ c) <= maxsize.
Proof.
  intros (Hn & Hf & Ht) H. unfold write_chunk in H.
  destruct (maxsize <? nnz + zlen c) eqn:Hm; [discriminate|].
  destruct (forallb fits c) eqn:Hfit; simpl in H; [|discriminate].
  inversion H; subst st'; clear H.
  rewrite zlen_app, chunk_total_app. subst nnz total.
  split; [|split; [reflexivity|lia]].
  assert (Hassign : assign_at (resize dflt stored (zlen acc + zlen c)) (zlen acc) c = acc ++ c).
  { unfold assign_at, resize, zlen.
    assert (Hlen : (length acc <= length stored)%nat).
    { rewrite <- Hf at 1. rewrite firstn_length. lia. }
    rewrite Nat2Z.id.
    replace (Z.to_nat (Z.of_nat (length acc) + Z.of_nat (length c))) with (length acc + length c)%nat by lia.
    rewrite firstn_app.
    rewrite firstn_firstn. replace (Nat.min (length acc) (length acc + length c)) with (length acc) by lia.
    rewrite Hf.
    rewrite firstn_length.
    replace (length acc - Nat.min (length acc + length c) (length stored))%nat with 0%nat by lia.
    simpl. rewrite app_nil_r.
    rewrite skipn_all2; [now rewrite app_nil_r|].
    rewrite app_length, firstn_length, repeat_length. lia. }
  now rewrite Hassign.
Qed.

Lemma write_pixels_inv validate maxsize : forall chunks st acc r,
  WInv st acc ->
  write_pixels dflt fits count validate maxsize st chunks = inr r ->
  exists vch, Forall2 (fun c c' => validate c = inr c') chunks vch /\
              WInv r (acc ++ concat vch) /\
              Forall (fun c' => forallb fits c' = true) vch /\
              (chunks <> [] -> fst (fst r) = acc ++ concat vch /\ zlen (acc ++ concat vch) <= maxsize).
Proof.
  induction chunks as [|c t IH]; intros st acc r Hinv H; simpl in H.
  - inversion H; subst r. exists []. simpl. rewrite app_nil_r. repeat split; auto; congruence.
  - destruct (validate c) as [e|c'] eqn:Hv; [discriminate|].
    destruct st as [[stored nnz] total].
    destruct (write_chunk dflt fits count maxsize (stored, nnz, total) c') as [e|st'] eqn:Hw; [discriminate|].
    destruct (write_chunk_step _ _ _ _ _ _ _ Hinv Hw) as (Hst & Hfit & Hmax). subst st'.
    assert (Hinv' : WInv (acc ++ c', zlen (acc ++ c'), chunk_total count (acc ++ c')) (acc ++ c')).
    { unfold WInv. repeat split. now rewrite firstn_all. }
    destruct (IH _ _ _ Hinv' H) as (vch & HF & Hr & Hfits & Hne).
    exists (c' :: vch). simpl. rewrite app_assoc.
    split; [constructor; auto|]. split; [exact Hr|]. split; [constructor; auto|].
    intros _. destruct t as [|c2 t'].
    + simpl in H. inversion H; subst r. inversion HF; subst. simpl. rewrite !app_nil_r. split; [reflexivity|exact Hmax].
    + apply Hne. congruence.
Qed.
End Write.

(** * validate_pixels *)
Section Validate.
Context {V : Type}.
Notation rowT := (key * V)%type.

Definition bad_id (n : Z) (r : rowT) : Prop :=
  fst (fst r) < 0 \/ snd (fst r) < 0 \/ n <= fst (fst r) \/ n <= snd (fst r).

Lemma has_neg_false (c : list rowT) :
  has_neg c = false <-> Forall (fun r => 0 <= fst (fst r) /\ 0 <= snd (fst r)) c.
Proof.
  unfold has_neg. induction c as [|r t IH]; simpl.
  - split; auto.
  - rewrite orb_false_iff, IH. split.
    + intros [H1 H2]. constructor; auto. lia.
    + intros H. inversion H; subst. split; auto. lia.
Qed.

Lemma has_excess_false n (c : list rowT) :
  has_excess n c = false <-> Forall (fun r => fst (fst r) < n /\ snd (fst r) < n) c.
Proof.
  unfold has_excess. induction c as [|r t IH]; simpl.
  - split; auto.
  - rewrite orb_false_iff, IH. split.
    + intros [H1 H2]. constructor; auto. lia.
    + intros H. inversion H; subst. split; auto. lia.
Qed.

Lemma has_tril_false (c : list rowT) :
  has_tril c = false <-> Forall (fun r => fst (fst r) <= snd (fst r)) c.
Proof.
  unfold has_tril. induction c as [|r t IH]; simpl.
  - split; auto.
  - rewrite orb_false_iff, IH. split.
    + intros [H1 H2]. constructor; auto. lia.
    + intros H. inversion H; subst. split; auto. lia.
Qed.

Lemma keqb_eq (a b : key) : keqb a b = true <-> a = b.
Proof. unfold keqb. destruct a, b; simpl. split; [intros H; f_equal; lia | intros H; inversion H; lia]. Qed.

Lemma existsb_keqb_false (k : key) (t : list rowT) :
  existsb (fun q => keqb k (fst q)) t = false <-> ~ In k (map fst t).
Proof.
  induction t as [|q t IH]; simpl.
  - tauto.
  - rewrite orb_false_iff, IH. split.
    + intros [H1 H2] [H|H]; [|tauto]. subst k. rewrite (proj2 (keqb_eq _ _) eq_refl) in H1. discriminate.
    + intros H. split; [|tauto]. destruct (keqb k (fst q)) eqn:E; [|reflexivity].
      apply keqb_eq in E. subst. tauto.
Qed.

Lemma has_dup_false (c : list rowT) : has_dup c = false <-> NoDup (map fst c).
Proof.
  induction c as [|r t IH]; simpl.
  - split; [constructor|reflexivity].
  - rewrite orb_false_iff, IH, existsb_keqb_false. split.
    + intros [H1 H2]. now constructor.
    + intros H. inversion H; subst. tauto.
Qed.

Lemma validate_ok_shape n bc tc dc es (c c' : list rowT) :
  validate_pixels n bc tc dc es c = inr c' -> c' = if es then sort_rows c else c.
Proof.
  unfold validate_pixels. intros H.
  repeat match type of H with (if ?b then _ else _) = _ => destruct b; [discriminate|] end.
  now inversion H.
Qed.

(** what an accepted chunk satisfies *)
Definition chunk_ok (n : Z) (bc tc dc : bool) (c : list rowT) : Prop :=
  (bc = true -> Forall (fun r => 0 <= fst (fst r) < n /\ 0 <= snd (fst r) < n) c) /\
  (tc = true -> Forall (fun r => fst (fst r) <= snd (fst r)) c) /\
  (dc = true -> NoDup (map fst c)).

Lemma validate_ok_iff n bc tc dc es (c : list rowT) :
  (exists c', validate_pixels n bc tc dc es c = inr c') <-> chunk_ok n bc tc dc c.
Proof.
  unfold validate_pixels, chunk_ok. split.
  - intros [c' H].
    destruct (bc && has_neg c) eqn:E1; [discriminate|].
    destruct (bc && has_excess n c) eqn:E2; [discriminate|].
    destruct (tc && has_tril c) eqn:E3; [discriminate|].
    destruct (dc && has_dup c) eqn:E4; [discriminate|].
    split; [|split].
    + intros ->. simpl in E1, E2. apply has_neg_false in E1. apply has_excess_false in E2.
      rewrite Forall_forall in *. intros r Hr. specialize (E1 r Hr). specialize (E2 r Hr). cbv beta in *. lia.
    + intros ->. simpl in E3. now apply has_tril_false.
    + intros ->. simpl in E4. now apply has_dup_false.
  - intros (Hb & Ht & Hd).
    assert (E1 : bc && has_neg c = false).
    { destruct bc; [|reflexivity]. simpl. apply has_neg_false. specialize (Hb eq_refl).
      rewrite Forall_forall in *. intros r Hr. specialize (Hb r Hr). cbv beta in *. lia. }
    assert (E2 : bc && has_excess n c = false).
    { destruct bc; [|reflexivity]. simpl. apply has_excess_false. specialize (Hb eq_refl).
      rewrite Forall_forall in *. intros r Hr. specialize (Hb r Hr). cbv beta in *. lia. }
    assert (E3 : tc && has_tril c = false).
    { destruct tc; [|reflexivity]. simpl. apply has_tril_false. auto. }
    assert (E4 : dc && has_dup c = false).
    { destruct dc; [|reflexivity]. simpl. apply has_dup_false. auto. }
    rewrite E1, E2, E3, E4. eauto.
Qed.

(** C13 validator_complete: with the default checks a chunk holding an out-of-range id, a lower-triangle
    pixel (checked in symmetric mode) or a repeated key is rejected *)
Lemma validator_complete n tc es (c : list rowT) :
  (exists r, In r c /\ bad_id n r) \/
  (tc = true /\ exists r, In r c /\ snd (fst r) < fst (fst r)) \/
  ~ NoDup (map fst c) ->
  exists e, validate_pixels n true tc true es c = inl e.
Proof.
  intros H.
  destruct (validate_pixels n true tc true es c) as [e|c'] eqn:E; [eauto|exfalso].
  assert (Hok : chunk_ok n true tc true c) by (apply (validate_ok_iff n true tc true es); eauto).
  destruct Hok as (Hb & Ht & Hd). specialize (Hb eq_refl). specialize (Hd eq_refl).
  destruct H as [(r & Hr & Hbad)|[(-> & r & Hr & Hlow)|Hdup]].
  - rewrite Forall_forall in Hb. specialize (Hb r Hr). unfold bad_id, key in *. cbv beta in *. lia.
  - specialize (Ht eq_refl). rewrite Forall_forall in Ht. specialize (Ht r Hr). unfold key in *. cbv beta in *. lia.
  - tauto.
Qed.

(** which error: the checks fire in source order *)
Lemma validator_error_kind n tc dc es (c : list rowT) e :
  validate_pixels n true tc dc es c = inl e ->
  (e = ErrNeg /\ has_neg c = true) \/
  (e = ErrExcess /\ has_neg c = false /\ has_excess n c = true) \/
  (e = ErrTril /\ tc = true /\ has_tril c = true) \/
  (e = ErrDup /\ dc = true /\ has_dup c = true).
Proof.
  unfold validate_pixels. simpl. intros H.
  destruct (has_neg c) eqn:E1; [inversion H; auto|].
  destruct (has_excess n c) eqn:E2; [inversion H; auto|].
  destruct tc; simpl in H.
  - destruct (has_tril c) eqn:E3; [inversion H; auto 6|].
    destruct dc; simpl in H; [|discriminate].
    destruct (has_dup c) eqn:E4; [inversion H; auto 7|discriminate].
  - destruct dc; simpl in H; [|discriminate].
    destruct (has_dup c) eqn:E4; [inversion H; auto 7|discriminate].
Qed.
End Validate.

(** * create *)
Section CreateThm.
Context {V : Type}.
Notation rowT := (key * V)%type.
Variable dflt : rowT.
Variable fits : rowT -> bool.
Variable count : option (rowT -> Z).

Definition prep (es : bool) (c : list rowT) : list rowT := if es then sort_rows c else c.

Lemma init_inv n su : WInv count (init_state dflt n su) [].
Proof. unfold init_state, WInv. simpl. repeat split. unfold chunk_total. now destruct count. Qed.

Lemma forall2_validate_shape n bc tc dc es (chunks vch : list (list rowT)) :
  Forall2 (fun c c' => validate_pixels n bc tc dc es c = inr c') chunks vch ->
  vch = map (prep es) chunks /\ Forall (chunk_ok n bc tc dc) chunks.
Proof.
  induction 1 as [|c c' t t' Hc _ IH]; simpl; [split; auto|].
  destruct IH as [-> IH2]. split.
  - f_equal. now apply validate_ok_shape in Hc.
  - constructor; auto. apply (validate_ok_iff n bc tc dc es). eauto.
Qed.

(** C01 create_pixels_roundtrip / write_pixels_concat:
    whenever creation succeeds, the pixel table reads back as exactly the concatenation of the chunks
    (each sorted first when ensure_sorted is set), whatever the chunk sizes, empty chunks included;
    nnz is its length and sum the total of the count column; every chunk passed the enabled checks. *)
Theorem create_ok_spec n su bc tc dc es chunks c :
  create dflt fits count n su bc tc dc es chunks = inr c ->
  let stream := concat (map (prep es) chunks) in
  c_rows c = stream /\
  read_pixels c = stream /\
  c_nnz c = zlen stream /\
  c_sum c = chunk_total count stream /\
  c_symm c = su /\ c_nbins c = n /\
  Forall (chunk_ok n bc (tc && su) dc) chunks /\
  Forall (fun r => fits r = true) stream /\
  (chunks <> [] -> zlen stream <= max_size n su).
Proof.
  intros H stream. unfold create in H.
  destruct (write_pixels dflt fits count _ _ _ chunks) as [e|[[stored nnz] total]] eqn:Hw; [discriminate|].
  destruct (write_pixels_inv dflt fits count _ _ _ _ _ _ (init_inv n su) Hw) as (vch & HF & Hinv & Hfits & Hne).
  apply forall2_validate_shape in HF. destruct HF as [-> Hok]. simpl in Hinv, Hne.
  fold stream in Hinv, Hne. destruct Hinv as (Hn & Hf & Ht).
  assert (Hrows : fst (fst (finish_pixels dflt (stored, nnz, total))) = stream /\
                  snd (fst (finish_pixels dflt (stored, nnz, total))) = nnz /\
                  snd (finish_pixels dflt (stored, nnz, total)) = total).
  { unfold finish_pixels. destruct (nnz =? 0) eqn:E; simpl.
    - repeat split. unfold resize. simpl.
      destruct stream; [reflexivity|]. unfold zlen in Hn. simpl in Hn. lia.
    - repeat split. destruct chunks as [|c0 t].
      + simpl in Hw. unfold init_state in Hw. inversion Hw. lia.
      + apply Hne. congruence. }
  destruct (finish_pixels dflt (stored, nnz, total)) as [[stored' nnz'] total'].
  simpl in Hrows. destruct Hrows as (-> & -> & ->).
  inversion H; subst c; clear H. unfold read_pixels. simpl.
  subst nnz. unfold zlen at 1. rewrite Nat2Z.id.
  repeat split; auto.
  - apply firstn_all.
  - apply Forall_forall. intros r Hr. unfold stream in Hr. apply in_concat in Hr.
    destruct Hr as (ch & Hch & Hr). rewrite Forall_forall in Hfits. specialize (Hfits ch Hch).
    rewrite forallb_forall in Hfits. auto.
  - intros Hc. now apply Hne.
Qed.

(** completeness: a stream whose chunks pass the checks, whose values fit and that is not longer than
    max_size is accepted *)
Lemma write_pixels_succeeds validate maxsize : forall chunks st acc,
  WInv count st acc ->
  Forall (fun c => exists c', validate c = inr c' /\ forallb fits c' = true /\ length c' = length c) chunks ->
  zlen acc + zlen (concat chunks) <= maxsize ->
  exists r, write_pixels dflt fits count validate maxsize st chunks = inr r.
Proof.
  induction chunks as [|c t IH]; intros st acc Hinv Hall Hmax; simpl.
  - eauto.
  - inversion Hall as [|? ? (c' & Hv & Hfit & Hlen) Hall']; subst.
    rewrite Hv. destruct st as [[stored nnz] total].
    assert (Hz : zlen c' = zlen c) by (unfold zlen; now rewrite Hlen).
    simpl in Hmax. rewrite zlen_app in Hmax.
    destruct (write_chunk dflt fits count maxsize (stored, nnz, total) c') as [e|st'] eqn:Hw.
    + exfalso. unfold write_chunk in Hw. destruct Hinv as (Hn & _).
      destruct (maxsize <? nnz + zlen c') eqn:E; [unfold zlen in *; lia|].
      rewrite Hfit in Hw. discriminate.
    + destruct (write_chunk_step _ _ _ _ _ _ _ _ _ _ Hinv Hw) as (-> & _ & _).
      apply (IH _ (acc ++ c')).
      * unfold WInv. repeat split. now rewrite firstn_all.
      * exact Hall'.
      * rewrite zlen_app. lia.
Qed.

Lemma sort_rows_length (l : list rowT) : length (sort_rows l) = length l.
Proof.
  assert (Hins : forall (r : rowT) (s : list rowT), length (insert_row r s) = S (length s)).
  { intros r s. induction s as [|h t IH]; simpl; [reflexivity|]. destruct (kltb (fst h) (fst r)); simpl; auto. }
  induction l as [|r t IH]; simpl; [reflexivity|]. rewrite Hins. now rewrite IH.
Qed.

Lemma forallb_insert_row (r : rowT) s : forallb fits (insert_row r s) = fits r && forallb fits s.
Proof.
  induction s as [|h t IH]; simpl; [reflexivity|].
  destruct (kltb (fst h) (fst r)); simpl; [rewrite IH|]; destruct (fits r), (fits h); reflexivity.
Qed.
Lemma forallb_sort_rows (l : list rowT) : forallb fits (sort_rows l) = forallb fits l.
Proof. induction l as [|r t IH]; simpl; [reflexivity|]. now rewrite forallb_insert_row, IH. Qed.

Theorem create_succeeds n su bc tc dc es chunks :
  Forall (chunk_ok n bc (tc && su) dc) chunks ->
  Forall (fun r => fits r = true) (concat chunks) ->
  zlen (concat chunks) <= max_size n su ->
  exists c, create dflt fits count n su bc tc dc es chunks = inr c.
Proof.
  intros Hok Hfit Hmax. unfold create.
  destruct (write_pixels_succeeds (validate_pixels n bc (tc && su) dc es) (max_size n su) chunks _ _ (init_inv n su)) as [[[stored nnz] total] Hr].
  - rewrite Forall_forall in *. intros c Hc.
    destruct (proj2 (validate_ok_iff n bc (tc && su) dc es c) (Hok c Hc)) as [c' Hc'].
    exists c'. split; [exact Hc'|]. apply validate_ok_shape in Hc'. subst c'.
    assert (Hfc : forallb fits c = true).
    { apply forallb_forall. intros r Hr. apply Hfit. apply in_concat. eauto. }
    destruct es; [rewrite forallb_sort_rows, sort_rows_length|]; auto.
  - simpl. exact Hmax.
  - rewrite Hr. destruct (finish_pixels dflt (stored, nnz, total)) as [[? ?] ?]. eauto.
Qed.
End CreateThm.

(** * ArrayLoader *)
Fixpoint span_rec (r : Z) (X : list (list Z)) : list pixel :=
  match X with [] => [] | x :: t => row_entries r x ++ span_rec (r + 1) t end.

Lemma span_chunk_gen lo : forall X a,
  concat (map (fun ix : Z * list Z => row_entries (lo + fst ix) (snd ix)) (combine (zrange a (length X)) X))
  = span_rec (lo + a) X.
Proof.
  induction X as [|x t IH]; intros a; [reflexivity|].
  cbn [length]. rewrite zrange_cons. cbn [combine map concat fst snd span_rec].
  f_equal. rewrite IH. f_equal. lia.
Qed.

Lemma span_chunk_rec lo X : span_chunk lo X = span_rec lo X.
Proof. unfold span_chunk, enumerate. rewrite span_chunk_gen. f_equal. lia. Qed.

Lemma span_rec_app : forall X Y lo, span_rec lo (X ++ Y) = span_rec lo X ++ span_rec (lo + zlen X) Y.
Proof.
  induction X as [|x t IH]; intros Y lo; simpl.
  - f_equal. unfold zlen. simpl. lia.
  - rewrite IH, app_assoc. do 2 f_equal. unfold zlen. simpl length. lia.
Qed.

Lemma skipn_add {T} (l : list T) : forall b a, skipn a (skipn b l) = skipn (a + b) l.
Proof.
  revert l. intros l b. revert l. induction b as [|b IH]; intros l a.
  - simpl. now rewrite Nat.add_0_r.
  - rewrite Nat.add_succ_r. destruct l as [|x t]; simpl; [now destruct a|]. apply IH.
Qed.

Lemma partition_concat (A : list (list Z)) c : 1 <= c ->
  forall fuel i, 0 <= i -> (Z.to_nat (zlen A - i) <= fuel)%nat ->
  concat (map (fun lh : Z * Z => span_rec (fst lh) (slice A (fst lh) (snd lh))) (partition_fuel fuel i (zlen A) c))
  = span_rec i (skipn (Z.to_nat i) A).
Proof.
  intros Hc. induction fuel as [|f IH]; intros i Hi Hf.
  - simpl. rewrite skipn_all2; [reflexivity|]. unfold zlen in Hf. lia.
  - simpl. destruct (i <? zlen A) eqn:E.
    + cbn [map concat fst snd]. rewrite IH by lia.
      set (m := Z.min (i + c) (zlen A)).
      assert (Hm : i < m <= zlen A) by lia.
      unfold slice.
      rewrite <- (firstn_skipn (Z.to_nat (m - i)) (skipn (Z.to_nat i) A)) at 2.
      rewrite span_rec_app. f_equal.
      assert (Hl : zlen (firstn (Z.to_nat (m - i)) (skipn (Z.to_nat i) A)) = m - i).
      { unfold zlen in *. rewrite firstn_length, skipn_length. lia. }
      rewrite Hl, skipn_add.
      replace (Z.to_nat (m - i) + Z.to_nat i)%nat with (Z.to_nat m) by lia.
      replace (i + (m - i)) with m by lia.
      destruct (Z.le_gt_cases (i + c) (zlen A)) as [Hle|Hgt].
      * replace m with (i + c) by lia. reflexivity.
      * rewrite (skipn_all2 (n := Z.to_nat (i + c))) by (unfold zlen in *; lia).
        rewrite (skipn_all2 (n := Z.to_nat m)) by (unfold zlen in *; lia). reflexivity.
    + rewrite skipn_all2; [reflexivity|]. unfold zlen in *. lia.
Qed.

(** the chunks of ArrayLoader concatenate to the whole-array sparsification, for every chunksize >= 1 *)
Theorem array_loader_concat A c : 1 <= c -> concat (array_loader A c) = triu_entries A.
Proof.
  intros Hc. unfold array_loader, triu_entries, partition.
  rewrite span_chunk_rec.
  rewrite (map_ext _ (fun lh : Z * Z => span_rec (fst lh) (slice A (fst lh) (snd lh)))) by (intros; apply span_chunk_rec).
  rewrite (partition_concat A c Hc) by lia. reflexivity.
Qed.

(** membership: exactly the non-zero entries on or above the diagonal, each with its value *)
Lemma in_enumerate_gen (xs : list Z) : forall a j v,
  In (j, v) (combine (zrange a (length xs)) xs) <-> a <= j /\ nth_error xs (Z.to_nat (j - a)) = Some v.
Proof.
  induction xs as [|x t IH]; intros a j v.
  - simpl. split; [tauto|]. intros [_ H]. destruct (Z.to_nat (j - a)); discriminate.
  - cbn [length]. rewrite zrange_cons. cbn [combine In]. rewrite IH. split.
    + intros [H|[H1 H2]].
      * inversion H; subst. split; [lia|]. replace (j - j) with 0 by lia. reflexivity.
      * split; [lia|]. replace (Z.to_nat (j - a)) with (S (Z.to_nat (j - (a + 1)))) by lia. exact H2.
    + intros [H1 H2]. destruct (Z.eq_dec j a) as [->|Hne].
      * left. replace (a - a) with 0 in H2 by lia. simpl in H2. congruence.
      * right. split; [lia|]. replace (Z.to_nat (j - a)) with (S (Z.to_nat (j - (a + 1)))) in H2 by lia. exact H2.
Qed.

Lemma in_row_entries r xs i j v :
  In ((i, j), v) (row_entries r xs) <->
  i = r /\ 0 <= j /\ nth_error xs (Z.to_nat j) = Some v /\ v <> 0 /\ r <= j.
Proof.
  unfold row_entries. rewrite in_map_iff. split.
  - intros ([j' v'] & Heq & Hin). cbn [fst snd] in Heq. inversion Heq; subst.
    apply filter_In in Hin. destruct Hin as [Hin Hp]. cbn [fst snd] in Hp.
    unfold enumerate in Hin. apply in_enumerate_gen in Hin. replace (j - 0) with j in Hin by lia.
    repeat split; try tauto; lia.
  - intros (-> & Hj & Hn & Hv & Hr). exists (j, v). split; [reflexivity|].
    apply filter_In. split.
    + unfold enumerate. apply in_enumerate_gen. replace (j - 0) with j by lia. tauto.
    + cbn [fst snd]. lia.
Qed.

Lemma in_span_rec : forall X lo i j v,
  In ((i, j), v) (span_rec lo X) <->
  lo <= i /\ 0 <= j /\ i <= j /\ v <> 0 /\
  exists xs, nth_error X (Z.to_nat (i - lo)) = Some xs /\ nth_error xs (Z.to_nat j) = Some v.
Proof.
  induction X as [|x t IH]; intros lo i j v.
  - simpl. split; [tauto|]. intros (_ & _ & _ & _ & xs & H & _). destruct (Z.to_nat (i - lo)); discriminate.
  - cbn [span_rec]. rewrite in_app_iff, in_row_entries, IH. split.
    + intros [(-> & Hj & Hn & Hv & Hr)|(Hlo & Hj & Hij & Hv & xs & Hx & Hn)].
      * repeat split; try lia; auto. exists x. replace (lo - lo) with 0 by lia. auto.
      * repeat split; try lia; auto. exists xs.
        replace (Z.to_nat (i - lo)) with (S (Z.to_nat (i - (lo + 1)))) by lia. auto.
    + intros (Hlo & Hj & Hij & Hv & xs & Hx & Hn). destruct (Z.eq_dec i lo) as [->|Hne].
      * left. replace (lo - lo) with 0 in Hx by lia. simpl in Hx. inversion Hx; subst. repeat split; auto.
      * right. repeat split; try lia; auto. exists xs.
        replace (Z.to_nat (i - lo)) with (S (Z.to_nat (i - (lo + 1)))) in Hx by lia. auto.
Qed.

Theorem triu_entries_spec A i j v :
  In ((i, j), v) (triu_entries A) <->
  0 <= i <= j /\ v <> 0 /\
  exists xs, nth_error A (Z.to_nat i) = Some xs /\ nth_error xs (Z.to_nat j) = Some v.
Proof.
  unfold triu_entries. rewrite span_chunk_rec, in_span_rec. replace (i - 0) with i by lia.
  split; intros H; decompose record H; repeat split; eauto; lia.
Qed.

(** sortedness *)
Lemma SS_filter {T} (R : T -> T -> Prop) f l : StronglySorted R l -> StronglySorted R (filter f l).
Proof.
  induction 1 as [|x t Hs IH Hf]; simpl; [constructor|].
  destruct (f x); [|exact IH]. constructor; [exact IH|].
  rewrite Forall_forall in *. intros y Hy. apply filter_In in Hy. apply Hf. tauto.
Qed.

Lemma SS_map {T U} (R : T -> T -> Prop) (R' : U -> U -> Prop) (g : T -> U) l :
  (forall x y, R x y -> R' (g x) (g y)) -> StronglySorted R l -> StronglySorted R' (map g l).
Proof.
  intros Hg. induction 1 as [|x t Hs IH Hf]; simpl; constructor; auto.
  rewrite Forall_forall in *. intros y Hy. apply in_map_iff in Hy. destruct Hy as (z & <- & Hz). auto.
Qed.

Lemma SS_app {T} (R : T -> T -> Prop) a b :
  StronglySorted R a -> StronglySorted R b -> (forall x y, In x a -> In y b -> R x y) ->
  StronglySorted R (a ++ b).
Proof.
  induction 1 as [|x t Hs IH Hf]; intros Hb Hab; simpl; [exact Hb|].
  constructor.
  - apply IH; auto. intros; apply Hab; simpl; auto.
  - rewrite Forall_forall in *. intros y Hy. apply in_app_iff in Hy. destruct Hy; [auto|]. apply Hab; simpl; auto.
Qed.

Lemma enum_sorted (xs : list Z) : forall a,
  StronglySorted (fun p q : Z * Z => fst p < fst q) (combine (zrange a (length xs)) xs).
Proof.
  induction xs as [|x t IH]; intros a; [constructor|].
  cbn [length]. rewrite zrange_cons. cbn [combine]. constructor; [apply IH|].
  apply Forall_forall. intros [j v] Hin. apply in_enumerate_gen in Hin. simpl. lia.
Qed.

Lemma row_entries_sorted r xs : StronglySorted klt (keys (row_entries r xs)).
Proof.
  unfold keys, row_entries. rewrite map_map. cbn [fst].
  apply (SS_map (fun p q : Z * Z => fst p < fst q)).
  - intros x y H. unfold klt. simpl. lia.
  - apply SS_filter. apply enum_sorted.
Qed.

Lemma span_rec_sorted : forall X lo, SSorted (span_rec lo X).
Proof.
  unfold SSorted. induction X as [|x t IH]; intros lo; simpl; [constructor|].
  unfold keys in *. rewrite map_app. apply SS_app.
  - apply row_entries_sorted.
  - apply IH.
  - intros k1 k2 H1 H2. apply in_map_iff in H1. destruct H1 as ([[i1 j1] v1] & <- & H1).
    apply in_map_iff in H2. destruct H2 as ([[i2 j2] v2] & <- & H2).
    apply in_row_entries in H1. apply in_span_rec in H2. unfold klt. simpl. lia.
Qed.

Theorem triu_entries_sorted A : SSorted (triu_entries A).
Proof. unfold triu_entries. rewrite span_chunk_rec. apply span_rec_sorted. Qed.

(** array_loader_spec: for every array and every chunksize >= 1 the concatenated chunks are strictly sorted by
    (bin1, bin2), upper triangular, and are exactly the non-zero entries on or above the diagonal; for a square
    array all ids are in range *)
Definition square (n : Z) (A : list (list Z)) : Prop := zlen A = n /\ Forall (fun xs => zlen xs = n) A.

Theorem array_loader_spec A c : 1 <= c ->
  let out := concat (array_loader A c) in
  SSorted out /\
  (forall i j v, In ((i, j), v) out <->
     0 <= i <= j /\ v <> 0 /\ exists xs, nth_error A (Z.to_nat i) = Some xs /\ nth_error xs (Z.to_nat j) = Some v) /\
  upper_b out = true /\
  (forall n, square n A -> inrange_b n out = true).
Proof.
  intros Hc out. unfold out. rewrite (array_loader_concat A c Hc).
  split; [apply triu_entries_sorted|]. split; [apply triu_entries_spec|]. split.
  - unfold upper_b. apply forallb_forall. intros [[i j] v] Hin. apply triu_entries_spec in Hin.
    unfold row, col. simpl. lia.
  - intros n [Hn Hsq]. unfold inrange_b. apply forallb_forall. intros [[i j] v] Hin.
    apply triu_entries_spec in Hin. destruct Hin as (Hij & Hv & xs & Hx & Hjv).
    unfold row, col. simpl.
    assert (Hi : (Z.to_nat i < length A)%nat) by (apply nth_error_Some; congruence).
    assert (Hj : (Z.to_nat j < length xs)%nat) by (apply nth_error_Some; congruence).
    apply nth_error_In in Hx. rewrite Forall_forall in Hsq. specialize (Hsq xs Hx).
    unfold zlen in *. lia.
Qed.

(** * the full-matrix view of a stored table *)
Lemma look_cons k' v t k : look ((k', v) :: t) k = (if keqb k k' then v else 0) + look t k.
Proof.
  simpl. f_equal. destruct (kcmp k k') eqn:E.
  - apply kcmp_eq in E. subst. unfold keqb. now rewrite !Z.eqb_refl.
  - apply kcmp_lt in E. unfold klt, keqb in *. destruct ((fst k =? fst k') && (snd k =? snd k')) eqn:B; [lia|reflexivity].
  - apply kcmp_gt in E. unfold klt, keqb in *. destruct ((fst k =? fst k') && (snd k =? snd k')) eqn:B; [lia|reflexivity].
Qed.

Lemma look_mirror px : forall i j,
  look (map flip (filter (fun p => negb (row p =? col p)) px)) (i, j) = if i =? j then 0 else look px (j, i).
Proof.
  induction px as [|[[a b] v] t IH]; intros i j.
  - simpl. now destruct (i =? j).
  - rewrite (look_cons (a, b) v t). cbn [filter]. unfold row, col at 1 2. cbn [fst snd].
    destruct (a =? b) eqn:Eab; cbn [negb].
    + rewrite IH. unfold keqb. cbn [fst snd]. destruct (i =? j) eqn:Eij; [reflexivity|].
      destruct ((j =? a) && (i =? b)) eqn:B; lia.
    + cbn [map]. unfold flip at 1. unfold row, col, val. cbn [fst snd].
      rewrite look_cons, IH. unfold keqb. cbn [fst snd].
      destruct (i =? j) eqn:Eij; destruct ((i =? b) && (j =? a)) eqn:B1; destruct ((j =? a) && (i =? b)) eqn:B2; lia.
Qed.

Lemma look_upper_zero px i j : upper_b px = true -> j < i -> look px (i, j) = 0.
Proof.
  unfold upper_b. induction px as [|[[a b] v] t IH]; intros Hu Hji; [reflexivity|].
  simpl in Hu. apply andb_true_iff in Hu. destruct Hu as [Hab Hu]. unfold row, col in Hab. simpl in Hab.
  rewrite look_cons, IH by auto. unfold keqb. simpl. destruct ((i =? a) && (j =? b)) eqn:B; lia.
Qed.

(** values: the sparse full view has the value of the symmetric completion at every cell *)
Theorem sparse_full_symm px i j : upper_b px = true ->
  look (sparse_full true px) (i, j) = symm px i j.
Proof.
  intros Hu. unfold sparse_full, symm. rewrite look_app, look_mirror.
  destruct (i =? j) eqn:E1; destruct (i <=? j) eqn:E2; try lia.
  - rewrite (look_upper_zero px j i) by (auto; lia). lia.
  - rewrite (look_upper_zero px i j) by (auto; lia). lia.
Qed.

Lemma SS_NoDup (l : list key) : StronglySorted klt l -> NoDup l.
Proof.
  induction 1 as [|x t Hs IH Hf]; constructor; auto.
  intros Hin. rewrite Forall_forall in Hf. apply (klt_irrefl x). auto.
Qed.

Lemma NoDup_app_intro {T} (a b : list T) :
  NoDup a -> NoDup b -> (forall x, In x a -> ~ In x b) -> NoDup (a ++ b).
Proof.
  induction 1 as [|x t Hx Ht IH]; intros Hb Hab; simpl; [exact Hb|].
  constructor.
  - rewrite in_app_iff. intros [H|H]; [auto|]. apply (Hab x); simpl; auto.
  - apply IH; auto. intros y Hy. apply Hab. simpl; auto.
Qed.

Lemma NoDup_keys_filter f (px : list pixel) : NoDup (keys px) -> NoDup (keys (filter f px)).
Proof.
  unfold keys. induction px as [|p t IH]; simpl; intros H; [constructor|].
  inversion H; subst. destruct (f p); simpl; [|auto]. constructor; auto.
  intros Hin. apply H2. apply in_map_iff in Hin. destruct Hin as (q & Hq & Hin).
  apply filter_In in Hin. apply in_map_iff. exists q. tauto.
Qed.

Definition swap (k : key) : key := (snd k, fst k).

Lemma keys_flip l : keys (map flip l) = map swap (keys l).
Proof. unfold keys. rewrite !map_map. apply map_ext. intros [[a b] v]. reflexivity. Qed.

(** keys: exactly the keys of the completion, each once *)
Theorem sparse_full_keys px : SSorted px -> upper_b px = true ->
  NoDup (keys (sparse_full true px)) /\
  forall i j, In (i, j) (keys (sparse_full true px)) <->
              In (i, j) (keys px) \/ (i <> j /\ In (j, i) (keys px)).
Proof.
  intros Hs Hu. unfold sparse_full.
  assert (Hnd : NoDup (keys px)) by (apply SS_NoDup; exact Hs).
  assert (Hup : forall a b, In (a, b) (keys px) -> a <= b).
  { intros a b Hin. unfold keys in Hin. apply in_map_iff in Hin. destruct Hin as ([[a' b'] v] & Heq & Hin).
    simpl in Heq. inversion Heq; subst. unfold upper_b in Hu. rewrite forallb_forall in Hu.
    specialize (Hu _ Hin). unfold row, col in Hu. simpl in Hu. lia. }
  assert (Hmir : forall i j, In (i, j) (keys (map flip (filter (fun p => negb (row p =? col p)) px))) <->
                             i <> j /\ In (j, i) (keys px)).
  { intros i j. rewrite keys_flip, in_map_iff. split.
    - intros ([a b] & Heq & Hin). unfold swap in Heq. simpl in Heq. inversion Heq; subst.
      unfold keys in Hin. apply in_map_iff in Hin. destruct Hin as ([[a' b'] v] & Heq' & Hin).
      simpl in Heq'. inversion Heq'; subst. apply filter_In in Hin. destruct Hin as [Hin Hne].
      unfold row, col in Hne. simpl in Hne. split; [lia|]. unfold keys. apply in_map_iff. exists ((j, i), v). auto.
    - intros [Hne Hin]. exists (j, i). split; [reflexivity|].
      unfold keys in *. apply in_map_iff in Hin. destruct Hin as ([[a' b'] v] & Heq' & Hin).
      simpl in Heq'. inversion Heq'; subst. apply in_map_iff. exists ((j, i), v). split; [reflexivity|].
      apply filter_In. split; [auto|]. unfold row, col. simpl. lia. }
  split.
  - unfold keys at 1. rewrite map_app. apply NoDup_app_intro.
    + exact Hnd.
    + fold (keys (map flip (filter (fun p => negb (row p =? col p)) px))). rewrite keys_flip.
      apply Injective_map_NoDup.
      * intros [a b] [c d] H. unfold swap in H. simpl in H. inversion H; subst. reflexivity.
      * apply NoDup_keys_filter. exact Hnd.
    + intros [i j] Hin Hin2. fold (keys px) in Hin.
      fold (keys (map flip (filter (fun p => negb (row p =? col p)) px))) in Hin2.
      apply Hmir in Hin2. destruct Hin2 as [Hne Hin2]. apply Hup in Hin. apply Hup in Hin2. lia.
  - intros i j. unfold keys at 1. rewrite map_app, in_app_iff.
    fold (keys px). fold (keys (map flip (filter (fun p => negb (row p =? col p)) px))).
    rewrite Hmir. tauto.
Qed.

(** * sort_rows (DataFrame.sort_values on the two id columns) *)
Section Sort.
Context {V : Type}.
Notation rowT := (key * V)%type.

Definition kle (a b : key) : Prop := klt a b \/ a = b.

Lemma kltb_false_kle a b : kltb a b = false -> kle b a.
Proof.
  intros H. unfold kle, klt. unfold kltb in H. destruct a as [a1 a2], b as [b1 b2]. simpl in *.
  destruct (Z.eq_dec a1 b1), (Z.eq_dec a2 b2); subst; auto; left; lia.
Qed.

Lemma insert_row_perm (r : rowT) s : Permutation (insert_row r s) (r :: s).
Proof.
  induction s as [|h t IH]; simpl; [reflexivity|].
  destruct (kltb (fst h) (fst r)); [|reflexivity].
  rewrite IH. apply perm_swap.
Qed.

Theorem sort_rows_perm (l : list rowT) : Permutation (sort_rows l) l.
Proof. induction l as [|r t IH]; simpl; [reflexivity|]. now rewrite insert_row_perm, IH. Qed.

Definition RSorted (l : list rowT) : Prop := StronglySorted kle (map fst l).

Lemma kle_trans a b c : kle a b -> kle b c -> kle a c.
Proof. unfold kle, klt. intros [H1 | ->] [H2 | ->]; auto. left. lia. Qed.

Lemma insert_row_sorted (r : rowT) s : RSorted s -> RSorted (insert_row r s).
Proof.
  unfold RSorted. induction s as [|h t IH]; simpl; intros Hs.
  - constructor; constructor.
  - inversion Hs as [|? ? Hs' Hf]; subst.
    destruct (kltb (fst h) (fst r)) eqn:E; simpl.
    + constructor; [auto|]. rewrite Forall_forall in *. intros k Hk.
      apply in_map_iff in Hk. destruct Hk as (q & <- & Hq).
      apply (Permutation_in _ (insert_row_perm r t)) in Hq. destruct Hq as [<-|Hq].
      * left. now apply kltb_spec.
      * apply Hf. now apply in_map.
    + apply kltb_false_kle in E. constructor; [exact Hs|]. constructor; [exact E|].
      rewrite Forall_forall in *. intros k Hk. eapply kle_trans; [exact E|]. auto.
Qed.

Theorem sort_rows_sorted (l : list rowT) : RSorted (sort_rows l).
Proof. induction l as [|r t IH]; simpl; [constructor|]. now apply insert_row_sorted. Qed.

(** without repeated keys the result is strictly sorted *)
Theorem sort_rows_ssorted (l : list rowT) : NoDup (map fst l) -> StronglySorted klt (map fst (sort_rows l)).
Proof.
  intros Hnd.
  assert (Hnd' : NoDup (map fst (sort_rows l))).
  { eapply Permutation_NoDup; [|exact Hnd]. apply Permutation_map. symmetry. apply sort_rows_perm. }
  pose proof (sort_rows_sorted l) as Hs. unfold RSorted in Hs.
  induction Hs as [|k t Hs IH Hf]; [constructor|].
  inversion Hnd'; subst. constructor; [auto|].
  rewrite Forall_forall in *. intros y Hy. destruct (Hf y Hy) as [H|H]; [exact H|]. subst. tauto.
Qed.

(** two strictly sorted tables with the same rows are equal: the stored order does not depend on the row order
    of the frame *)
Lemma ssorted_perm_eq (a b : list rowT) :
  StronglySorted klt (map fst a) -> StronglySorted klt (map fst b) -> Permutation a b -> a = b.
Proof.
  revert b. induction a as [|x a IH]; intros b Ha Hb Hp.
  - apply Permutation_nil in Hp. now subst.
  - destruct b as [|y b]; [symmetry in Hp; apply Permutation_nil in Hp; discriminate|].
    simpl in Ha, Hb. inversion Ha as [|? ? Ha' Hfa]; inversion Hb as [|? ? Hb' Hfb]; subst.
    assert (Hxy : x = y).
    { assert (Hx : In x (y :: b)) by (eapply Permutation_in; [exact Hp|]; simpl; auto).
      assert (Hy : In y (x :: a)) by (eapply Permutation_in; [symmetry; exact Hp|]; simpl; auto).
      destruct Hx as [-> | Hx]; [reflexivity|]. destruct Hy as [-> | Hy]; [reflexivity|].
      exfalso. rewrite Forall_forall in Hfa, Hfb.
      apply (klt_irrefl (fst x)). eapply klt_trans.
      - apply Hfa. apply in_map. exact Hy.
      - apply Hfb. apply in_map. exact Hx. }
    subst y. f_equal. apply IH; auto. eapply Permutation_cons_inv. exact Hp.
Qed.

Theorem sort_rows_order_independent (l l' : list rowT) :
  NoDup (map fst l) -> Permutation l l' -> sort_rows l = sort_rows l'.
Proof.
  intros Hnd Hp. apply ssorted_perm_eq.
  - now apply sort_rows_ssorted.
  - apply sort_rows_ssorted. eapply Permutation_NoDup; [|exact Hnd]. now apply Permutation_map.
  - rewrite (sort_rows_perm l), (sort_rows_perm l'). exact Hp.
Qed.

Theorem sort_rows_sorted_id (l : list rowT) : StronglySorted klt (map fst l) -> sort_rows l = l.
Proof.
  intros Hs. apply ssorted_perm_eq; auto.
  - apply sort_rows_ssorted. clear -Hs. induction Hs as [|k t Hs IH Hf]; constructor; auto. intros Hin. rewrite Forall_forall in Hf. apply (klt_irrefl k). auto.
  - apply sort_rows_perm.
Qed.
End Sort.

(** * info(): metadata and assembly *)
Section InfoThm.
Context {J : Type}.
Variable loads : string -> option J.
Variable dumps : J -> string.
Hypothesis loads_dumps : forall d, loads (dumps d) = Some d.

Theorem metadata_roundtrip (empty_doc d : J) : info_metadata loads dumps empty_doc (Some d) = inl d.
Proof. unfold info_metadata, info_decode, attr_metadata. now rewrite loads_dumps. Qed.

Theorem metadata_default (empty_doc : J) : info_metadata loads dumps empty_doc None = inl empty_doc.
Proof. unfold info_metadata, info_decode, attr_metadata. now rewrite loads_dumps. Qed.

(** guarded: a name that is not itself a JSON document comes back unchanged *)
Theorem assembly_roundtrip (a : string) : loads a = None -> info_assembly loads (Some a) = inr a.
Proof. intros H. unfold info_assembly, info_decode, attr_assembly. now rewrite H. Qed.

(** the mechanism of known finding D13: a name that parses as JSON comes back decoded *)
Theorem assembly_decoded (a : string) (j : J) : loads a = Some j -> info_assembly loads (Some a) = inl j.
Proof. intros H. unfold info_assembly, info_decode, attr_assembly. now rewrite H. Qed.
End InfoThm.

(** the unguarded statement is false of the faithful model: "123" reads back as the integer 123 *)
Theorem assembly_roundtrip_refuted :
  exists a : string, info_assembly json_word (Some a) <> inr a /\ info_assembly json_word (Some a) = inl (JInt 123).
Proof. exists "123"%string. split; [discriminate|reflexivity]. Qed.

(** * create followed by the full-matrix read *)
Section MatrixRoundtrip.
Context {V : Type}.
Notation rowT := (key * V)%type.
Variable dflt : rowT.
Variable fits : rowT -> bool.
Variable count : option (rowT -> Z).

Lemma keys_px_of (f : V -> Z) (rows : list rowT) : keys (px_of f rows) = map fst rows.
Proof. unfold keys, px_of. rewrite map_map. reflexivity. Qed.

Lemma upper_of_chunks n bc dc (f : V -> Z) (chunks : list (list rowT)) :
  Forall (chunk_ok n bc true dc) chunks -> upper_b (px_of f (concat chunks)) = true.
Proof.
  intros H. unfold upper_b, px_of. rewrite forallb_forall. intros p Hp.
  apply in_map_iff in Hp. destruct Hp as (r & <- & Hr). apply in_concat in Hr. destruct Hr as (ch & Hch & Hr).
  rewrite Forall_forall in H. destruct (H ch Hch) as (_ & Ht & _). specialize (Ht eq_refl).
  rewrite Forall_forall in Ht. specialize (Ht r Hr). unfold row, col, key in *. simpl in *. lia.
Qed.

(** C01 create_matrix_roundtrip.  For every stream accepted with the default triangularity check and every value
    column f: the dense full matrix of the created cooler is the symmetric completion of the input records
    (symmetric-upper) or the input matrix itself (square); the sparse full matrix has the same value at every
    cell; and when the stream is strictly sorted every key of the completion is present exactly once and nothing
    else is. *)
Theorem create_matrix_roundtrip n su bc dc chunks c (f : V -> Z) :
  create dflt fits count n su bc true dc false chunks = inr c ->
  let px := px_of f (concat chunks) in
  let got := px_of f (read_pixels c) in
  (forall i j, dense_full (c_symm c) got i j = if su then symm px i j else look px (i, j)) /\
  (forall i j, look (sparse_full (c_symm c) got) (i, j) = if su then symm px i j else look px (i, j)) /\
  (SSorted px ->
     NoDup (keys (sparse_full (c_symm c) got)) /\
     forall i j, In (i, j) (keys (sparse_full (c_symm c) got)) <->
                 In (i, j) (keys px) \/ (su = true /\ i <> j /\ In (j, i) (keys px))).
Proof.
  intros H px got. apply create_ok_spec in H. cbv zeta in H.
  destruct H as (_ & Hread & _ & _ & Hsym & _ & Hok & _).
  assert (Hid : map (prep false) chunks = chunks) by (unfold prep; apply map_id).
  rewrite Hid in Hread. unfold got. rewrite Hread, Hsym. fold px.
  destruct su.
  - assert (Hu : upper_b px = true) by (apply (upper_of_chunks n bc dc); exact Hok).
    split; [reflexivity|]. split; [intros; now apply sparse_full_symm|].
    intros Hs. destruct (sparse_full_keys px Hs Hu) as [Hnd Hk]. split; [exact Hnd|].
    intros i j. rewrite Hk. intuition congruence.
  - split; [reflexivity|]. split; [reflexivity|].
    intros Hs. simpl. split; [now apply SS_NoDup|]. intros i j. intuition congruence.
Qed.
End MatrixRoundtrip.

(** * C13: the step machine *)
Lemma path_eqb_eq a : forall b, path_eqb a b = true <-> a = b.
Proof.
  induction a as [|x a IH]; intros [|y b]; simpl; split; try congruence; try reflexivity.
  - intros H. apply andb_true_iff in H. destruct H as [H1 H2]. apply IH in H2. f_equal; [lia|exact H2].
  - intros H. inversion H; subst. rewrite Z.eqb_refl. simpl. now apply IH.
Qed.
Lemma path_eqb_refl a : path_eqb a a = true. Proof. now apply path_eqb_eq. Qed.
Lemma path_eqb_neq a b : a <> b -> path_eqb a b = false.
Proof. intros H. destruct (path_eqb a b) eqn:E; [|reflexivity]. apply path_eqb_eq in E. contradiction. Qed.

Lemma is_prefix_refl d : is_prefix d d = true.
Proof. induction d as [|x d IH]; simpl; [reflexivity|]. now rewrite Z.eqb_refl, IH. Qed.

Lemma lookup_filter (P : path -> bool) f q :
  lookup (filter (fun e : path * group => P (fst e)) f) q = if P q then lookup f q else None.
Proof.
  induction f as [|[r g] t IH]; simpl; [now destruct (P q)|].
  destruct (P r) eqn:Er; simpl.
  - destruct (path_eqb r q) eqn:E.
    + apply path_eqb_eq in E. subst. now rewrite Er.
    + exact IH.
  - rewrite IH. destruct (P q) eqn:Eq; [|reflexivity].
    destruct (path_eqb r q) eqn:E; [|reflexivity]. apply path_eqb_eq in E. subst. congruence.
Qed.

Lemma lookup_remove_path f p q : lookup (remove_path f p) q = if path_eqb q p then None else lookup f q.
Proof.
  unfold remove_path. rewrite (lookup_filter (fun r => negb (path_eqb r p))).
  now destruct (path_eqb q p).
Qed.

Lemma lookup_remove_under f d q : lookup (remove_under f d) q = if is_prefix d q then None else lookup f q.
Proof.
  unfold remove_under. rewrite (lookup_filter (fun r => negb (is_prefix d r))).
  now destruct (is_prefix d q).
Qed.

Lemma lookup_set f p g q : lookup (set_group f p g) q = if path_eqb p q then Some g else lookup f q.
Proof.
  unfold set_group. simpl. destruct (path_eqb p q) eqn:E; [reflexivity|].
  rewrite lookup_remove_path. destruct (path_eqb q p) eqn:E2; [|reflexivity].
  apply path_eqb_eq in E2. subst. rewrite path_eqb_refl in E. discriminate.
Qed.

Lemma lookup_ensure f p q :
  lookup (ensure_group f p) q =
  if path_eqb p q then (match lookup f p with Some g => Some g | None => Some fresh end) else lookup f q.
Proof.
  unfold ensure_group. destruct (lookup f p) as [g|] eqn:E.
  - destruct (path_eqb p q) eqn:E2; [|reflexivity]. apply path_eqb_eq in E2. now subst.
  - rewrite lookup_set. reflexivity.
Qed.

Lemma lookup_touch f p tag q :
  lookup (touch f p tag) q =
  if path_eqb p q
  then option_map (fun g => {| g_format := g_format g; g_content := g_content g * 31 + tag |}) (lookup f p)
  else lookup f q.
Proof.
  unfold touch. destruct (lookup f p) as [g|] eqn:E.
  - rewrite lookup_set. reflexivity.
  - destruct (path_eqb p q) eqn:E2; [|reflexivity]. apply path_eqb_eq in E2. subst. now rewrite E.
Qed.

(** ensure_group never changes an existing group and only adds unformatted ones *)
Lemma lookup_fold_ensure ps : forall f q,
  match lookup (fold_left ensure_group ps f) q with
  | Some g => lookup f q = Some g \/ (lookup f q = None /\ g = fresh)
  | None => lookup f q = None
  end.
Proof.
  induction ps as [|p ps IH]; intros f q; simpl.
  - destruct (lookup f q); auto.
  - specialize (IH (ensure_group f p) q).
    destruct (lookup (fold_left ensure_group ps (ensure_group f p)) q) as [g|].
    + rewrite lookup_ensure in IH. destruct (path_eqb p q) eqn:E.
      * apply path_eqb_eq in E. subst q. destruct (lookup f p) as [g0|]; destruct IH as [H|[H1 H2]]; try discriminate; auto.
        inversion H; subst. auto.
      * exact IH.
    + rewrite lookup_ensure in IH. destruct (path_eqb p q) eqn:E; [|exact IH].
      destruct (lookup f p); discriminate.
Qed.

Lemma is_cooler_lookup f p : is_cooler f p = true <-> exists g, lookup f p = Some g /\ g_format g = true.
Proof.
  unfold is_cooler. destruct (lookup f p) as [g|]; split.
  - eauto.
  - intros (g' & H & Hf). now inversion H; subst.
  - discriminate.
  - intros (g' & H & _). discriminate.
Qed.

Lemma lookup_some_in f p g : lookup f p = Some g -> In p (map fst f).
Proof.
  induction f as [|[r g'] t IH]; simpl; [discriminate|].
  destruct (path_eqb r p) eqn:E; [apply path_eqb_eq in E; auto|auto].
Qed.

(** list_coolers lists exactly the recognised paths *)
Theorem list_coolers_spec f p : In p (list_coolers f) <-> is_cooler f p = true.
Proof.
  unfold list_coolers. rewrite filter_In. split; [tauto|].
  intros H. split; [|exact H]. apply is_cooler_lookup in H. destruct H as (g & H & _). eapply lookup_some_in; eauto.
Qed.

(** every step other than write_info creates no cooler anywhere *)
Lemma step_no_new_cooler dest s f f' :
  s <> SInfo -> exec_step dest s f = Some f' ->
  forall p, is_cooler f' p = true -> is_cooler f p = true.
Proof.
  intros Hs He p Hp. apply is_cooler_lookup in Hp. destruct Hp as (g & Hl & Hf).
  apply is_cooler_lookup.
  destruct s as [[|]| |tag|[|]|]; cbn [exec_step] in He; try congruence.
  - (* open w *) inversion He; subst f'; clear He.
    cbn [lookup] in Hl. destruct (path_eqb [] p); [|discriminate]. inversion Hl; subst. discriminate.
  - (* open a *) inversion He; subst f'; clear He.
    rewrite lookup_ensure in Hl. destruct (path_eqb [] p) eqn:E; [|eauto].
    apply path_eqb_eq in E. subst p. destruct (lookup f []) as [g0|]; [eauto|]. inversion Hl; subst. discriminate.
  - (* make target *)
    destruct dest as [|x d]; [|remember (proper_prefixes (x :: d)) as ps eqn:Eps; clear Eps]; inversion He; subst f'; clear He.
    + rewrite lookup_touch in Hl. destruct (path_eqb [] p) eqn:E; [|eauto].
      apply path_eqb_eq in E. subst p. destruct (lookup f []) as [g0|]; [|discriminate].
      simpl in Hl. inversion Hl; subst. simpl in Hf. eauto.
    + rewrite lookup_set in Hl. destruct (path_eqb (x :: d) p) eqn:E.
      * inversion Hl; subst. discriminate.
      * pose proof (lookup_fold_ensure ps (remove_under f (x :: d)) p) as Hq.
        rewrite Hl in Hq. destruct Hq as [Hq|[_ ->]]; [|discriminate].
        rewrite lookup_remove_under in Hq. destruct (is_prefix (x :: d) p); [discriminate|eauto].
  - (* write *) inversion He; subst f'; clear He.
    rewrite lookup_touch in Hl. destruct (path_eqb dest p) eqn:E; [|eauto].
    apply path_eqb_eq in E. subst p. destruct (lookup f dest) as [g0|]; [|discriminate].
    simpl in Hl. inversion Hl; subst. simpl in Hf. eauto.
  - (* chunk *) inversion He; subst f'; clear He.
    rewrite lookup_touch in Hl. destruct (path_eqb dest p) eqn:E; [|eauto].
    apply path_eqb_eq in E. subst p. destruct (lookup f dest) as [g0|]; [|discriminate].
    simpl in Hl. inversion Hl; subst. simpl in Hf. eauto.
Qed.

Lemma run_no_new_cooler dest : forall steps f,
  ~ In SInfo steps ->
  forall p, is_cooler (fst (run dest steps f)) p = true -> is_cooler f p = true.
Proof.
  induction steps as [|s t IH]; intros f Hn p Hp; simpl in *; [exact Hp|].
  destruct (exec_step dest s f) as [f1|] eqn:E; [|exact Hp].
  apply (step_no_new_cooler dest s f f1); [intros ->; tauto|exact E|].
  apply IH; [tauto|exact Hp].
Qed.

Lemma run_app dest a : forall b f,
  run dest (a ++ b) f = (let (f1, ok) := run dest a f in if ok then run dest b f1 else (f1, false)).
Proof.
  induction a as [|s t IH]; intros b f; simpl.
  - now destruct (run dest b f).
  - destruct (exec_step dest s f) as [f1|]; [apply IH|reflexivity].
Qed.

Lemma create_steps_split m oks :
  exists pre, create_steps m oks = pre ++ [SInfo] /\ ~ In SInfo pre.
Proof.
  exists ([SOpen m; SMakeTarget; SWrite 1; SWrite 2; SWrite 3] ++ map SChunk oks ++ [SWrite 5]).
  split.
  - unfold create_steps. rewrite <- !app_assoc. reflexivity.
  - rewrite !in_app_iff. simpl. rewrite in_map_iff.
    intros [H|[(b & H & _)|H]]; [|discriminate|]; intuition discriminate.
Qed.

(** failed_create_not_cooler / no new cooler anywhere: if create() stops anywhere before its end - a rejected
    chunk, an exception of the iterator before any chunk index, a value that does not fit - then no path is
    recognised as a cooler that was not one before; in particular the destination is not, nor is it listed *)
Theorem failed_create_no_new_cooler m dest oks f f' :
  run dest (create_steps m oks) f = (f', false) ->
  forall p, is_cooler f' p = true -> is_cooler f p = true.
Proof.
  intros Hr p Hp. destruct (create_steps_split m oks) as (pre & Heq & Hn). rewrite Heq in Hr.
  rewrite run_app in Hr. destruct (run dest pre f) as [f1 ok] eqn:E1.
  assert (Hf1 : is_cooler f1 p = true -> is_cooler f p = true).
  { intros H. apply (run_no_new_cooler dest pre f Hn). now rewrite E1. }
  destruct ok.
  - simpl in Hr. destruct (lookup f1 dest); inversion Hr; subst. auto.
  - inversion Hr; subst. auto.
Qed.

Theorem failed_create_not_cooler m dest oks f f' :
  is_cooler f dest = false ->
  run dest (create_steps m oks) f = (f', false) ->
  is_cooler f' dest = false /\ ~ In dest (list_coolers f').
Proof.
  intros H0 Hr.
  assert (H : is_cooler f' dest = false).
  { destruct (is_cooler f' dest) eqn:E; [|reflexivity].
    apply (failed_create_no_new_cooler m dest oks f f' Hr) in E. congruence. }
  split; [exact H|]. rewrite list_coolers_spec. congruence.
Qed.

(** the same for a process that dies between two steps: after any proper prefix of the step list *)
Theorem crashed_create_not_cooler m dest oks f k :
  (k < length (create_steps m oks))%nat ->
  forall p, is_cooler (fst (run dest (firstn k (create_steps m oks)) f)) p = true -> is_cooler f p = true.
Proof.
  intros Hk. destruct (create_steps_split m oks) as (pre & Heq & Hn). rewrite Heq in *.
  rewrite app_length in Hk. simpl in Hk.
  rewrite firstn_app. replace (k - length pre)%nat with 0%nat by lia. simpl. rewrite app_nil_r.
  apply run_no_new_cooler. intros Hin. apply Hn. rewrite <- (firstn_skipn k pre). apply in_app_iff. now left.
Qed.

(** frame: in append mode every group that existed before and is not the destination or below it (for a root
    destination: every group other than the root) is unchanged - after a failed AND after a completed create *)
Definition untouched (dest p : path) : Prop :=
  match dest with [] => p <> [] | _ => is_prefix dest p = false end.

Lemma untouched_neq dest p : untouched dest p -> p <> dest.
Proof.
  unfold untouched. destruct dest as [|x d]; [auto|]. intros H ->. rewrite is_prefix_refl in H. discriminate.
Qed.

Lemma fold_ensure_keeps ps : forall f q g, lookup f q = Some g -> lookup (fold_left ensure_group ps f) q = Some g.
Proof.
  intros f q g H. pose proof (lookup_fold_ensure ps f q) as Hq.
  destruct (lookup (fold_left ensure_group ps f) q) as [g'|].
  - destruct Hq as [Hq|[Hq _]]; congruence.
  - congruence.
Qed.

Lemma step_frame dest s f f' :
  s <> SOpen ModeW -> exec_step dest s f = Some f' ->
  forall p g, untouched dest p -> lookup f p = Some g -> lookup f' p = Some g.
Proof.
  intros Hs He p g Hu Hl. pose proof (untouched_neq dest p Hu) as Hne.
  assert (Hpe : path_eqb dest p = false) by (apply path_eqb_neq; congruence).
  destruct s as [[|]| |tag|[|]|]; cbn [exec_step] in He; try congruence.
  - inversion He; subst f'. rewrite lookup_ensure. destruct (path_eqb [] p) eqn:E; [|exact Hl].
    apply path_eqb_eq in E. subst p. now rewrite Hl.
  - destruct dest as [|x d]; [|remember (proper_prefixes (x :: d)) as ps eqn:Eps; clear Eps]; inversion He; subst f'; clear He.
    + rewrite lookup_touch, Hpe. exact Hl.
    + rewrite lookup_set, Hpe. apply fold_ensure_keeps. rewrite lookup_remove_under.
      unfold untouched in Hu. now rewrite Hu.
  - inversion He; subst f'. rewrite lookup_touch, Hpe. exact Hl.
  - inversion He; subst f'. rewrite lookup_touch, Hpe. exact Hl.
  - destruct (lookup f dest) as [g0|]; [|discriminate]. inversion He; subst f'. rewrite lookup_set, Hpe. exact Hl.
Qed.

Lemma run_frame dest : forall steps f,
  ~ In (SOpen ModeW) steps ->
  forall p g, untouched dest p -> lookup f p = Some g -> lookup (fst (run dest steps f)) p = Some g.
Proof.
  induction steps as [|s t IH]; intros f Hn p g Hu Hl; simpl in *; [exact Hl|].
  destruct (exec_step dest s f) as [f1|] eqn:E; [|exact Hl].
  apply IH; [tauto|exact Hu|]. eapply step_frame; [|exact E|exact Hu|exact Hl]. intros ->. tauto.
Qed.

Lemma create_steps_append_no_w oks : ~ In (SOpen ModeW) (create_steps ModeA oks).
Proof.
  unfold create_steps. rewrite !in_app_iff. simpl. rewrite in_map_iff.
  intros [H|[(b & H & _)|H]]; [|discriminate|]; intuition discriminate.
Qed.

Theorem failed_create_frame dest oks f k p g :
  untouched dest p -> lookup f p = Some g ->
  lookup (fst (run dest (create_steps ModeA oks) f)) p = Some g /\
  lookup (fst (run dest (firstn k (create_steps ModeA oks)) f)) p = Some g.
Proof.
  intros Hu Hl. split.
  - apply run_frame; auto. apply create_steps_append_no_w.
  - apply run_frame; auto. intros Hin. apply (create_steps_append_no_w oks).
    rewrite <- (firstn_skipn k (create_steps ModeA oks)). apply in_app_iff. now left.
Qed.

(** a create that completes does make the destination a cooler *)
Theorem completed_create_is_cooler m dest oks f f' :
  run dest (create_steps m oks) f = (f', true) -> is_cooler f' dest = true.
Proof.
  intros Hr. destruct (create_steps_split m oks) as (pre & Heq & _). rewrite Heq in Hr.
  rewrite run_app in Hr. destruct (run dest pre f) as [f1 ok]. destruct ok; [|discriminate].
  simpl in Hr. destruct (lookup f1 dest) as [g|]; [|discriminate]. inversion Hr; subst f'.
  unfold is_cooler. rewrite lookup_set, path_eqb_refl. reflexivity.
Qed.

(** a failing iteration makes the whole run fail *)
Lemma run_chunks_fail dest rest : forall oks f, In false oks -> snd (run dest (map SChunk oks ++ rest) f) = false.
Proof.
  induction oks as [|b t IH]; intros f Hin; [destruct Hin|].
  simpl. destruct b; simpl.
  - apply IH. destruct Hin; [discriminate|auto].
  - reflexivity.
Qed.

Lemma run_create_fails m dest oks f : In false oks -> snd (run dest (create_steps m oks) f) = false.
Proof.
  intros Hin. unfold create_steps. rewrite run_app.
  destruct (run dest [SOpen m; SMakeTarget; SWrite 1; SWrite 2; SWrite 3] f) as [f1 ok]. destruct ok; [|reflexivity].
  now apply run_chunks_fail.
Qed.

(** * the property at the level of input streams *)
Section Streams.
Context {V : Type}.
Notation rowT := (key * V)%type.

(** an item that must not be accepted with the default checks *)
Definition bad_item (n : Z) (tc : bool) (it : option (list rowT)) : Prop :=
  match it with
  | None => True                                           (* the iterator raises here *)
  | Some c => (exists r, In r c /\ bad_id n r) \/
              (tc = true /\ exists r, In r c /\ snd (fst r) < fst (fst r)) \/
              ~ NoDup (map fst c)
  end.

Lemma bad_item_not_ok n tc es fits it :
  bad_item n tc it -> item_ok (validate_pixels n true tc true es) fits it = false.
Proof.
  destruct it as [c|]; simpl; [|reflexivity]. intros H.
  destruct (validator_complete n tc es c H) as [e ->]. reflexivity.
Qed.

(** C13, ordered creation: a stream holding, at ANY position, a chunk with an out-of-range id, a lower-triangle
    pixel (symmetric mode) or a repeated key, or a point where the iterator raises, makes create() fail, and the
    destination - if it was no cooler before - is neither recognised nor listed as one afterwards; no other path
    becomes a cooler; in append mode every other existing group is unchanged. *)
Theorem invalid_stream_no_cooler m dest n tc es fits (items : list (option (list rowT))) f :
  (exists it, In it items /\ bad_item n tc it) ->
  let '(f', ok) := create_machine m dest (validate_pixels n true tc true es) fits items f in
  ok = false /\
  (forall p, is_cooler f' p = true -> is_cooler f p = true) /\
  (is_cooler f dest = false -> is_cooler f' dest = false /\ ~ In dest (list_coolers f')) /\
  (m = ModeA -> forall p g, untouched dest p -> lookup f p = Some g -> lookup f' p = Some g).
Proof.
  intros (it & Hin & Hbad). unfold create_machine.
  set (oks := map (item_ok (validate_pixels n true tc true es) fits) items).
  assert (Hf : In false oks).
  { unfold oks. apply in_map_iff. exists it. split; [|exact Hin]. now apply bad_item_not_ok. }
  pose proof (run_create_fails m dest oks f Hf) as Hfail.
  destruct (run dest (create_steps m oks) f) as [f' ok] eqn:Hr. simpl in Hfail. subst ok.
  split; [reflexivity|]. split; [|split].
  - apply (failed_create_no_new_cooler m dest oks f f' Hr).
  - intros H0. apply (failed_create_not_cooler m dest oks f f' H0 Hr).
  - intros -> p g Hu Hl. pose proof (proj1 (failed_create_frame dest oks f 0 p g Hu Hl)) as H.
    now rewrite Hr in H.
Qed.

(** unordered creation: the failure happens in the sort pass, the destination file is not touched at all *)
Theorem invalid_stream_unordered_untouched m dest n tc es fits (items : list (option (list rowT))) f :
  (exists it, In it items /\ bad_item n tc it) ->
  create_unordered_machine m dest (validate_pixels n true tc true es) fits items f = (f, false).
Proof.
  intros (it & Hin & Hbad). unfold create_unordered_machine.
  destruct (forallb (item_ok (validate_pixels n true tc true es) fits) items) eqn:E; [|reflexivity].
  rewrite forallb_forall in E. specialize (E it Hin). rewrite bad_item_not_ok in E by exact Hbad. discriminate.
Qed.
End Streams.

(** * a strictly sorted in-range table never exceeds max_size (so a valid stream is always accepted) *)
Definition upper_keys_upto (K m : nat) : list key :=
  flat_map (fun i => map (fun j => (i, j)) (zrange i (K - Z.to_nat i))) (zrange 0 m).
Definition upper_keys (N : nat) : list key := upper_keys_upto N N.
Definition square_keys (N : nat) : list key := list_prod (zrange 0 N) (zrange 0 N).

Lemma in_upper_keys N i j : In (i, j) (upper_keys N) <-> 0 <= i <= j /\ j < Z.of_nat N.
Proof.
  unfold upper_keys, upper_keys_upto. rewrite in_flat_map. split.
  - intros (x & Hx & Hin). apply in_zrange in Hx. apply in_map_iff in Hin.
    destruct Hin as (y & Heq & Hy). inversion Heq; subst. apply in_zrange in Hy. lia.
  - intros H. exists i. split; [apply in_zrange; lia|]. apply in_map_iff. exists j. split; [reflexivity|].
    apply in_zrange. lia.
Qed.

Lemma in_square_keys N i j : In (i, j) (square_keys N) <-> 0 <= i < Z.of_nat N /\ 0 <= j < Z.of_nat N.
Proof. unfold square_keys. rewrite in_prod_iff, !in_zrange. lia. Qed.

Lemma upper_keys_length_gen (K : nat) : forall m, (m <= K)%nat ->
  2 * Z.of_nat (length (upper_keys_upto K m))
  = Z.of_nat m * (2 * Z.of_nat K - Z.of_nat m + 1).
Proof.
  unfold upper_keys_upto. induction m as [|m IH]; intros Hm; [reflexivity|].
  rewrite zrange_S, flat_map_app, app_length. cbn [flat_map]. rewrite app_nil_r, map_length, zrange_length.
  rewrite Nat2Z.inj_add. specialize (IH ltac:(lia)).
  replace (Z.to_nat (0 + Z.of_nat m)) with m by lia.
  match goal with |- context[Z.of_nat (length ?x)] => set (L := Z.of_nat (length x)) in * end.
  change (2 * L = Z.of_nat m * (2 * Z.of_nat K - Z.of_nat m + 1)) in IH. clearbody L.
  rewrite Nat2Z.inj_sub by lia. rewrite Nat2Z.inj_succ. nia.
Qed.

Lemma upper_keys_length N : 2 * Z.of_nat (length (upper_keys N)) = Z.of_nat N * (Z.of_nat N + 1).
Proof. unfold upper_keys. rewrite (upper_keys_length_gen N N) by lia. nia. Qed.

Lemma square_keys_length N : Z.of_nat (length (square_keys N)) = Z.of_nat N * Z.of_nat N.
Proof. unfold square_keys, key. rewrite prod_length, zrange_length. lia. Qed.

Lemma max_size_upper n : 0 <= n -> 2 * max_size n true = n * (n + 1).
Proof.
  intros Hn. unfold max_size.
  assert (He : exists q, n * (n - 1) = 2 * q).
  { destruct (Z.even n) eqn:E.
    - apply Z.even_spec in E. destruct E as [k ->]. exists (k * (2 * k - 1)). nia.
    - assert (Ho : Z.odd n = true) by (rewrite <- Z.negb_even, E; reflexivity).
      apply Z.odd_spec in Ho. destruct Ho as [k ->]. exists ((2 * k + 1) * k). nia. }
  destruct He as [q Hq]. rewrite Hq.
  assert (Hd : 2 * q / 2 = q) by (rewrite (Z.mul_comm 2 q); apply Z.div_mul; lia).
  rewrite Hd. nia.
Qed.

Theorem sorted_table_fits_max_size {V} (n : Z) (su : bool) (rows : list (key * V)) :
  0 <= n ->
  StronglySorted klt (map fst rows) ->
  Forall (fun r => 0 <= fst (fst r) < n /\ 0 <= snd (fst r) < n) rows ->
  (su = true -> Forall (fun r => fst (fst r) <= snd (fst r)) rows) ->
  zlen rows <= max_size n su.
Proof.
  intros Hn Hs Hr Hu.
  assert (Hnd : NoDup (map fst rows)) by (apply SS_NoDup; exact Hs).
  unfold zlen. rewrite <- (map_length fst rows).
  destruct su.
  - specialize (Hu eq_refl).
    assert (Hincl : incl (map fst rows) (upper_keys (Z.to_nat n))).
    { intros [i j] Hin. apply in_map_iff in Hin. destruct Hin as ([[a b] v] & Heq & Hin).
      simpl in Heq. inversion Heq; subst a b.
      rewrite Forall_forall in Hr, Hu. specialize (Hr _ Hin). specialize (Hu _ Hin).
      simpl in Hr, Hu. apply in_upper_keys. lia. }
    pose proof (NoDup_incl_length Hnd Hincl) as Hlen.
    pose proof (upper_keys_length (Z.to_nat n)) as HL. pose proof (max_size_upper n Hn) as HM.
    rewrite Z2Nat.id in HL by lia. lia.
  - assert (Hincl : incl (map fst rows) (square_keys (Z.to_nat n))).
    { intros [i j] Hin. apply in_map_iff in Hin. destruct Hin as ([[a b] v] & Heq & Hin).
      simpl in Heq. inversion Heq; subst a b.
      rewrite Forall_forall in Hr. specialize (Hr _ Hin).
      simpl in Hr. apply in_square_keys. lia. }
    pose proof (NoDup_incl_length Hnd Hincl) as Hlen.
    pose proof (square_keys_length (Z.to_nat n)) as HL. rewrite Z2Nat.id in HL by lia.
    unfold max_size. lia.
Qed.

Lemma NoDup_app_parts {T} (a b : list T) : NoDup (a ++ b) -> NoDup a /\ NoDup b.
Proof.
  induction a as [|x a IH]; simpl; intros H; [split; [constructor|exact H]|].
  inversion H; subst. destruct (IH H3) as [Ha Hb]. split; [|exact Hb].
  constructor; [|exact Ha]. intros Hin. apply H2. apply in_app_iff. now left.
Qed.

Lemma NoDup_concat_chunks {T U} (g : T -> U) (chunks : list (list T)) :
  NoDup (map g (concat chunks)) -> Forall (fun c => NoDup (map g c)) chunks.
Proof.
  induction chunks as [|c t IH]; simpl; intros H; [constructor|].
  rewrite map_app in H. constructor.
  - apply (NoDup_app_parts _ _ H).
  - apply IH. apply (NoDup_app_parts _ _ H).
Qed.

Section ValidStream.
Context {V : Type}.
Notation rowT := (key * V)%type.
Variable dflt : rowT.
Variable fits : rowT -> bool.
Variable count : option (rowT -> Z).

(** C01 end to end: EVERY strictly sorted, in-range (upper-triangular in symmetric mode) stream whose values fit,
    cut into chunks in ANY way, is accepted with all default checks on, and reads back exactly *)
Theorem create_valid_stream n su (chunks : list (list rowT)) :
  0 <= n ->
  let stream := concat chunks in
  StronglySorted klt (map fst stream) ->
  Forall (fun r => 0 <= fst (fst r) < n /\ 0 <= snd (fst r) < n) stream ->
  (su = true -> Forall (fun r => fst (fst r) <= snd (fst r)) stream) ->
  Forall (fun r => fits r = true) stream ->
  exists c, create dflt fits count n su true true true false chunks = inr c /\
            c_rows c = stream /\ read_pixels c = stream /\ c_nnz c = zlen stream /\
            c_sum c = chunk_total count stream /\ c_symm c = su.
Proof.
  intros Hn stream Hs Hr Hu Hfit.
  assert (Hok : Forall (chunk_ok n true (true && su) true) chunks).
  { pose proof (NoDup_concat_chunks fst chunks (SS_NoDup _ Hs)) as Hnd.
    apply Forall_forall. intros ch Hch. unfold chunk_ok. split; [|split].
    - intros _. apply Forall_forall. intros r Hin. rewrite Forall_forall in Hr. apply Hr. apply in_concat. eauto.
    - intros Ht. simpl in Ht. apply Forall_forall. intros r Hin. specialize (Hu Ht).
      rewrite Forall_forall in Hu. apply Hu. apply in_concat. eauto.
    - intros _. rewrite Forall_forall in Hnd. auto. }
  destruct (create_succeeds dflt fits count n su true true true false chunks Hok Hfit) as [c Hc].
  - now apply sorted_table_fits_max_size.
  - exists c. split; [exact Hc|]. apply create_ok_spec in Hc. cbv zeta in Hc.
    assert (Hid : map (prep false) chunks = chunks) by (unfold prep; apply map_id).
    rewrite Hid in Hc. tauto.
Qed.
End ValidStream.

(** * the step machine and the functional model of create agree on success *)
Lemma touch_keeps f p tag : lookup f p <> None -> lookup (touch f p tag) p <> None.
Proof.
  intros H. rewrite lookup_touch, path_eqb_refl. destruct (lookup f p); [discriminate|contradiction].
Qed.

Lemma run_chunks_complete dest : forall oks f,
  forallb (fun b => b) oks = true -> lookup f dest <> None ->
  exists f', run dest (map SChunk oks) f = (f', true) /\ lookup f' dest <> None.
Proof.
  induction oks as [|b t IH]; intros f Hall Hd; simpl.
  - eauto.
  - simpl in Hall. apply andb_true_iff in Hall. destruct Hall as [-> Hall]. simpl.
    apply IH; [exact Hall|]. now apply touch_keeps.
Qed.

Lemma open_ok dest m f : exists f0, exec_step dest (SOpen m) f = Some f0 /\ lookup f0 [] <> None.
Proof.
  destruct m; simpl; eexists; split; try reflexivity.
  - simpl. discriminate.
  - rewrite lookup_ensure, path_eqb_refl. destruct (lookup f []); discriminate.
Qed.

Lemma make_target_ok dest f0 : lookup f0 [] <> None ->
  exists f2, exec_step dest SMakeTarget f0 = Some f2 /\ lookup f2 dest <> None.
Proof.
  intros Hroot. destruct dest as [|x d].
  - eexists. split; [reflexivity|]. now apply touch_keeps.
  - eexists. split; [reflexivity|]. rewrite lookup_set, path_eqb_refl. discriminate.
Qed.

Theorem run_completes m dest oks f :
  forallb (fun b => b) oks = true -> snd (run dest (create_steps m oks) f) = true.
Proof.
  intros Hall. unfold create_steps.
  destruct (open_ok dest m f) as (f0 & E0 & H0). destruct (make_target_ok dest f0 H0) as (f2 & E2 & H2).
  assert (Hr1 : run dest [SOpen m; SMakeTarget; SWrite 1; SWrite 2; SWrite 3] f
                = (touch (touch (touch f2 dest 1) dest 2) dest 3, true)).
  { cbn [run]. rewrite E0, E2. reflexivity. }
  assert (Hd1 : lookup (touch (touch (touch f2 dest 1) dest 2) dest 3) dest <> None) by (repeat apply touch_keeps; exact H2).
  rewrite run_app, Hr1. rewrite run_app.
  destruct (run_chunks_complete dest oks _ Hall Hd1) as (f3 & Hr2 & Hd2). rewrite Hr2.
  cbn [run exec_step].
  pose proof (touch_keeps f3 dest 5 Hd2) as Hd3.
  destruct (lookup (touch f3 dest 5) dest); [reflexivity|contradiction].
Qed.

Section Refine.
Context {V : Type}.
Notation rowT := (key * V)%type.
Variable dflt : rowT.
Variable fits : rowT -> bool.
Variable count : option (rowT -> Z).

(** for a stream without iterator failures the machine completes exactly when the functional model of create
    accepts the stream (up to the max_size limit, which valid streams never reach) *)
Theorem machine_completes_iff_create_ok m dest n su tc es (chunks : list (list rowT)) f :
  zlen (concat chunks) <= max_size n su ->
  (snd (create_machine m dest (validate_pixels n true (tc && su) true es) fits (map Some chunks) f) = true
   <-> exists c, create dflt fits count n su true tc true es chunks = inr c).
Proof.
  intros Hmax. unfold create_machine.
  set (val := validate_pixels n true (tc && su) true es).
  set (oks := map (item_ok val fits) (map Some chunks)).
  split.
  - intros Hrun.
    assert (Hall : Forall (fun c => item_ok val fits (Some c) = true) chunks).
    { apply Forall_forall. intros c Hc. destruct (item_ok val fits (Some c)) eqn:E; [reflexivity|exfalso].
      assert (Hin : In false oks).
      { unfold oks. rewrite map_map. apply in_map_iff. exists c. auto. }
      pose proof (run_create_fails m dest oks f Hin) as Hf. congruence. }
    apply create_succeeds.
    + rewrite Forall_forall in *. intros c Hc. specialize (Hall c Hc). simpl in Hall.
      destruct (val c) as [e|c'] eqn:E; [discriminate|]. apply (validate_ok_iff n true (tc && su) true es). eauto.
    + apply Forall_forall. intros r Hr. apply in_concat in Hr. destruct Hr as (c & Hc & Hr).
      rewrite Forall_forall in Hall. specialize (Hall c Hc). simpl in Hall.
      destruct (val c) as [e|c'] eqn:E; [discriminate|]. apply validate_ok_shape in E. subst c'.
      assert (Hfc : forallb fits c = true).
      { unfold prep in Hall. destruct es; [now rewrite forallb_sort_rows in Hall|exact Hall]. }
      rewrite forallb_forall in Hfc. auto.
    + exact Hmax.
  - intros [c Hc]. apply run_completes. apply create_ok_spec in Hc. cbv zeta in Hc.
    destruct Hc as (_ & _ & _ & _ & _ & _ & Hok & Hfit & _).
    unfold oks. rewrite map_map. apply forallb_forall. intros b Hb. apply in_map_iff in Hb.
    destruct Hb as (ch & <- & Hch). simpl.
    rewrite Forall_forall in Hok. specialize (Hok ch Hch).
    destruct (proj2 (validate_ok_iff n true (tc && su) true es ch) Hok) as [c' Hc']. fold val in Hc'. rewrite Hc'.
    apply validate_ok_shape in Hc'. subst c'. apply forallb_forall. intros r Hr.
    rewrite Forall_forall in Hfit. apply Hfit. apply in_concat. exists (prep es ch). split; [|exact Hr].
    apply in_map. exact Hch.
Qed.
End Refine.

(** * which names are safe from info()'s JSON decoding (guard of known finding D13, in syntactic form) *)
Definition bad_char (a : ascii) : bool :=
  negb (is_digit a || Ascii.eqb a "-" || Ascii.eqb a "e" || Ascii.eqb a "E").
Fixpoint has_bad (s : string) : bool :=
  match s with EmptyString => false | String a r => bad_char a || has_bad r end.

Lemma bad_not_digit a : bad_char a = true -> is_digit a = false.
Proof. unfold bad_char. destruct (is_digit a); [discriminate|reflexivity]. Qed.

Lemma has_bad_all_digits s : has_bad s = true -> all_digits s = false.
Proof.
  induction s as [|a r IH]; simpl; [discriminate|]. intros H. apply orb_true_iff in H. destruct H as [H|H].
  - now rewrite (bad_not_digit a H).
  - rewrite (IH H). apply andb_false_r.
Qed.

Lemma has_bad_intpart s : has_bad s = true -> json_intpart s = false.
Proof.
  destruct s as [|a r]; simpl; [reflexivity|]. intros H.
  destruct (Ascii.eqb a "0") eqn:E0.
  - destruct r; [|reflexivity]. apply Ascii.eqb_eq in E0. subst a. simpl in H. discriminate.
  - apply orb_true_iff in H. destruct H as [H|H].
    + now rewrite (bad_not_digit a H).
    + rewrite (has_bad_all_digits r H). apply andb_false_r.
Qed.

Lemma has_bad_exppart s : has_bad s = true -> json_exppart s = false.
Proof.
  destruct s as [|a r]; [reflexivity|]. intros H. unfold json_exppart.
  destruct (Ascii.eqb a "-") eqn:E.
  - destruct r; [reflexivity|]. apply Ascii.eqb_eq in E. subst a.
    change (has_bad (String "-" (String a0 r))) with (bad_char "-" || has_bad (String a0 r)) in H.
    simpl bad_char in H. apply has_bad_all_digits. exact H.
  - now apply has_bad_all_digits.
Qed.

Lemma has_bad_split s : has_bad s = true ->
  has_bad (fst (split_exp s)) = true \/ exists ex, snd (split_exp s) = Some ex /\ has_bad ex = true.
Proof.
  induction s as [|a r IH]; [discriminate|]. intros H. cbn [split_exp].
  destruct (Ascii.eqb a "e" || Ascii.eqb a "E")%bool eqn:E.
  - right. simpl. exists r. split; [reflexivity|]. cbn [has_bad] in H.
    apply orb_true_iff in H. destruct H as [H|H]; [|exact H]. exfalso.
    unfold bad_char in H. apply orb_true_iff in E.
    destruct E as [E|E]; rewrite E in H; rewrite ?orb_true_r in H; discriminate.
  - destruct (split_exp r) as [m e] eqn:Es. cbn [fst snd]. cbn [has_bad] in H |- *.
    apply orb_true_iff in H. destruct H as [H|H].
    + left. now rewrite H.
    + destruct (IH H) as [Hl|Hr]; simpl in *.
      * left. rewrite Hl. apply orb_true_r.
      * right. exact Hr.
Qed.

Lemma json_number_bad s : has_bad s = true -> json_number s = None.
Proof.
  intros H. unfold json_number.
  assert (Hbody : forall body, has_bad body = true ->
            (let '(m, e) := split_exp body in
             if json_intpart m then match e with None => Some (JInt 0) | Some ex => if json_exppart ex then Some JFloatLit else None end else None) = None
            -> True) by auto.
  clear Hbody.
  assert (Hgen : forall (neg : bool) body, has_bad body = true ->
     (let '(m, e) := split_exp body in
      if json_intpart m
      then match e with
           | None => Some (JInt (if neg then - digits_val 0 m else digits_val 0 m))
           | Some ex => if json_exppart ex then Some JFloatLit else None
           end
      else None) = None).
  { intros neg body Hb. pose proof (has_bad_split body Hb) as Hs.
    destruct (split_exp body) as [m e]. simpl in Hs. destruct Hs as [Hm|(ex & -> & Hex)].
    - now rewrite (has_bad_intpart m Hm).
    - rewrite (has_bad_exppart ex Hex). now destruct (json_intpart m). }
  destruct s as [|a r]; [discriminate|].
  destruct (Ascii.eqb a "-") eqn:E.
  - apply Ascii.eqb_eq in E. subst a. cbn [has_bad] in H. simpl bad_char in H. exact (Hgen true r H).
  - exact (Hgen false (String a r) H).
Qed.

(** a name containing any character other than a digit, '-', 'e', 'E', and different from the three JSON
    literals, is not decoded: info() returns it unchanged (hg19, mm10, GRCh38, T2T-CHM13v2, ...) *)
Theorem assembly_name_safe (s : string) :
  has_bad s = true -> s <> "true"%string -> s <> "false"%string -> s <> "null"%string ->
  info_assembly json_word (Some s) = inr s.
Proof.
  intros Hb H1 H2 H3. apply assembly_roundtrip. unfold json_word.
  rewrite (proj2 (String.eqb_neq _ _) H1), (proj2 (String.eqb_neq _ _) H2), (proj2 (String.eqb_neq _ _) H3).
  now apply json_number_bad.
Qed.

(** * write_pixels on its own (no validator, empty datasets): the loop theorem *)
Theorem write_pixels_concat {V} (dflt : key * V) fits count maxsize (chunks : list (list (key * V))) r :
  write_pixels dflt fits count (fun c => inr c) maxsize ([], 0, 0) chunks = inr r ->
  r = (concat chunks, zlen (concat chunks), chunk_total count (concat chunks)).
Proof.
  intros H.
  assert (Hinv : WInv count (([] : list (key * V)), 0, 0) []).
  { unfold WInv. repeat split. unfold chunk_total. now destruct count. }
  destruct (write_pixels_inv dflt fits count _ _ _ _ _ _ Hinv H) as (vch & HF & Hr & _ & Hne).
  assert (Hv : vch = chunks).
  { clear -HF. induction HF as [|c c' t t' Hc _ IH]; [reflexivity|]. inversion Hc; subst. reflexivity. }
  subst vch. simpl in Hr, Hne. destruct r as [[stored nnz] total]. destruct Hr as (Hn & Hf & Ht).
  destruct chunks as [|c t].
  - simpl in H. inversion H; subst. simpl. unfold chunk_total. now destruct count.
  - destruct Hne as [Hs _]; [congruence|]. simpl in Hs. subst. reflexivity.
Qed.
