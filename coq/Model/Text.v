(** C19  Model of the string parsers of cooler.util (as the code is in /repo now):
      parse_cooler_uri      util.py:37-53
      parse_humanized       util.py:60-76   (exact decimal scaling through Fraction, commit 9fcca11)
      parse_region_string   util.py:79-141  (regex tokenizer + _expect grammar)
      parse_region          util.py:144-190 (defaults, bounds against chromsizes)
    Strings are [list ascii]; a character is a code point 0..255 (Latin-1 reading of Python str).
    Every error of the Python code on these paths is a ValueError; the model returns [None] for it.
    No proofs in this file. *)
From Coq Require Export Ascii String.
From Cooler Require Export Model.Base.

Definition str := list ascii.

(** the code point of a character, = Z.of_N (N_of_ascii c) (lemma code_spec), written as two
    16-leaf decision trees so that vm_compute classifies a character in a few steps *)
Definition nibble (b0 b1 b2 b3 : bool) : Z :=
  if b3 then (if b2 then (if b1 then (if b0 then 15 else 14) else (if b0 then 13 else 12))
                    else (if b1 then (if b0 then 11 else 10) else (if b0 then 9 else 8)))
        else (if b2 then (if b1 then (if b0 then 7 else 6) else (if b0 then 5 else 4))
                    else (if b1 then (if b0 then 3 else 2) else (if b0 then 1 else 0))).
Definition code (c : ascii) : Z :=
  match c with Ascii b0 b1 b2 b3 b4 b5 b6 b7 => 16 * nibble b4 b5 b6 b7 + nibble b0 b1 b2 b3 end.
Definition chr (z : Z) : ascii := ascii_of_N (Z.to_N z).
Definition of_codes (l : list Z) : str := map chr l.
Definition to_codes (s : str) : list Z := map code s.
Definition lit (s : string) : str := list_ascii_of_string s.

(** ---------------------------------------------------------------- character classes *)
Definition is_digit (c : ascii) : bool := (48 <=? code c) && (code c <=? 57).          (* [0-9] *)
Definition is_lower (c : ascii) : bool := (97 <=? code c) && (code c <=? 122).
Definition is_upper (c : ascii) : bool := (65 <=? code c) && (code c <=? 90).
Definition is_alpha (c : ascii) : bool := is_lower c || is_upper c.                    (* [a-z] with re.IGNORECASE *)
(** Python str.isspace / regex \s / str.strip() on code points < 256 *)
Definition is_blank (c : ascii) : bool :=
  ((9 <=? code c) && (code c <=? 13)) || ((28 <=? code c) && (code c <=? 32))
  || (code c =? 133) || (code c =? 160).
Definition is_comma (c : ascii) : bool := code c =? 44.
Definition is_dot (c : ascii) : bool := code c =? 46.
Definition is_hyphen (c : ascii) : bool := code c =? 45.
Definition is_colon (c : ascii) : bool := code c =? 58.
Definition is_slash (c : ascii) : bool := code c =? 47.
Definition is_newline (c : ascii) : bool := code c =? 10.                              (* regex '.' excludes only \n *)
Definition is_digit_or_comma (c : ascii) : bool := is_digit c || is_comma c.           (* [0-9,] *)
Definition is_numch (c : ascii) : bool := is_digit c || is_comma c || is_dot c.        (* [0-9,.] *)
Definition to_upper (c : ascii) : ascii := if is_lower c then chr (code c - 32) else c.
Definition digit_val (c : ascii) : Z := code c - 48.

Definition c_colon : ascii := chr 58.
Definition c_hyphen : ascii := chr 45.
Definition c_dot : ascii := chr 46.
Definition c_comma : ascii := chr 44.
Definition c_slash : ascii := chr 47.

(** ---------------------------------------------------------------- list helpers *)
Fixpoint take_while {A} (p : A -> bool) (l : list A) : list A :=
  match l with [] => [] | x :: r => if p x then x :: take_while p r else [] end.
Fixpoint drop_while {A} (p : A -> bool) (l : list A) : list A :=
  match l with [] => [] | x :: r => if p x then drop_while p r else l end.

Fixpoint str_eqb (a b : str) : bool :=
  match a, b with
  | [], [] => true
  | x :: a', y :: b' => (code x =? code y) && str_eqb a' b'
  | _, _ => false
  end.

Definition is_nil {A} (l : list A) : bool := match l with [] => true | _ => false end.

(** str.strip() *)
Definition lstrip (s : str) : str := drop_while is_blank s.
Definition rstrip (s : str) : str := rev (drop_while is_blank (rev s)).
Definition strip (s : str) : str := rstrip (lstrip s).

(** s.split(":")  (never empty) *)
Fixpoint split_colon (s : str) : list str :=
  match s with
  | [] => [[]]
  | c :: r =>
      if is_colon c then [] :: split_colon r
      else match split_colon r with
           | h :: t => (c :: h) :: t
           | [] => [[c]]
           end
  end.

(** s.split("::")  (leftmost, non-overlapping; never empty) *)
Fixpoint split_dcolon (s : str) : list str :=
  match s with
  | [] => [[]]
  | c :: r =>
      match r with
      | c2 :: r2 =>
          if is_colon c && is_colon c2 then [] :: split_dcolon r2
          else match split_dcolon r with
               | h :: t => (c :: h) :: t
               | [] => [[c]]
               end
      | [] => [[c]]
      end
  end.

(** s.replace(",", "") *)
Definition remove_commas (s : str) : str := filter (fun c => negb (is_comma c)) s.

(** ---------------------------------------------------------------- parse_cooler_uri *)
Definition parse_cooler_uri (s : str) : option (str * str) :=
  match split_dcolon s with
  | [f] => Some (f, [c_slash])
  | [f; g] =>
      Some (f, match g with
               | c :: _ => if is_slash c then g else c_slash :: g
               | [] => c_slash :: g
               end)
  | _ => None
  end.

(** ---------------------------------------------------------------- parse_humanized *)
(** int("ddd") of a non-empty run of ASCII digits, most significant first *)
Definition digits_val (ds : str) : Z := fold_left (fun a c => 10 * a + digit_val c) ds 0.

(** int(value) for value over [0-9,.]: accepted iff every character is a digit *)
Definition parse_int (value : str) : option Z :=
  if is_nil value then None
  else if forallb is_digit value then Some (digits_val value) else None.

(** Fraction(value) for value over [0-9,.]: digits* [ "." digits* ] with at least one digit
    in front, or a dot followed by a digit; returned as (numerator, number of decimals). *)
Definition parse_fraction (value : str) : option (Z * Z) :=
  let ip := take_while is_digit value in
  match drop_while is_digit value with
  | [] => if is_nil ip then None else Some (digits_val ip, 0)
  | d :: r =>
      if is_dot d then
        let fp := take_while is_digit r in
        match drop_while is_digit r with
        | [] => if is_nil ip && is_nil fp then None
                else Some (digits_val ip * 10 ^ zlen fp + digits_val fp, zlen fp)
        | _ :: _ => None
        end
      else None
  end.

Definition u_K : str := [chr 75].
Definition u_KB : str := [chr 75; chr 66].
Definition u_M : str := [chr 77].
Definition u_MB : str := [chr 77; chr 66].
Definition u_G : str := [chr 71].
Definition u_GB : str := [chr 71; chr 66].

(** the unit table, applied to unit.upper().strip() *)
Definition unit_mult (u : str) : option Z :=
  if str_eqb u u_K || str_eqb u u_KB then Some 1000
  else if str_eqb u u_M || str_eqb u u_MB then Some 1000000
  else if str_eqb u u_G || str_eqb u u_GB then Some 1000000000
  else None.

(** _, value, unit = re.split("([0-9,.]+)", s.replace(",", ""))  needs exactly one numeric run;
    the text in front of the run is ignored by the code. *)
Definition parse_humanized (s : str) : option Z :=
  let s' := remove_commas s in
  let r := drop_while (fun c => negb (is_numch c)) s' in
  let value := take_while is_numch r in
  let unit := drop_while is_numch r in
  if is_nil value then None
  else if existsb is_numch unit then None
  else if is_nil unit then parse_int value
  else match parse_fraction value with
       | None => None
       | Some (num, k) =>
           match unit_mult (strip (map to_upper unit)) with
           | None => None
           | Some m => Some (num * m / 10 ^ k)      (* int(Fraction) of a non-negative value = floor *)
           end
       end.

(** ---------------------------------------------------------------- tokenizer *)
Inductive toktype := HYPHEN | COORD | OTHER.
Definition token := (toktype * str)%type.

(** text that is blank up to its end: "\s*(.+)" backtracks to the last character that is not a
    newline; what follows it is newlines only. *)
Fixpoint last_non_newline (ws : str) : option (ascii * str) :=
  match ws with
  | [] => None
  | c :: r =>
      match last_non_newline r with
      | Some x => Some x
      | None => if is_newline c then None else Some (c, r)
      end
  end.

(** one regex match at the current position:
      blanks HYPHEN '-'  |  blanks COORD = [0-9,]+ then optionally '.' [0-9]* , then optionally [a-z]+ (case-insensitive)
      |  blanks OTHER = one or more characters other than newline   (ordered alternation)
    returns the token and the unread rest, None when nothing matches here (then nothing matches
    further right either: the rest consists of newlines). *)
Definition match_at (s : str) : option (token * str) :=
  match drop_while is_blank s with
  | [] =>
      match last_non_newline s with
      | Some (c, rest) => Some ((OTHER, [c]), rest)
      | None => None
      end
  | c :: r' =>
      let r := c :: r' in
      if is_hyphen c then Some ((HYPHEN, [c]), r')
      else if is_digit_or_comma c then
        let ip := take_while is_digit_or_comma r in
        let r1 := drop_while is_digit_or_comma r in
        let fp := match r1 with
                  | d :: r1' => if is_dot d then d :: take_while is_digit r1' else []
                  | [] => []
                  end in
        let r2 := match r1 with
                  | d :: r1' => if is_dot d then drop_while is_digit r1' else r1
                  | [] => []
                  end in
        let al := take_while is_alpha r2 in
        let r3 := drop_while is_alpha r2 in
        Some ((COORD, ip ++ fp ++ al), r3)
      else
        Some ((OTHER, take_while (fun x => negb (is_newline x)) r),
              drop_while (fun x => negb (is_newline x)) r)
  end.

Fixpoint tokenize_fuel (n : nat) (s : str) : list token :=
  match n with
  | O => []
  | S n' =>
      match match_at s with
      | None => []
      | Some (t, rest) => t :: tokenize_fuel n' rest
      end
  end.

(** every match consumes at least one character, so this fuel is never exhausted *)
Definition tokenize (s : str) : list token := tokenize_fuel (S (length s)) s.

(** _expect: COORD HYPHEN [COORD]; tokens after the third are never requested from the generator *)
Definition expect (toks : list token) : option (Z * option Z) :=
  match toks with
  | (COORD, t1) :: rest1 =>
      match parse_humanized t1 with
      | None => None
      | Some a =>
          match rest1 with
          | (HYPHEN, _) :: rest2 =>
              match rest2 with
              | [] => Some (a, None)
              | (COORD, t2) :: _ =>
                  match parse_humanized t2 with
                  | None => None
                  | Some b => if b <? a then None else Some (a, Some b)
                  end
              | _ => None
              end
          | _ => None
          end
      end
  | _ => None
  end.

(** ---------------------------------------------------------------- parse_region_string *)
Definition region := (str * option Z * option Z)%type.

Definition parse_region_string (s : str) : option region :=
  match split_colon s with
  | [] => None
  | p0 :: rest =>
      let chrom := strip p0 in
      if is_nil chrom then None
      else match rest with
           | [] => Some (chrom, None, None)
           | p1 :: _ =>
               match expect (tokenize p1) with
               | None => None
               | Some (a, ob) => Some (chrom, Some a, ob)
               end
           end
  end.

(** ---------------------------------------------------------------- parse_region *)
Definition chromsizes := list (str * Z).

Fixpoint lookup (c : str) (cs : chromsizes) : option Z :=
  match cs with
  | [] => None
  | (n, l) :: r => if str_eqb n c then Some l else lookup c r
  end.

(** the part of parse_region after the region was obtained as a triple;
    [cs = None] models chromsizes=None *)
Definition check_region (reg : region) (cs : option chromsizes) : option (str * Z * Z) :=
  let '(chrom, ostart, oend) := reg in
  match (match cs with
         | None => Some None
         | Some t => match lookup chrom t with None => None | Some l => Some (Some l) end
         end) with
  | None => None                                       (* Unknown sequence label *)
  | Some clen =>
      let start := match ostart with None => 0 | Some a => a end in
      match (match oend with Some b => Some b | None => clen end) with
      | None => None                                   (* Cannot determine end coordinate *)
      | Some e =>
          if e <? start then None
          else if (start <? 0) || (match clen with Some l => l <? e | None => false end) then None
          else Some (chrom, start, e)
      end
  end.

Definition parse_region (s : str) (cs : option chromsizes) : option (str * Z * Z) :=
  match parse_region_string s with
  | None => None
  | Some reg => check_region reg cs
  end.

Definition parse_region_tuple (reg : region) (cs : option chromsizes) : option (str * Z * Z) :=
  check_region reg cs.

(** ---------------------------------------------------------------- formatting (used by the theorems) *)
Definition digit_char (d : Z) : ascii := chr (48 + d).

Fixpoint dec_fuel (n : nat) (z : Z) (acc : str) : str :=
  match n with
  | O => digit_char (z mod 10) :: acc
  | S n' => if z <? 10 then digit_char z :: acc
            else dec_fuel n' (z / 10) (digit_char (z mod 10) :: acc)
  end.

(** str(z) for z >= 0 *)
Definition dec (z : Z) : str := dec_fuel (Z.to_nat (Z.log2 z)) z [].

(** insert a comma before every group of three digits counted from the right: f"{z:,}" *)
Fixpoint group3_rev (ds : str) : str :=    (* ds least significant first *)
  match ds with
  | a :: b :: c :: r =>
      match r with
      | [] => ds
      | _ :: _ => a :: b :: c :: c_comma :: group3_rev r
      end
  | _ => ds
  end.
Definition dec_commas (z : Z) : str := rev (group3_rev (rev (dec z))).

Definition fmt_region (name : str) (s e : Z) : str := name ++ c_colon :: dec s ++ c_hyphen :: dec e.

(** ---------------------------------------------------------------- observables for the harness *)
Definition out_region (r : option region) : option (list Z * option Z * option Z) :=
  match r with None => None | Some (c, a, b) => Some (to_codes c, a, b) end.
Definition out_triple (r : option (str * Z * Z)) : option (list Z * Z * Z) :=
  match r with None => None | Some (c, a, b) => Some (to_codes c, a, b) end.
Definition out_uri (r : option (str * str)) : option (list Z * list Z) :=
  match r with None => None | Some (f, g) => Some (to_codes f, to_codes g) end.
Definition out_tokens (l : list token) : list (Z * list Z) :=
  map (fun t => (match fst t with HYPHEN => 0 | COORD => 1 | OTHER => 2 end, to_codes (snd t))) l.

(** coordinates only (name dropped): used for the large product streams *)
Definition out_coords (r : option region) : option (option Z * option Z) :=
  match r with None => None | Some (_, a, b) => Some (a, b) end.

(** product stream: every  name ":" start "-" end  in lexicographic order of the three lists *)
Definition region_product (names starts ends : list str) : list str :=
  flat_map (fun n => flat_map (fun a => map (fun b => n ++ c_colon :: a ++ c_hyphen :: b) ends) starts) names.

(** every string of exactly n characters over an alphabet, first character most significant
    (the order of itertools.product(alpha, repeat=n)) *)
Fixpoint strings_of_len (alpha : str) (n : nat) : list str :=
  match n with
  | O => [[]]
  | S n' => flat_map (fun c => map (cons c) (strings_of_len alpha n')) alpha
  end.

(** numerals a.fff: every a in [0,na), every fraction of exactly k digits (000 .. 999 for k = 3), in order *)
Definition digits10 : str := map digit_char (zrange 0 10).
Definition numerals (na : Z) (k : nat) : list str :=
  flat_map (fun a => map (fun f => dec a ++ c_dot :: f) (strings_of_len digits10 k)) (zrange 0 (Z.to_nat na)).

(** lossless run-length encoding of the successive differences of a result column
    (None is written as -1; results are never negative): [(delta, repeat); ...] starting from 0 *)
Definition optz_code (o : option Z) : Z := match o with None => -1 | Some v => v end.
Definition rle_add (d : Z) (acc : list (Z * Z)) : list (Z * Z) :=
  match acc with
  | (d', n) :: r => if d =? d' then (d', n + 1) :: r else (d, 1) :: acc
  | [] => [(d, 1)]
  end.
Fixpoint rle_deltas_from (prev : Z) (l : list Z) (acc : list (Z * Z)) : list (Z * Z) :=
  match l with
  | [] => rev acc
  | x :: r => rle_deltas_from x r (rle_add (x - prev) acc)
  end.
Definition rle_deltas (l : list (option Z)) : list (Z * Z) := rle_deltas_from 0 (map optz_code l) [].

(** the same observable with Coq string literals (only used on printable-ASCII alphabets: faster to print) *)
Definition out_uri_s (r : option (str * str)) : option (string * string) :=
  match r with None => None | Some (f, g) => Some (string_of_list_ascii f, string_of_list_ascii g) end.

(** the same stream for a in [a0, a0+na): lets the harness cut a long stream into pieces *)
Definition numerals_range (a0 na : Z) (k : nat) : list str :=
  flat_map (fun a => map (fun f => dec a ++ c_dot :: f) (strings_of_len digits10 k)) (zrange a0 (Z.to_nat na)).
