"""C15 random histories vs a simple dict model of {file: {path: content_id}}; report disagreements/behaviours."""
import warnings; warnings.filterwarnings("ignore")
import numpy as np, pandas as pd, cooler, h5py, os, itertools, collections, random, hashlib
from cooler import fileops
rng=random.Random(3)
cs=pd.Series({"a":30,"b":20}); bins=cooler.binnify(cs,10)
def px(k): return pd.DataFrame({"bin1_id":[0,k%4],"bin2_id":[k%5 if k%5>=0 else 0,4],"count":[k+1,2]}).sort_values(["bin1_id","bin2_id"])
def content(uri):
    c=cooler.Cooler(uri); return tuple(map(tuple,c.pixels()[:].values.tolist()))
paths=["/","/x","/x/y","/z"]
outcomes=collections.Counter(); anomalies=[]
for trial in range(150):
    for f in ("A.cool","B.cool"):
        if os.path.exists(f): os.remove(f)
    model={"A.cool":{}, "B.cool":{}}   # path -> content tuple ; ignoring links aliasing
    ops=[]
    for step in range(6):
        op=rng.choice(["create_a","create_w","cp","mv","ln","lns","cp_ow"])
        f1=rng.choice(["A.cool","B.cool"]); p1=rng.choice(paths); f2=rng.choice(["A.cool","B.cool"]); p2=rng.choice(paths)
        k=rng.randrange(20)
        try:
            if op in ("create_a","create_w"):
                df=px(k); df=df[df.bin1_id<=df.bin2_id].drop_duplicates(["bin1_id","bin2_id"])
                cooler.create_cooler(f1+"::"+p1,bins,df,mode="a" if op=="create_a" else "w"); res="ok"
            elif op=="cp": fileops.cp(f1+"::"+p1,f2+"::"+p2); res="ok"
            elif op=="cp_ow": fileops.cp(f1+"::"+p1,f2+"::"+p2,overwrite=True); res="ok"
            elif op=="mv": fileops.mv(f1+"::"+p1,f1+"::"+p2); res="ok"
            elif op=="ln": fileops.ln(f1+"::"+p1,f1+"::"+p2); res="ok"
            elif op=="lns": fileops.ln(f1+"::"+p1,f2+"::"+p2,soft=True); res="ok"
        except RecursionError: res="RecursionError"
        except Exception as e: res=type(e).__name__
        ops.append((op,f1,p1,f2,p2,res)); outcomes[(op,res)]+=1
        # after each op: listing must not crash, every listed path must be a cooler, is_cooler false elsewhere
        for f in ("A.cool","B.cool"):
            if not os.path.exists(f) or not h5py.is_hdf5(f): continue
            try: lst=fileops.list_coolers(f)
            except RecursionError: anomalies.append(("list RecursionError",tuple(ops))); break
            except Exception as e: anomalies.append(("list "+type(e).__name__+" "+str(e)[:40],tuple(ops))); break
            for p in lst:
                try:
                    if not fileops.is_cooler(f+"::"+p): anomalies.append(("listed-not-cooler",p,tuple(ops)))
                except Exception as e: anomalies.append(("is_cooler exc on listed "+type(e).__name__,p,tuple(ops)))
            for p in paths:
                try: ic=fileops.is_cooler(f+"::"+p)
                except Exception as e: ic="EXC "+type(e).__name__
                if ic is True and p not in lst: anomalies.append(("cooler-not-listed",f,p,tuple(lst),tuple(ops)))
print(sorted(outcomes.items()))
seen=set()
for a in anomalies:
    key=a[0]
    if key in seen: continue
    seen.add(key); print("ANOMALY",a)
print("anomaly kinds",collections.Counter(a[0] for a in anomalies))
