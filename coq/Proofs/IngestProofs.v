(** Proofs for C05: each valid input record is counted once, in the pixel that contains it. *)
From Cooler Require Import Model.Ingest Proofs.BinsProofs Proofs.ExtentProofs Proofs.PixelsProofs.
From Coq Require Import ZifyBool Sorted Permutation.
Ltac Zify.zify_post_hook ::= Z.to_euclidean_division_equations.

(* ------------------------------------------------------------ bin assignment = lower end of the extent *)
Lemma ss_right_shift a l p : searchsorted_right (map (Z.add a) l) (a + p) = searchsorted_right l p.
Proof.
  induction l as [|y l IH]; [reflexivity|]. cbn [map searchsorted_right]. rewrite IH.
  destruct (a + y <=? a + p) eqn:E1, (y <=? p) eqn:E2; lia.
Qed.

Lemma slice_map {A B} (f : A -> B) l lo hi : slice (map f l) lo hi = map f (slice l lo hi).
Proof. unfold slice. now rewrite skipn_map, firstn_map. Qed.

Lemma assign_var_extent blocks i blk p e :
  ValidBlocks blocks -> nth_error blocks i = Some blk ->
  assign_var blocks (Z.of_nat i) p = fst (region_to_extent_var blocks i p e).
Proof.
  intros HV Hi. rewrite (var_unfold blocks i blk Hi). cbn [fst]. unfold assign_var, chrom_binoffset, start_abspos.
  replace (Z.to_nat (Z.of_nat i + 1)) with (S i) by lia. rewrite Nat2Z.id.
  rewrite slice_map, (slice_chrom _ _ _ Hi).
  destruct (HV i blk Hi) as [_ HT].
  rewrite (map_ext_in _ (fun x => chrom_abspos blocks (Z.of_nat i) + bstart x)).
  2:{ intros x Hx. now rewrite (tiled_chrom _ _ _ _ HT Hx). }
  rewrite <- (map_map bstart (Z.add (chrom_abspos blocks (Z.of_nat i)))), ss_right_shift. lia.
Qed.

Lemma assign_extent blocks i blk p e :
  ValidBlocks blocks -> nth_error blocks i = Some blk ->
  assign blocks (Z.of_nat i) p = fst (region_to_extent blocks i p e).
Proof.
  intros HV Hi. unfold assign, assign_bs, gs_binsize, region_to_extent.
  destruct (get_binsize (table blocks)) as [b|].
  - unfold assign_fixed, region_to_extent_fixed, chrom_binoffset. now rewrite Nat2Z.id.
  - now apply assign_var_extent with (blk := blk).
Qed.

(** an in-range anchor is assigned the bin of its own chromosome that contains it *)
Theorem assign_contains blocks i blk p :
  ValidBlocks blocks -> nth_error blocks i = Some blk -> 0 <= p < chrom_len blk ->
  exists x, nth_error (table blocks) (Z.to_nat (assign blocks (Z.of_nat i) p)) = Some x /\
            bchrom x = Z.of_nat i /\ bstart x <= p < bend x /\
            chrom_offset blocks i <= assign blocks (Z.of_nat i) p < chrom_offset blocks (S i).
Proof.
  intros HV Hi Hp. rewrite (assign_extent blocks i blk p (p + 1) HV Hi).
  pose proof (extent_overlap blocks i blk p (p + 1) HV Hi ltac:(lia) ltac:(lia)) as H.
  destruct (region_to_extent blocks i p (p + 1)) as [lo hi]. cbn [fst]. destruct H as (Hiff & Hlo & Hhi).
  pose proof (chrom_offset_nonneg blocks i) as Hoff.
  destruct (proj1 (Hiff (Z.to_nat lo)) ltac:(lia)) as (x & Hx & Hc & H1 & H2).
  exists x. repeat split; auto; lia.
Qed.

Lemma contains_b_spec blocks c p k :
  contains_b blocks c p k = true <->
  0 <= k /\ exists x, nth_error (table blocks) (Z.to_nat k) = Some x /\ bchrom x = c /\ bstart x <= p < bend x.
Proof.
  unfold contains_b. destruct (nth_error (table blocks) (Z.to_nat k)) as [x|].
  - split.
    + intros H. split; [lia|]. exists x. repeat split; lia.
    + intros (Hk & x' & Hx & Hc & Hp). injection Hx as <-. lia.
  - split; [discriminate|]. intros (_ & x & Hx & _). discriminate.
Qed.

(* ------------------------------------------------------------ phases = record by record *)
Definition is_raise (ta : tril_action) : bool := match ta with TrilRaise => true | _ => false end.

Definition tril_phase (ta : tril_action) (rows : list wrow) : list wrow :=
  match ta with
  | TrilReflect => map (fun w => if is_tril w then swap_w w else w) rows
  | TrilDrop => filter (fun w => negb (is_tril w)) rows
  | _ => rows
  end.

Section Fusion.
  Variable blocks : list (list bin).
  Variables (one_based validate : bool) (ta : tril_action).
  Let bs := gs_binsize blocks.
  Let f := sanitize1 blocks one_based validate ta.
  Let rows (chunk : list record) := map (to_wrow one_based) (filter known chunk).

  Lemma err_fusion chunk :
    existsb is_err (map f chunk) =
    (validate && existsb is_neg (rows chunk)) || (validate && existsb (is_excess blocks) (rows chunk))
    || (is_raise ta && existsb is_tril (rows chunk)).
  Proof.
    unfold rows. induction chunk as [|r chunk IH]; [cbn; now rewrite !andb_false_r|].
    cbn [map existsb filter]. rewrite IH. clear IH. unfold f, sanitize1, sanitize1_bs.
    destruct (known r); cbn [negb map existsb].
    - generalize (existsb is_neg (map (to_wrow one_based) (filter known chunk))); intro e1.
      generalize (existsb (is_excess blocks) (map (to_wrow one_based) (filter known chunk))); intro e2.
      generalize (existsb is_tril (map (to_wrow one_based) (filter known chunk))); intro e3.
      generalize (assign_w (gs_binsize blocks) blocks (to_wrow one_based r)); intro o1.
      generalize (assign_w (gs_binsize blocks) blocks (swap_w (to_wrow one_based r))); intro o2.
      destruct (is_neg (to_wrow one_based r)), (is_excess blocks (to_wrow one_based r)),
        (is_tril (to_wrow one_based r)), validate, ta, e1, e2, e3; reflexivity.
    - reflexivity.
  Qed.

  Lemma keep_fusion chunk : existsb is_err (map f chunk) = false ->
    flat_map kept (map f chunk) = map (assign_w bs blocks) (tril_phase ta (rows chunk)).
  Proof.
    unfold rows. induction chunk as [|r chunk IH]; [destruct ta; reflexivity|].
    cbn [map existsb filter flat_map]. intros H. apply orb_false_elim in H as [Hr H]. specialize (IH H).
    rewrite IH. clear IH H.
    assert (Hf : f r = sanitize1_bs bs blocks one_based validate ta r) by reflexivity.
    rewrite Hf in *. clear Hf. unfold sanitize1_bs in *.
    destruct (known r); cbn [negb] in *; [|reflexivity].
    cbn [map].
    destruct (validate && (is_neg (to_wrow one_based r) || is_excess blocks (to_wrow one_based r))); [discriminate|].
    destruct (is_tril (to_wrow one_based r)) eqn:Et; destruct ta;
      cbn [is_err kept app tril_phase map filter] in *; rewrite ?Et; cbn [negb]; try discriminate; reflexivity.
  Qed.

  (** the chunk-level function is a per-record map/filter: every record is judged on its own *)
  Theorem sanitize_is_map_filter chunk :
    sanitize_records blocks one_based validate ta chunk = collect (map f chunk).
  Proof.
    unfold collect. pose proof (err_fusion chunk) as He. pose proof (keep_fusion chunk) as Hk.
    unfold sanitize_records. fold bs. fold (rows chunk).
    destruct (existsb is_err (map f chunk)).
    - destruct (validate && existsb is_neg (rows chunk)); [reflexivity|].
      destruct (validate && existsb (is_excess blocks) (rows chunk)); [reflexivity|].
      cbn [orb] in He. destruct ta; cbn [is_raise andb] in He; try discriminate.
      now rewrite <- He.
    - symmetry in He. apply orb_false_elim in He as [He He3]. apply orb_false_elim in He as [He1 He2].
      rewrite He1, He2, (Hk eq_refl).
      destruct ta; cbn [tril_phase is_raise andb] in *; try reflexivity. now rewrite He3.
  Qed.
End Fusion.
