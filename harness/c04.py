"""C04 — genomic ranges map to exactly the bins that cover them.

Correspondence: Cooler.extent / Cooler.offset / bins().fetch / pixels().fetch / matrix().fetch (one and two
regions) / util.GenomeSegmentation.fetch / util.bedslice on real .cool files, against the Gallina model
coq/Model/Extent.v (region_to_extent fixed + variable path, parse_region bounds, bedslice), on every bin
table of a small scope x every (chrom, start, end), plus seeded random larger tables and malformed regions.
Property oracle (independent of the code under test): direct overlap computation on the bin frame and a
dense symmetric matrix built by the harness from the pixel list.
"""
from __future__ import annotations

import os

import numpy as np
import pandas as pd

import coqio as C
from gen_bins import blocks_from_widths, compositions, names_for, random_blocks, table_from_blocks

PROP = "C04"
RULE = ("tables: every composition table with 1 chromosome of length <=7 and 2 chromosomes of length <=4 (quick; <=8 / <=5 thorough), "
        "the corpus (longer/shorter last bin, one-bin chromosomes, 3 chromosomes) and seeded random tables (families uniform/short last/"
        "LONGER last/one-bin/variable, widths up to 2^30); regions: every (chrom, s, e) with 0<=s<=e<=L on the small tables, edge+-1 "
        "positions on the large ones, each as tuple and (rotating) as UCSC string / bare name / open end / numpy ints, plus malformed "
        "regions (-1, L+1, e<s, unknown name); every region goes through Cooler.extent, a seeded share also through offset, bins().fetch (with an extra bin column), "
        "pixels().fetch (plain / join=True), matrix(balance=False).fetch dense / sparse / as_pixels with 1 and 2 regions, GenomeSegmentation.fetch and bedslice; "
        "corpus tables alternate dense and very sparse pixel sets (chromosomes without pixels). Region STRINGS in every accepted spelling: plain, thousands "
        "separators, unit suffixes k/kb/M/Mb/G/Gb in any case with 0-6 decimals (exact decimal spelling computed by the harness), open end, whole chromosome, "
        "on every bin edge of fixed-width tables (10 x 260, 100 x 120, 1000 x 120) and of variable-width sweep tables whose edges are drawn from all 2-/3-decimal "
        "mantissas x units (half from the mantissas where binary float scaling is inexact); string regions also go through `cooler dump -r/-r2`. "
        "HISTORIES in one process: families of coolers with the same bin size but different chromosome tables as groups of one file (alternating / blockwise / reversed), "
        "and one collection path re-created along fixed(b1) -> variable -> fixed(b2) -> variable (all four transitions, also same-kind) with every way the API offers "
        "(create_cooler mode w, mode a at the root, mode a at a nested group, `cooler load --append`), every entry plus Cooler.binsize / info bin-size / bin-type "
        "checked against the table stored NOW; OBJECT history: one Cooler object queried, then cooler.rename_chroms on that same object "
        "(fresh names / swap / cyclic shift), then queried again by the new names and compared with the model, the oracle and a freshly opened Cooler. One evaluation = one API call compared with the model. "
        "non-trivial = valid region that is not the whole chromosome, on a chromosome with >=2 bins or a table with >=2 chromosomes; "
        "distinct by (table, region, spelling, api)")
TRUSTED = ["h5py dataset slicing and pandas iloc are observed through the public fetch API, not modelled separately",
           "indexes/chrom_offset and indexes/bin1_offset are modelled by their contract (bins before chromosome c / pixels with bin1 < k); "
           "their construction is property C02"]
# standard-library axioms behind Coq's classical real numbers (used only by the binary64 division theorem, via Flocq)
ALLOW_AXIOMS = ("ClassicalDedekindReals.sig_not_dec", "ClassicalDedekindReals.sig_forall_dec",
                "FunctionalExtensionality.functional_extensionality_dep", "Classical_Prop.classic")
ASSUMPTIONS = ["numpy float64 true division is the correctly rounded IEEE-754 binary64 quotient (then C04_binary64_fixed_extent_exact PROVES that "
               "int(np.floor(start / binsize)) and int(np.ceil(end / binsize)) are the exact floor/ceil divisions for operands < 2^53; exercised up to 2^31-1)"]
RESIDUE = ["float division in the fixed-width path: exactness below 2^53 is a theorem (Flocq); operands >= 2^53 are outside the claim",
           "the 2D query that matrix().fetch performs on the two extents is property C03; here only the bounding box is modelled "
           "(the dense result is still checked against the harness' own symmetric matrix)",
           "region string tokenising is property C19; the model receives the tokenised triple"]

EXC = {"ValueError": "ValueError", "KeyError": "KeyError", "IndexError": "IndexError", "OSError": "OSError", "TypeError": "TypeError"}


def call(f):
    try:
        return ("ok", f())
    except Exception as e:  # noqa: BLE001 - the kind of failure is the observable
        for k in EXC:
            if type(e).__name__ == k or any(b.__name__ == k for b in type(e).__mro__):
                return (k, None)
        return (type(e).__name__, None)


# ------------------------------------------------------------------ inputs
def make_px(rng, n, dense):
    """upper-triangular pixel list (sorted), every value unique"""
    px = []
    v = 1
    band = 5 if n > 60 else n          # large tables: pixels near the diagonal only, so that short regions still select some
    for i in range(n):
        for j in range(i, min(n, i + band)):
            if rng.random() < dense:
                px.append((i, j, v))
            v += 1
    if not px:
        px = [(0, 0, 1)]
    return px


UNIT_SCALE = {"k": 10 ** 3, "m": 10 ** 6, "g": 10 ** 9}
UNITS = ["kb", "k", "Kb", "KB", "K", "kB", "Mb", "M", "mb", "MB", "m", "Gb", "G", "gb", "GB", "g"]


def humanize(v, unit, dec, comma=False):
    """exact decimal spelling of the integer v with a unit suffix and `dec` decimals (3.21kb, 0.004Mb, 1,234.50kb);
    None when v is not representable that way.  Pure integer arithmetic: nothing here parses or rounds."""
    scale = UNIT_SCALE[unit[0].lower()]
    if v is None or v < 0 or (v * 10 ** dec) % scale:
        return None
    m = v * 10 ** dec // scale
    ip, fp = divmod(m, 10 ** dec)
    ips = f"{ip:,}" if comma else str(ip)
    return f"{ips}{unit}" if dec == 0 else f"{ips}.{fp:0{dec}d}{unit}"


def is_string_how(how):
    return how in ("str", "strc") or how.startswith("u|")


def spell(names, reg):
    """region descriptor (c, s, e, how) -> the object handed to the API"""
    c, s, e, how = reg
    name = names[c] if 0 <= c < len(names) else "nope"
    if how.startswith("u|"):          # "u|<unit>|<decimals>|<comma 0/1>": unit-suffixed UCSC string; a coordinate that is not representable stays plain
        _, unit, dec, comma = how.split("|")
        ss = humanize(s, unit, int(dec), comma == "1") or str(s)
        if e is None:
            return f"{name}:{ss}-"
        return f"{name}:{ss}-{humanize(e, unit, int(dec), comma == '1') or str(e)}"
    if how == "tuple":
        return (name, s, e)
    if how == "np":
        return (name, None if s is None else np.int64(s), None if e is None else np.int32(e))
    if how == "list":
        return [name, s, e]
    if how == "str":
        if s is None and e is None:
            return name
        if e is None:
            return f"{name}:{s}-"
        return f"{name}:{s}-{e}"
    if how == "strc":   # thousands separators
        return f"{name}:{s:,}-{e:,}"
    raise AssertionError(how)


def regions_small(rng, blocks, alt):
    """every (c, s, e) with 0<=s<=e<=L, as tuple; for a share `alt` a rotating second spelling; open ends; malformed"""
    regs = []
    rot = 0
    for c, blk in enumerate(blocks):
        L = blk[-1][2]
        for s in range(L + 1):
            for e in range(s, L + 1):
                regs.append((c, s, e, "tuple"))
                if rng.random() < alt:
                    rot += 1
                    regs.append((c, s, e, ("str", "np", "strc", "list")[rot % 4]))
            regs.append((c, s, None, "str" if s % 2 else "tuple"))
            regs.append((c, None, s, "tuple"))
        regs.append((c, None, None, "str"))
        regs.append((c, None, None, "tuple"))
        # malformed
        regs += [(c, -1, L, "tuple"), (c, 0, L + 1, "tuple"), (c, L + 1, L + 1, "str"), (c, L, L - 1, "tuple"),
                 (c, None, L + 1, "tuple"), (c, L + 1, None, "str")]
    regs += [(len(blocks), 0, 1, "tuple"), (len(blocks), None, None, "str")]
    return regs


def regions_large(rng, blocks, n):
    regs = []
    for c, blk in enumerate(blocks):
        L = blk[-1][2]
        pts = {0, 1, L - 1, L}
        for (_, bs, be) in blk:
            pts |= {bs - 1, bs, bs + 1, be - 1, be, be + 1}
        pts = sorted(p for p in pts if 0 <= p <= L)
        for _ in range(n):
            s = rng.choice(pts)
            e = rng.choice([p for p in pts if p >= s])
            regs.append((c, s, e, rng.choice(["tuple", "str", "np", "strc"])))
        regs += [(c, None, None, "str"), (c, L, L, "tuple"), (c, 0, 0, "tuple"), (c, 0, L + 1, "tuple"), (c, rng.choice(pts), None, "str")]
    return regs


def unit_region(rng, k, c, blk, v, L):
    """one region with bin edge v as an end point, spelled with a rotating unit / decimals / comma choice"""
    unit = UNITS[k % len(UNITS)]
    decs = [d for d in (2, 3, 2, 3, 1, 4, 0, 6) if humanize(v, unit, d) is not None]
    if not decs:
        unit = ("kb", "Kb", "k", "K")[k % 4]
        decs = [3]
    dec = decs[k % len(decs)] if k % 3 else decs[0]
    how = f"u|{unit}|{dec}|{1 if k % 7 == 0 else 0}"
    starts = [b[1] for b in blk]
    nxt = [s_ for s_ in starts if s_ > v] + [L]
    prv = [s_ for s_ in starts if s_ < v]
    shape = k % 6
    if shape == 0 and v < L:
        r = (c, v, None)                                    # open end
    elif shape == 1 and prv:
        r = (c, prv[-1], v)                                 # the edge as region end
    elif shape == 2:
        r = (c, v, v)                                       # empty range on the edge
    elif shape == 3 and len(nxt) > 1:
        r = (c, v, nxt[1])                                  # two bins
    else:
        r = (c, v, nxt[0]) if v < L else (c, prv[-1] if prv else 0, v)
    return r + (how,)


def unit_jobs(rng, thorough):
    """region STRINGS with unit suffixes whose coordinates are bin edges.
    (a) fixed-width tables (widths 10 / 100 / 1000, long chromosomes): every edge (a sample of the wider ones in the quick tier);
    (b) variable-width sweep tables whose edges are drawn from the universe of all 2- and 3-decimal mantissas x k/M/G,
        half of them from the mantissas on which binary floating-point scaling and exact scaling differ."""
    jobs = []
    k = 0
    fixed = [([[10] * 260, [10] * 4 + [7]], 110), ([[100] * 120 + [60], [100] * 2], 50), ([[1000] * 120, [1000] * 2 + [400]], 50)]

    def float_trap(v):
        """some unit spelling of v with 2 or 3 decimals on which binary floating-point scaling is not exact"""
        for u, scale in (("k", 10 ** 3), ("M", 10 ** 6)):
            for dec in (2, 3):
                s_ = humanize(v, u, dec)
                if s_ is not None and int(float(s_[:-1]) * scale) != v:
                    return True
        return False
    for widths, nsample in fixed:
        blocks = blocks_from_widths(widths)
        allregs = []
        for c, blk in enumerate(blocks):
            L = blk[-1][2]
            edges = sorted({0, L} | {b[1] for b in blk})
            if nsample and not thorough and len(edges) > nsample:
                edges = sorted(set(rng.sample(edges, nsample)) | {v for v in edges if float_trap(v)})
            for v in edges:
                k += 1
                r = unit_region(rng, k, c, blk, v, L)
                allregs.append(r)
                if k % 4 == 0:
                    allregs.append(r[:3] + ("tuple",))
            allregs += [(c, None, None, "str"), (c, 0, L + 1000, "u|kb|3|0")]
        for a in range(0, len(allregs), 70):          # several jobs per table: the model evaluation parallelises per job
            jobs.append((widths, allregs[a:a + 70], 0.25 if thorough else 0.12, "units"))
    # (b) sweep tables
    universe, traps = [], []
    for dec in (2, 3):
        for u, scale in (("k", 10 ** 3), ("M", 10 ** 6), ("G", 10 ** 9)):
            for m in range(1, 10 ** 5, 1 if thorough else 7):
                if (m * scale) % 10 ** dec:
                    continue
                v = m * scale // 10 ** dec
                if v >= 2 ** 31 - 2:
                    break
                universe.append(v)
                if int(float(f"{m // 10 ** dec}.{m % 10 ** dec:0{dec}d}") * scale) != v:     # binary scaling differs from exact scaling
                    traps.append(v)
    for _ in range(60 if thorough else 20):
        cs = []
        for _c in range(rng.choice([1, 1, 2])):
            top = rng.choice([10 ** 4, 10 ** 5, 10 ** 7, 2 ** 31 - 2])
            pool_t = [v for v in traps if v < top]
            pool_u = [v for v in universe if v < top]
            edges = sorted(set(rng.sample(pool_t, min(len(pool_t), 14)) + rng.sample(pool_u, min(len(pool_u), 14))))
            cs.append([b_ - a_ for a_, b_ in zip([0] + edges[:-1], edges)] + [rng.choice([1, 10, 1000])])
        blocks = blocks_from_widths(cs)
        regs = []
        for c, blk in enumerate(blocks):
            L = blk[-1][2]
            for v in sorted({b[1] for b in blk} | {L}):
                k += 1
                r = unit_region(rng, k, c, blk, v, L)
                regs.append(r)
                if k % 4 == 0:
                    regs.append(r[:3] + ("tuple",))
            regs.append((c, None, None, "str"))
        jobs.append((cs, regs, 0.3 if thorough else 0.15, "units"))
    return jobs


def small_tables(thorough):
    m1, m2 = (8, 5) if thorough else (7, 4)
    comps = {L: compositions(L) for L in range(1, m1 + 1)}
    tabs = []
    for L in range(1, m1 + 1):
        for cp in comps[L]:
            tabs.append([cp])
    for L1 in range(1, m2 + 1):
        for L2 in range(1, m2 + 1):
            for c1 in comps[L1]:
                for c2 in comps[L2]:
                    tabs.append([c1, c2])
    return tabs


CORPUS = [
    [[10, 10, 15]], [[7, 23]], [[10, 10], [35]], [[5, 5, 5], [5, 9]],        # D1 (repaired): longer last bin
    [[10, 10, 10], [10, 10, 3], [10]], [[4, 4, 1], [4], [4, 4]], [[3], [3], [2]], [[1], [1, 1], [1]],
    [[3, 3, 2], [4, 4], [5]], [[6, 6, 6, 6], [2, 9, 1]], [[5, 5], [5, 5, 5], [5]],
]


# ------------------------------------------------------------------ oracle
def flat(blocks):
    return [b for blk in blocks for b in blk]


def overlap_ids(blocks, c, s, e):
    """the property, read directly: bins of chromosome c with start < e and end > s"""
    return [k for k, (cc, bs, be) in enumerate(flat(blocks)) if cc == c and bs < e and be > s]


def containing_ids(blocks, c, s):
    """closed reading for an empty range: bins of c with start <= s <= end"""
    return [k for k, (cc, bs, be) in enumerate(flat(blocks)) if cc == c and bs <= s <= be]


def resolve(blocks, reg):
    """independent reading of the region conventions: None start = 0, None end = L; None if not within bounds"""
    c, s, e, _ = reg
    if not (0 <= c < len(blocks)):
        return None
    L = blocks[c][-1][2]
    s = 0 if s is None else int(s)
    e = L if e is None else int(e)
    if not (0 <= s <= e <= L):
        return None
    return c, s, e


def oracle_ids(blocks, reg, ids):
    """ids = list of selected bin ids (consecutive run reported by the implementation). True = property holds"""
    r = resolve(blocks, reg)
    if r is None:
        return True   # outside the quantifier of the property
    c, s, e = r
    if s < e:
        return ids == overlap_ids(blocks, c, s, e) and len(ids) >= 1
    ok = containing_ids(blocks, c, s)
    return len(ids) == 0 or (len(ids) == 1 and ids[0] in ok)


def dense_full(n, px):
    m = np.zeros((n, n), dtype=np.int64)
    for i, j, v in px:
        m[i, j] += v
        if i != j:
            m[j, i] += v
    return m


# ------------------------------------------------------------------ implementation side
class Table:
    def __init__(self, tmpdir, k, widths, px, uri=None, mode="w", via_cli=False):
        import cooler
        from cooler.util import GenomeSegmentation
        self.widths = widths
        self.blocks = blocks_from_widths(widths)
        self.names = names_for(len(widths))
        self.px = px
        self.n = sum(len(w) for w in widths)
        d = os.path.join(str(tmpdir), "cool")
        os.makedirs(d, exist_ok=True)
        self.uri = uri or os.path.join(d, f"t{k}.cool")
        self.df = table_from_blocks(self.blocks)
        self.df["tag"] = np.arange(len(self.df), dtype=np.int64) * 7 + 1       # an extra bin column must come back with its own rows
        pdf = pd.DataFrame({"bin1_id": [p[0] for p in px], "bin2_id": [p[1] for p in px], "count": [p[2] for p in px]})
        self.has_tag = not via_cli
        if via_cli:        # `cooler load -f coo --append BINS.bed PIXELS.txt URI`: re-creation through the command line
            from click.testing import CliRunner
            from cooler.cli import cli
            bed, coo = os.path.join(d, f"cli{k}.bed"), os.path.join(d, f"cli{k}.coo")
            with open(bed, "w") as f:
                for blk in self.blocks:
                    for (c, s, e) in blk:
                        f.write(f"{self.names[c]}\t{s}\t{e}\n")
            with open(coo, "w") as f:
                for (a, b_, v) in px:
                    f.write(f"{a}\t{b_}\t{v}\n")
            res = CliRunner().invoke(cli, ["load", "-f", "coo"] + (["--append"] if mode == "a" else []) + [bed, coo, self.uri])
            if res.exit_code != 0:
                raise RuntimeError(f"cooler load failed: {res.exception!r}")
        else:
            cooler.create_cooler(self.uri, self.df, pdf, mode=mode)
        self.clr = cooler.Cooler(self.uri)
        self.gs = GenomeSegmentation(self.clr.chromsizes, self.df[["chrom", "start", "end"]])
        self.grouped = self.df[["chrom", "start", "end"]].groupby("chrom", observed=True)
        fl = [b for blk in self.blocks for b in blk]
        self.binid = {(self.names[c], s): k for k, (c, s, e) in enumerate(fl)}

    def close(self):
        path = self.uri.split("::")[0]
        if os.path.exists(path):
            os.remove(path)

    def bins_rows(self, df):
        return [[int(i), self.names.index(str(c)), int(s), int(e)] for i, c, s, e in zip(df.index, df["chrom"].astype(str), df["start"], df["end"])]


def run_api(T, api, reg, reg2=None):
    """api may carry a call form after a colon: matrix:sparse, matrix2:sparse, pixels:join"""
    from cooler.util import bedslice
    api, _, form = api.partition(":")
    r = spell(T.names, reg)
    if api == "extent":
        st, v = call(lambda: T.clr.extent(r))
        return st if st != "ok" else [int(v[0]), int(v[1])]
    if api == "offset":
        st, v = call(lambda: T.clr.offset(r))
        return st if st != "ok" else int(v)
    if api == "bins":
        st, v = call(lambda: T.clr.bins().fetch(r))
        if st != "ok":
            return st
        if T.has_tag and ("tag" not in v.columns or any(int(tg) != 7 * int(i) + 1 for i, tg in zip(v.index, v["tag"]))):
            return "extra bin column does not belong to the returned rows"
        return T.bins_rows(v)
    if api == "pixels":
        if form == "join":
            st, v = call(lambda: T.clr.pixels(join=True).fetch(r))
            if st != "ok":
                return st
            return [[T.binid[(str(c1), int(s1))], T.binid[(str(c2), int(s2))], int(c)]
                    for c1, s1, c2, s2, c in zip(v["chrom1"], v["start1"], v["chrom2"], v["start2"], v["count"])]
        st, v = call(lambda: T.clr.pixels().fetch(r))
        return st if st != "ok" else [[int(a), int(b_), int(c)] for a, b_, c in zip(v["bin1_id"], v["bin2_id"], v["count"])]
    if api in ("matrix", "matrix2"):
        sel = T.clr.matrix(balance=False, sparse=(form == "sparse"))
        if reg2 is None:
            st, v = call(lambda: sel.fetch(r))
        else:
            r2 = spell(T.names, reg2)
            st, v = call(lambda: sel.fetch(r, r2))
        if st != "ok":
            return st
        a = np.asarray(v.toarray() if form == "sparse" else v)
        return a.astype(np.int64).tolist() + [list(a.shape)]
    if api in ("mpixels", "mpixels2"):
        sel = T.clr.matrix(balance=False, as_pixels=True)
        if reg2 is None:
            st, v = call(lambda: sel.fetch(r))
        else:
            r2 = spell(T.names, reg2)
            st, v = call(lambda: sel.fetch(r, r2))
        return st if st != "ok" else [[int(a), int(b_), int(c)] for a, b_, c in zip(v["bin1_id"], v["bin2_id"], v["count"])]
    if api in ("dump", "dump2"):         # cooler dump -r REGION [-r2 REGION2]  (region strings only)
        from click.testing import CliRunner
        from cooler.cli import cli
        args = ["dump", "-r", r] + (["-r2", spell(T.names, reg2)] if reg2 is not None else []) + [T.uri]
        res = CliRunner().invoke(cli, args)
        if res.exit_code != 0:
            st, _ = call(lambda: (_ for _ in ()).throw(res.exception)) if isinstance(res.exception, Exception) else ("exit", None)
            return st
        return [[int(x) for x in ln.split("\t")] for ln in res.output.strip().splitlines() if ln]
    if api == "segfetch":
        st, v = call(lambda: T.gs.fetch(r))
        return st if st != "ok" else T.bins_rows(v)
    if api == "bedslice":
        st, v = call(lambda: bedslice(T.grouped, T.clr.chromsizes, r))
        return st if st != "ok" else T.bins_rows(v)
    raise AssertionError(api)


def table_worker(job):
    """runs in a worker process: create the cooler, run every planned API call, return the canonical results"""
    tmpdir, k, widths, px, calls = job
    import signal

    def _alarm(*_):
        raise TimeoutError("per-table wall-clock limit")
    signal.signal(signal.SIGALRM, _alarm)
    signal.alarm(120)
    try:
        T = Table(tmpdir, k, widths, px)
        fixed = T.clr.binsize is not None
        out = [run_api(T, api, reg, reg2) for (api, reg, reg2) in calls]
        T.close()
        return ("ok", fixed, out)
    except TimeoutError:
        return ("timeout", None, None)
    except Exception as e:  # noqa: BLE001
        return ("crash:" + type(e).__name__ + ":" + str(e)[:200], None, None)
    finally:
        signal.alarm(0)


# ------------------------------------------------------------------ histories: several coolers queried in ONE process
def family_tables(rng, kind, size=3):
    """bin tables that share the reported bin size (kind 'fixed') or are all variable-width (kind 'variable') but differ in the
    number / lengths / order of their chromosomes, i.e. in indexes/chrom_offset"""
    fam, seen = [], set()
    b = rng.choice([1, 2, 5, 10])
    while len(fam) < size:
        nc = rng.choice([2, 3])
        if kind == "fixed":
            widths = [[b] * rng.randint(1, 4) + ([rng.randint(1, b)] if rng.random() < 0.6 else []) for _ in range(nc)]
            widths[rng.randrange(nc)] = [b] * rng.randint(2, 4) + [rng.randint(1, b)]          # some chromosome shows the size
        else:
            widths = [[rng.randint(1, 6) for _ in range(rng.randint(1, 4))] for _ in range(nc)]
            widths[rng.randrange(nc)] = [3, 5, 2][: rng.choice([3, 3, 2])] + [rng.randint(1, 4)]   # two different non-last widths
            if widths[-1][:2] == [3, 5] and len(widths[-1]) < 3:
                widths[-1].append(1)
        offs = tuple(len(w) for w in widths)
        if offs in seen:
            continue
        seen.add(offs)
        fam.append(widths)
    return fam


def family_mixed(rng):
    """fixed (b1), variable, fixed (b2 != b1), variable: re-creating one path along this family walks through all of
    fixed->variable, variable->fixed, fixed->fixed (other size), variable->variable"""
    f1 = family_tables(rng, "fixed", 1)[0]
    f2 = family_tables(rng, "fixed", 1)[0]
    b1 = oracle_binsize(f1)
    for _ in range(50):
        if oracle_binsize(f2) not in (None, b1):
            break
        f2 = family_tables(rng, "fixed", 1)[0]
    v = family_tables(rng, "variable", 2)
    return [f1, v[0], f2, v[1]]


def history_tables(hist):
    """the per-table plans of a history, a pure function of its description (so that a replay rebuilds the same history)"""
    import random
    r = random.Random(hist["hseed"])
    out = []
    for widths in hist["family"]:
        blocks = blocks_from_widths(widths)
        n = sum(len(w) for w in widths)
        regs = regions_large(r, blocks, 3)
        pxseed = r.randrange(1 << 30)
        dense = 0.6 if n <= 12 else 0.25
        px = make_px(random.Random(pxseed), n, dense)
        fidx = list(range(len(regs)))
        pairs = [(regs[i], regs[r.randrange(len(regs))]) for i in fidx if r.random() < 0.4]
        calls = [("extent", reg, None) for reg in regs]
        calls += [(api, regs[i], None) for i in fidx for api in fetch_calls(i, regs[i])]
        calls += [(pair_api(k, ra, rb), ra, rb) for k, (ra, rb) in enumerate(pairs)]
        out.append((widths, pxseed, px, regs, fidx, pairs, "history:" + hist["mode"] + ":" + hist["order"], calls, dense))
    return out


def oracle_binsize(widths):
    """independent reading of 'fixed bin size b': every bin but the last of each chromosome has width b, no last bin is wider,
    and at least one chromosome shows the width"""
    inner = {w for ws in widths for w in ws[:-1]}
    if len(inner) != 1:
        return None
    b = next(iter(inner))
    return b if all(ws[-1] <= b for ws in widths) else None


def reported_binsize(T):
    info = T.clr.info
    bs = T.clr.binsize
    ib = info.get("bin-size")
    return [None if bs is None else int(bs), None if ib in (None, "null") else int(ib), info.get("bin-type")]


def history_worker(job):
    """ONE process, several coolers: (groups) the tables of a family stored as groups of one file and queried alternately /
    blockwise / in reverse; (overwrite) one path re-created with one table after the other and queried after each overwrite,
    always through fresh Cooler objects.  Returns the canonical results per table, in each table's own call order."""
    tmpdir, k, hist = job
    import signal
    import cooler

    def _alarm(*_):
        raise TimeoutError("per-history wall-clock limit")
    signal.signal(signal.SIGALRM, _alarm)
    signal.alarm(240)
    tabs = history_tables(hist)
    nt = len(tabs)
    outs = [[None] * len(tb[7]) for tb in tabs]
    fixed = [None] * nt
    d = os.path.join(str(tmpdir), "cool")
    os.makedirs(d, exist_ok=True)
    try:
        if hist["mode"] == "groups":
            path = os.path.join(d, f"h{k}.cool")
            Ts = [Table(tmpdir, k, tb[0], tb[2], uri=f"{path}::/g{i}", mode=("a" if i else "w")) for i, tb in enumerate(tabs)]
            for i, T in enumerate(Ts):
                fixed[i] = T.clr.binsize is not None
            if hist["order"] == "alternate":
                m = max(len(tb[7]) for tb in tabs)
                sched = [(i, c) for c in range(m) for i in range(nt) if c < len(tabs[i][7])]
            elif hist["order"] == "blocks":
                sched = [(i, c) for i in range(nt) for c in range(len(tabs[i][7]))]
            else:
                sched = [(i, c) for i in reversed(range(nt)) for c in range(len(tabs[i][7]))]
            for step, (i, c) in enumerate(sched):
                if step % 5 == 0:
                    Ts[i].clr = cooler.Cooler(Ts[i].uri)          # a fresh Cooler object now and then
                api, reg, reg2 = tabs[i][7][c]
                outs[i][c] = run_api(Ts[i], api, reg, reg2)
            Ts[0].close()
        elif hist["mode"] == "objhist":
            # OBJECT history: one Cooler object lives through changes of its file.  Query it, rename chromosomes through
            # cooler.rename_chroms(clr, mapping) on that same object (fresh names / a swap / a cyclic shift re-using existing
            # names), query the SAME object again by the new names and compare with the table stored now (model + oracle:
            # chromosome i keeps its bins, only its name changed) and with a freshly opened Cooler on the same file.
            bad = {}
            for i, tb in enumerate(tabs):
                T = Table(tmpdir, f"{k}_{i}", tb[0], tb[2], uri=os.path.join(d, f"r{k}_{i}.cool"))
                fixed[i] = T.clr.binsize is not None
                obj = T.clr
                ncalls = len(tb[7])
                kinds = (["fresh", "swap"], ["cycle", "fresh"], ["swap", "cycle"])[i % 3]
                bounds = [0, ncalls // 4, (5 * ncalls) // 8, ncalls]
                for phase in range(3):
                    if phase > 0:
                        old = list(T.names)
                        kind = kinds[phase - 1]
                        if kind == "fresh":
                            new = [f"{n}_r{phase}" for n in old]
                        elif kind == "swap":
                            new = [old[1], old[0]] + old[2:] if len(old) > 1 else [old[0] + "_s"]
                        else:
                            new = old[1:] + old[:1] if len(old) > 1 else [old[0] + "_c"]
                        cooler.rename_chroms(obj, {o_: n_ for o_, n_ in zip(old, new) if o_ != n_})
                        T.names = new
                        T.df["chrom"] = pd.Categorical([new[c] for blk in T.blocks for (c, _s, _e) in blk], categories=new, ordered=True)
                        from cooler.util import GenomeSegmentation
                        T.gs = GenomeSegmentation(pd.Series(index=new, data=[blk[-1][2] for blk in T.blocks]), T.df[["chrom", "start", "end"]])
                        T.grouped = T.df[["chrom", "start", "end"]].groupby("chrom", observed=True)
                        T.binid = {(new[c], s_): j for j, (c, s_, _e) in enumerate(b for blk in T.blocks for b in blk)}
                        if list(obj.chromnames) != new and i not in bad:
                            bad[i] = f"after rename_chroms ({kind}) the same Cooler object lists chromosomes {list(obj.chromnames)}, the file holds {new}"
                    for c in range(bounds[phase], bounds[phase + 1]):
                        api, reg, reg2 = tb[7][c]
                        T.clr = obj
                        got = run_api(T, api, reg, reg2)
                        if phase > 0:
                            T.clr = cooler.Cooler(T.uri)
                            fresh = run_api(T, api, reg, reg2)
                            T.clr = obj
                            if got != fresh:
                                got = ("the long-lived Cooler object disagrees with a freshly opened one after rename_chroms: " + str(got)[:150] + " vs " + str(fresh)[:150])
                        outs[i][c] = got
                T.close()
            return [((bad[i] if i in bad else "ok"), fixed[i], outs[i]) for i in range(nt)]
        else:
            path = os.path.join(d, f"o{k}.cool")
            how = hist.get("rewrite", "w")          # w: whole file; a-root / a-group: create_cooler(mode="a") at the root / a nested group; cli-append
            uri = path + "::/res/x" if how == "a-group" else path
            seq = hist["order_seq"]
            cnt = {i: seq.count(i) for i in range(nt)}
            done = {i: 0 for i in range(nt)}
            bad = {}
            for ph, i in enumerate(seq):
                mode = "w" if (how == "w" or ph == 0) else "a"
                T = Table(tmpdir, k, tabs[i][0], tabs[i][2], uri=uri, mode=mode, via_cli=(how == "cli-append"))
                fixed[i] = T.clr.binsize is not None
                exp_b = oracle_binsize(tabs[i][0])
                got_b = reported_binsize(T)
                if got_b != [exp_b, exp_b, "fixed" if exp_b is not None else "variable"] and i not in bad:
                    bad[i] = f"binsize: after re-creating the collection ({how}, step {ph} of {seq}) Cooler.binsize / info bin-size / bin-type = {got_b}, the stored table has bin size {exp_b}"
                ncalls = len(tabs[i][7])
                lo = ncalls * done[i] // cnt[i]
                done[i] += 1
                hi = ncalls * done[i] // cnt[i]
                for c in range(lo, hi):
                    api, reg, reg2 = tabs[i][7][c]
                    outs[i][c] = run_api(T, api, reg, reg2)
            if os.path.exists(path):
                os.remove(path)
            return [((bad[i] if i in bad else "ok"), fixed[i], outs[i]) for i in range(nt)]
        return [("ok", fixed[i], outs[i]) for i in range(nt)]
    except TimeoutError:
        return [("timeout", None, None)] * nt
    except Exception as e:  # noqa: BLE001
        return [("crash:" + type(e).__name__ + ":" + str(e)[:200], None, None)] * nt
    finally:
        signal.alarm(0)


# ------------------------------------------------------------------ model side
def zopt(x):
    return C.opt(None if x is None else C.z(int(x)))


def coq_region(reg):
    c, s, e, _ = reg
    return C.tup(C.nat(c), zopt(s), zopt(e))


def coq_blocks(blocks):
    return C.lst([C.lst([C.tup(C.z(c), C.z(s), C.z(e)) for (c, s, e) in blk]) for blk in blocks])


def model_expr(blocks, px, regs, fidx, pairs):
    bl = coq_blocks(blocks)
    pxl = C.lst([C.tup(C.z(i), C.z(j)) for i, j, _ in px])
    rl = C.lst([coq_region(r) for r in regs])
    fl = C.lst([coq_region(regs[i]) for i in fidx])
    pl = C.lst([C.tup(coq_region(a), coq_region(b_)) for a, b_ in pairs])
    rt = "nat * option Z * option Z"
    return (f"(let blocks := {bl} in let px := {pxl} in "
            f"(valid_blocks_b blocks, "
            f"map (fun r : {rt} => let '(c, s, e) := r in extent blocks c s e) {rl}, "
            f"map (fun r : {rt} => let '(c, s, e) := r in "
            f"(bins_fetch blocks c s e, pixels_fetch blocks px c s e, segmentation_fetch blocks c s e)) {fl}, "
            f"map (fun rr : ({rt}) * ({rt}) => matrix_fetch_box blocks (fst rr) (snd rr)) {pl}))")


def unopt(x):
    return None if x is None else x[1]


# ------------------------------------------------------------------ oracle per call
def oracle_call(blocks, px, full, api, reg, reg2, got):
    """True = the property holds for this answer of the implementation (None-resolving regions are outside the quantifier)"""
    api = api.partition(":")[0]
    r = resolve(blocks, reg)
    api = {"dump": "mpixels", "dump2": "mpixels2"}.get(api, api)
    if api == "mpixels2":
        r2 = resolve(blocks, reg2)
        if r is None or r2 is None:
            return True
        if isinstance(got, str):
            return False
        if r[1] < r[2] and r2[1] < r2[2]:
            s1, s2 = set(overlap_ids(blocks, *r)), set(overlap_ids(blocks, *r2))
            return got == [[a, b_, v] for a, b_, v in px if a in s1 and b_ in s2]
        lim1 = 1 if r[1] == r[2] else len(overlap_ids(blocks, *r))
        lim2 = 1 if r2[1] == r2[2] else len(overlap_ids(blocks, *r2))
        return len(got) <= lim1 * lim2 and all([a, b_, v] in [list(p) for p in px] for a, b_, v in got)
    if api == "matrix2":
        r2 = resolve(blocks, reg2)
        if r is None or r2 is None:
            return True
        if isinstance(got, str):
            return False
        arr = np.array(got[:-1], dtype=np.int64).reshape(got[-1])
        if r[1] < r[2] and r2[1] < r2[2]:
            s1, s2 = overlap_ids(blocks, *r), overlap_ids(blocks, *r2)
            return arr.shape == (len(s1), len(s2)) and bool(np.array_equal(arr, full[np.ix_(s1, s2)]))
        lim1 = 1 if r[1] == r[2] else len(overlap_ids(blocks, *r))
        lim2 = 1 if r2[1] == r2[2] else len(overlap_ids(blocks, *r2))
        return arr.shape[0] <= lim1 and arr.shape[1] <= lim2
    if r is None:
        return True
    if isinstance(got, str):
        return False
    c, s, e = r
    if api == "extent":
        return got[0] <= got[1] and oracle_ids(blocks, reg, list(range(got[0], got[1])))
    if api == "offset":
        return (got in overlap_ids(blocks, c, s, e)[:1]) if s < e else True
    if api in ("bins", "segfetch", "bedslice"):
        fl = flat(blocks)
        return oracle_ids(blocks, reg, [row[0] for row in got]) and all(0 <= row[0] < len(fl) and tuple(row[1:]) == fl[row[0]] for row in got)
    if api == "pixels":
        if s < e:
            sel = set(overlap_ids(blocks, c, s, e))
            return got == [[a, b_, v] for a, b_, v in px if a in sel]
        rows = sorted({a for a, _, _ in got})
        return len(rows) <= 1 and all(a in containing_ids(blocks, c, s) for a in rows) and \
            (not rows or got == [[a, b_, v] for a, b_, v in px if a == rows[0]])
    if api == "mpixels":
        if s < e:
            sel = set(overlap_ids(blocks, c, s, e))
            return got == [[a, b_, v] for a, b_, v in px if a in sel and b_ in sel]
        return len(got) <= 1 and all(a == b_ and a in containing_ids(blocks, c, s) and [a, b_, v] in [list(p) for p in px] for a, b_, v in got)
    if api == "matrix":
        arr = np.array(got[:-1], dtype=np.int64).reshape(got[-1])
        if s < e:
            sel = overlap_ids(blocks, c, s, e)
            return arr.shape == (len(sel), len(sel)) and bool(np.array_equal(arr, full[np.ix_(sel, sel)]))
        cand = containing_ids(blocks, c, s)
        return arr.shape == (0, 0) or (arr.shape == (1, 1) and any(arr[0, 0] == full[q, q] for q in cand))
    raise AssertionError(api)


FETCH_APIS = ["offset", "bins", "pixels", "matrix", "mpixels", "segfetch", "bedslice"]
FORMS = {"pixels": ["", ":join"], "matrix": ["", ":sparse"]}
PAIR_APIS = ["matrix2", "matrix2:sparse", "mpixels2"]


def fetch_calls(i, reg):
    """the fetch APIs for region number i, with a rotating call form (dense/sparse matrix, plain/joined pixels);
    string regions also go through `cooler dump -r`"""
    out = [api + FORMS.get(api, [""])[i % len(FORMS.get(api, [""]))] for api in FETCH_APIS]
    return out + (["dump"] if is_string_how(reg[3]) else [])


def pair_api(k, ra, rb):
    if is_string_how(ra[3]) and is_string_how(rb[3]) and k % 2 == 0:
        return "dump2"
    return PAIR_APIS[k % 3]


# ------------------------------------------------------------------ run
def run(ctx):
    import multiprocessing as mp
    import random
    thorough = ctx.tier == "thorough"
    rng = ctx.rng
    jobs = []   # (widths, regs, share of regions that also go through the fetch APIs, label)
    share = 0.3 if thorough else 0.14
    for widths in CORPUS:
        blocks = blocks_from_widths(widths)
        small = max(b[-1][2] for b in blocks) <= 12
        regs = regions_small(rng, blocks, 1.0) if small else regions_large(rng, blocks, 40)
        jobs.append((widths, regs, 0.5, "corpus"))
    for widths in small_tables(thorough):
        blocks = blocks_from_widths(widths)
        jobs.append((widths, regions_small(rng, blocks, 0.5 if thorough else 0.4), share, "small"))
    for _ in range(300 if thorough else 60):
        widths = random_blocks(rng)
        blocks = blocks_from_widths(widths)
        jobs.append((widths, regions_large(rng, blocks, 30 if thorough else 12), 0.3 if thorough else 0.25, "random"))
    for _ in range(60 if thorough else 12):    # large coordinates, up to the int32 coordinate range
        b = rng.choice([2 ** 20, 10 ** 6, 2 ** 28, 2 ** 30 - 1, 999999937])
        widths = []
        for _c in range(rng.randint(1, 3)):
            room = (2 ** 31 - 1) // b
            nb = rng.randint(1, max(1, min(4, room)))
            ws = [b] * nb
            fam = rng.choice(["uniform", "short", "long", "var"])
            if fam == "short":
                ws[-1] = rng.randint(1, b)
            elif fam == "long" and nb * b + b // 2 < 2 ** 31:
                ws[-1] = b + rng.randint(1, b // 2)
            elif fam == "var":
                ws = [rng.randint(1, b) for _ in range(nb)]
            widths.append(ws)
        blocks = blocks_from_widths(widths)
        jobs.append((widths, regions_large(rng, blocks, 12), 0.25, "bigcoord"))

    jobs += unit_jobs(rng, thorough)        # unit-suffixed region strings on bin edges (widths 10 / 100 / 1000 / variable sweep tables)

    # per table: pixel list (from a recorded seed), the regions that also go through the fetch APIs, region pairs
    plan = []
    for widths, regs, sh, label in jobs:
        n = sum(len(w) for w in widths)
        pxseed = rng.randrange(1 << 30)
        dense = (0.6 if n <= 12 else 0.25) if (label != "corpus" or len(plan) % 2 == 0) else 0.08   # sparse: chromosomes without pixels
        if n > 60:
            dense = 0.5                                                           # banded, see make_px
        px = make_px(random.Random(pxseed), n, dense)
        if label == "units":   # dense results stay small: only short string regions go through the fetch APIs
            wmax = max(max(w) for w in widths)
            fidx = [i for i, r in enumerate(regs) if r[3] != "tuple" and r[1] is not None and r[2] is not None
                    and r[2] - r[1] <= 3 * wmax and rng.random() < sh]
        else:
            fidx = [i for i in range(len(regs)) if rng.random() < sh]
        pairs = []
        for i in fidx:
            if rng.random() < 0.5:
                pairs.append((regs[i], regs[rng.choice(fidx) if label == "units" else rng.randrange(len(regs))]))
        calls = [("extent", reg, None) for reg in regs]
        calls += [(api, regs[i], None) for i in fidx for api in fetch_calls(i, regs[i])]
        calls += [(pair_api(k, ra, rb), ra, rb) for k, (ra, rb) in enumerate(pairs)]
        plan.append((widths, pxseed, px, regs, fidx, pairs, label, calls, dense, None))
    n_plain = len(plan)

    # histories: state carried between calls in one process (same file name / same bin size, different chromosome tables)
    hists = []
    for kind in ("fixed", "variable"):
        for rep in range(2 if thorough else 1):
            fam = family_tables(rng, kind)
            for order in ("alternate", "blocks", "reversed"):
                hists.append({"mode": "groups", "order": order, "family": fam, "hseed": rng.randrange(1 << 30), "kind": kind})
            seq = [0, 1, 2, 0, 1] if rep == 0 else [2, 0, 1, 0, 2]
            hists.append({"mode": "overwrite", "order": "seq" + "".join(map(str, seq)), "order_seq": seq, "family": fam,
                          "hseed": rng.randrange(1 << 30), "kind": kind})
    for kind in ("fixed", "variable"):          # object history: a Cooler object that lives through rename_chroms
        hists.append({"mode": "objhist", "order": "rename", "family": family_tables(rng, kind), "hseed": rng.randrange(1 << 30), "kind": kind})
    for rep in range(2 if thorough else 1):
        fam = family_mixed(rng)
        for how in ("w", "a-root", "a-group", "cli-append"):
            seq = [0, 1, 2, 3, 0, 2, 1, 3, 1, 0] if rep == 0 else [1, 0, 3, 2, 0, 1, 3, 1, 2, 0]
            hists.append({"mode": "overwrite", "rewrite": how, "order": how + "-seq" + "".join(map(str, seq)), "order_seq": seq, "family": fam,
                          "hseed": rng.randrange(1 << 30), "kind": "mixed"})
    hjobs = []
    for hk, hist in enumerate(hists):
        hjobs.append((str(ctx.tmp), hk, hist))
        for hidx, tb in enumerate(history_tables(hist)):
            plan.append(tb + ({"history": hist, "hidx": hidx},))

    exprs = [model_expr(blocks_from_widths(w), px, regs, fidx, pairs) for (w, _s, px, regs, fidx, pairs, _l, _c, _d, _h) in plan]
    wjobs = [(str(ctx.tmp), k, w, px, calls) for k, (w, _s, px, _r, _f, _p, _l, calls, _d, _h) in enumerate(plan[:n_plain])]
    pool = mp.get_context("fork").Pool(4)
    try:
        async_h = pool.map_async(history_worker, hjobs, chunksize=1)
        async_res = pool.map_async(table_worker, wjobs, chunksize=4)
        model = C.coq_eval("From Cooler Require Import Model.Extent.", exprs, tmpdir=ctx.tmp / "extent", shard=24, jobs=3)
        impl = async_res.get(timeout=3000)
        for res in async_h.get(timeout=3000):
            impl.extend(res)
    finally:
        pool.terminate()

    counts = {"tables": len(plan), "regions": 0, "api_calls": 0, "fixed_tables": 0, "variable_tables": 0}
    for (widths, pxseed, px, regs, fidx, pairs, label, calls, dense, hinfo), mo, (status, fixed, got_all) in zip(plan, model, impl):
        mvalid, mext_all, mfetch, mpairs = mo
        blocks = blocks_from_widths(widths)
        n = sum(len(w) for w in widths)
        tcase = {"widths": widths, "px_seed": pxseed, "px_dense": dense}
        if hinfo:
            tcase.update(hinfo)
        if not mvalid:
            ctx.disagree("generator produced a table the model calls invalid", tcase, True, False)
        if status != "ok":
            ctx.case(tcase, kind="table:" + status.split(":")[0])
            ctx.compare("table run", tcase, status, "ok")
            ctx.fail(tcase, {"implementation": status, "note": "creating/opening/querying a valid table failed"}, None)
            continue
        counts["fixed_tables" if fixed else "variable_tables"] += 1
        counts["regions"] += len(regs)
        full = dense_full(n, px)
        vals = {(a, b_): v for a, b_, v in px}
        multi = len(blocks) >= 2
        mext = {i: unopt(m) for i, m in enumerate(mext_all)}
        mf = {i: m for i, m in zip(fidx, mfetch)}
        mp2 = {k: unopt(m) for k, m in enumerate(mpairs)}
        pair_no = 0
        pos = 0
        order = [(i, "extent") for i in range(len(regs))] + [(i, api) for i in fidx for api in fetch_calls(i, regs[i])]
        for (i, fullapi), got in zip(order, got_all):
            api = fullapi.partition(":")[0]
            reg = regs[i]
            pos += 1
            r = resolve(blocks, reg)
            nontriv = r is not None and (r[1] > 0 or r[2] < blocks[r[0]][-1][2]) and (multi or len(blocks[r[0]]) >= 2)
            kind = label + (":fixed" if fixed else ":variable") + (":malformed" if r is None else (":empty" if r[1] == r[2] else ""))
            case = dict(tcase, api=fullapi, region=list(reg))
            ctx.case(case, nontrivial=nontriv, kind=fullapi + ":" + kind)
            counts["api_calls"] += 1
            me = mext[i]
            if me is None:
                exp = "ValueError"
            elif api == "extent":
                exp = [me[0], me[1]]
            elif api == "offset":
                exp = me[0]
            elif api == "bins":
                exp = [[me[0] + j, c, s, e] for j, (c, s, e) in enumerate(unopt(mf[i][0]))]
            elif api == "pixels":
                exp = [[a, b_, vals[(a, b_)]] for a, b_ in unopt(mf[i][1])]
            elif api == "matrix":
                sub = full[me[0]:me[1], me[0]:me[1]]
                exp = sub.tolist() + [list(sub.shape)]
            elif api in ("mpixels", "dump"):
                exp = [[a, b_, v] for a, b_, v in px if me[0] <= a < me[1] and me[0] <= b_ < me[1]]
            else:
                off = sum(len(b) for b in blocks[:reg[0]])
                where = {tuple(b): off + j for j, b in enumerate(blocks[reg[0]])}
                exp = [[where[(c, s, e)], c, s, e] for (c, s, e) in unopt(mf[i][2])]
            ctx.compare(api, case, got, exp)
            if not oracle_call(blocks, px, full, api, reg, None, got):
                ctx.fail(case, {"got": got if len(str(got)) < 600 else str(got)[:600], "resolved_region": list(r)}, None)
        for k, ((ra, rb), got) in enumerate(zip(pairs, got_all[pos:])):
            papi = pair_api(k, ra, rb)
            case = dict(tcase, api=papi, region=list(ra), region2=list(rb))
            r1, r2 = resolve(blocks, ra), resolve(blocks, rb)
            ctx.case(case, nontrivial=r1 is not None and r2 is not None and multi, kind=papi + ":" + label)
            counts["api_calls"] += 1
            mb = mp2[k]
            if mb is None:
                exp = "ValueError"
            elif papi in ("mpixels2", "dump2"):
                exp = [[a, b_, v] for a, b_, v in px if mb[0] <= a < mb[1] and mb[2] <= b_ < mb[3]]
            else:
                sub = full[mb[0]:mb[1], mb[2]:mb[3]]
                exp = sub.tolist() + [list(sub.shape)]
            ctx.compare(papi, case, got, exp)
            if not oracle_call(blocks, px, full, papi, ra, rb, got):
                ctx.fail(case, {"got": str(got)[:600]}, None)
    ctx.exhaustive = True
    ctx.extra["scopes"] = counts


def replay(ctx, case):
    import random
    widths = case["widths"]
    n = sum(len(w) for w in widths)
    px = make_px(random.Random(case["px_seed"]), n, case.get("px_dense", 0.6 if n <= 12 else 0.25))
    blocks = blocks_from_widths(widths)
    if "history" in case:          # re-run the whole history in one process and judge the recorded call of the recorded table
        res = history_worker((str(ctx.tmp), 0, case["history"]))
        st, _, outs = res[case["hidx"]]
        if st != "ok":
            return False
        if "api" not in case:
            return True
        calls = history_tables(case["history"])[case["hidx"]][7]
        reg = tuple(case["region"])
        reg2 = tuple(case["region2"]) if "region2" in case else None
        ok = True
        for (api, r1, r2), got in zip(calls, outs):
            if api == case["api"] and tuple(r1) == reg and (None if r2 is None else tuple(r2)) == reg2:
                ok = ok and bool(oracle_call(blocks, px, dense_full(n, px), api, reg, reg2, got))
        return ok
    if "api" not in case:
        st, _, _ = table_worker((str(ctx.tmp), 0, widths, px, []))
        return st == "ok"
    T = Table(ctx.tmp, 0, widths, px)
    reg = tuple(case["region"])
    reg2 = tuple(case["region2"]) if "region2" in case else None
    got = run_api(T, case["api"], reg, reg2)
    T.close()
    return bool(oracle_call(blocks, px, dense_full(n, px), case["api"], reg, reg2, got))
